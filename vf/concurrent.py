"""Pairs of operations that yabgp runs in different threads, explored by vf/threads.py (engine E5).

spec of one body:
    ('construct', msg, asn4)                 Update.construct in a REST worker thread
    ('parse', msg, asn4)                     Update.parse of the octets Update.construct gives for msg (the reactor thread)
    ('rest', method, path, body)             a REST request served by a worker thread, against one Established agent
A pair of specs is explored with every schedule of at most `bound` preemptions; each body must give what it gives alone, and
for REST pairs the octets on the wire after both must be those of the two sequential requests (in either order)."""
import copy

from . import boot, threads, report

ESTABLISHED = [('TICK', 0), ('CONN_OK', 0), ('RX', 0, 'OPEN_OK'), ('RX', 0, 'KA')]


def root():
    import os
    return os.path.join(os.path.realpath(boot.REPO), 'yabgp') + os.sep


_M = []


def _messages():
    if not _M:
        from .alphabet import session_messages
        _M.append(dict(session_messages()))
    return _M[0]


def _rest_body(w, method, path, body):
    def run():
        import base64
        import json
        from yabgp.api.app import app
        c = app.test_client()              # one client per worker thread
        kw = {'data': json.dumps(body), 'content_type': 'application/json'} if body is not None else {}
        r = c.open(path.replace('<ip>', w.cfg['remote_addr']), method=method,
                   headers={'Authorization': 'Basic ' + base64.b64encode(b'admin:admin').decode()}, **kw)
        return r.status_code, r.get_data()
    return run


def _event_body(w, ev):
    """one reactor event, run by the 'reactor thread' while a REST worker thread is inside its request"""
    def run():
        from twisted.internet import error
        s = w.sim
        m = _messages()
        kind = ev[0]
        if kind == 'RX':
            s.deliver(w.readable()[ev[1]], m[ev[2]])
        elif kind == 'PEER_CLOSE':
            s.close_delivered(w.readable()[ev[1]], error.ConnectionDone())
        elif kind == 'TICK':
            s.run_call(w.due()[ev[1]])
        elif kind == 'OP_STOP':
            from yabgp.api import utils
            utils.manual_stop(w.cfg['remote_addr'])
        else:
            raise ValueError(ev)
        s.drain_threads()              # the reactor runs what worker threads handed to callFromThread so far
        return None
    return run


def _rest_outcome(r):
    """what C16 distinguishes: done and reported done / refused (in whatever words)"""
    import json
    st, data = r
    try:
        ok = st == 200 and json.loads(data).get('status') is True
    except Exception:      # noqa
        ok = False
    return 'sent' if ok else 'refused'


def make_bodies(specs):
    """fresh bodies (and a fresh agent when a REST request is among them); returns (bodies, finish)"""
    from yabgp.message.update import Update
    import yabgp.core.protocol, yabgp.core.factory, yabgp.core.fsm, yabgp.api.v1, yabgp.api.utils      # noqa
    threads.install_cooperative_locks()      # locks of the code under test hand the baton over instead of blocking the process
    w = None
    cfg = dict(next((s[1] for s in specs if s[0] == 'cfg'), {}))
    specs = [s for s in specs if s[0] not in ('cfg', 'either')]
    if any(s[0] in ('rest', 'event') for s in specs):
        from . import world as W
        w = W.replay(cfg, ESTABLISHED, _messages())
        w.sim.effects = []
    bodies = []
    for s in specs:
        if s[0] == 'msg':
            bodies.append(_msg_body(s[1]))
        elif s[0] == 'construct':
            bodies.append(lambda s=s: Update.construct(copy.deepcopy(s[1]), s[2]))
        elif s[0] == 'parse':
            # the octets come from the reference encoder: the process stays cold for the bodies (see threads.explore, cold=True)
            from .ref import upd
            data = upd.encode_update(copy.deepcopy(s[1]), s[2], False, None)
            bodies.append(lambda s=s, data=data: Update.parse(None, data[19:], s[2]))
        elif s[0] == 'event':
            bodies.append(_event_body(w, s[1]))
        elif any(x[0] == 'event' for x in specs):
            rb = _rest_body(w, s[1], s[2], s[3])
            bodies.append(lambda rb=rb: _rest_outcome(rb()))
        else:
            bodies.append(_rest_body(w, s[1], s[2], s[3]))

    def finish():
        if w is None:
            return None
        w.sim.drain_threads()
        t = w.sim.connectors[0].transport
        p = w.fsm.protocol
        if any(s[0] == 'event' for s in specs):
            # a message handed to a transport that has just gone is "dropped with its connection" (as in vf/deferred.py); the
            # counters are those of the *current* connection: once it is gone there is nothing C18 compares them with
            from .ref import wire
            dropped = [m for e in w.sim.effects if e[0] == 'write-dropped' for m in wire.abstract_writes(e[2])]
            if cfg.get('rib'):
                return ([m for _, d in t.writes for m in wire.abstract_writes(d)] + dropped, t.connected, w.reported_state(), _rib(p))
            return ([m for _, d in t.writes for m in wire.abstract_writes(d)] + dropped, t.connected, bool(t.disconnecting), w.reported_state(),
                    dict(p.msg_sent_stat) if p is not None and t.connected else None)
        return sorted(bytes(d) for _, d in t.writes), dict(p.msg_sent_stat), _rib(p) if cfg.get('rib') else None
    return bodies, finish


def _rib(p):
    from . import world as W
    if p is None:
        return None
    return W._summ({'in': getattr(p, 'adj_rib_in', None), 'out': getattr(p, 'adj_rib_out', None),
                    'rv': getattr(p, 'receive_version', None), 'sv': getattr(p, 'send_version', None)})


def _msg_body(kind):
    """the other messages the agent builds (in the reactor thread) while a worker thread builds an UPDATE"""
    def run():
        from yabgp.message.keepalive import KeepAlive
        from yabgp.message.notification import Notification
        from yabgp.message.route_refresh import RouteRefresh
        from yabgp.message.open import Open
        if kind == 'keepalive':
            return KeepAlive().construct()
        if kind == 'notification':
            return Notification().construct(6, 2, b'\x01\x02\x03')
        if kind == 'route_refresh':
            return RouteRefresh(2, 128).construct(128)
        if kind == 'open':
            return Open(version=4, asn=65001, hold_time=180, bgp_id='10.0.0.1').construct({'four_bytes_as': True, 'route_refresh': True,
                                                                                          'afi_safi': [(1, 1), (2, 1)]})
        raise ValueError(kind)
    return run


def same(a, b):
    return repr(a) == repr(b)


def _either(specs):
    """the two bodies need not commute (a reactor event; two sends that touch the same route): linearizability instead"""
    return any(s[0] in ('event', 'either') for s in specs)


def explore_pair(specs, bound, max_cuts=None, cold=False):
    """threads.explore with the wire as a third observation"""
    rt = root()

    def mk():
        bodies, finish = make_bodies(specs)
        return _WithFinish(bodies, finish)
    return threads.explore(mk, bound, rt, same=same, max_cuts=max_cuts, either_order=_either(specs), cold=cold)


class _WithFinish(list):
    """the bodies, plus what to observe when both are done (threads.run_schedule appends finish() to the results)"""
    def __init__(self, bodies, finish):
        list.__init__(self, bodies)
        self.finish = finish


def task(args):
    prop, label, specs, bound, max_cuts = args[:5]
    cold = len(args) > 5 and args[5]
    r = explore_pair(specs, bound, max_cuts, cold)
    viol = []
    for kind, det in r['violations']:
        viol.append(('%s|threads|%s|%s' % (prop, label, kind), dict(det, label=label, specs=report.pack(specs), bound=bound, cold=cold)))
    classes = set((label, o) for o in r['outcomes'])
    return r['executions'], viol, classes, {'label': label, 'lines': r['lines'], 'stride': r['stride'], 'bound': bound, 'executions': r['executions']}


def task3(args):
    """task() in the (n, violations, classes) shape of the case-pool tasks; the exploration's size travels in the classes"""
    n, viol, classes, info = task(args)
    classes.add(('threads-info', info['label'], tuple(info['lines']), tuple(info['stride']), info['bound'], info['executions']))
    return n, viol, classes


def coverage(classes):
    """-> (classes without the info records, [info dicts]) for the evidence file"""
    info = sorted(c for c in classes if c and c[0] == 'threads-info')
    rest = set(c for c in classes if not (c and c[0] == 'threads-info'))
    return rest, [{'pair': c[1], 'traced_lines_per_thread': list(c[2]), 'cut_point_stride': list(c[3]), 'preemption_bound': c[4], 'schedules_executed': c[5]}
                  for c in info]


def replay(prop, witness):
    specs = report.unpack(witness['specs'])
    rt = root()

    def mk():
        bodies, finish = make_bodies(specs)
        return _WithFinish(bodies, finish)
    if witness.get('cold'):
        r01, lines, _ = threads._forked(threads._cold_run, mk, 0, [], rt)
        r10, _, _ = threads._forked(threads._cold_run, mk, 1, [], rt)
    else:
        for _ in range(2):
            threads.sequential(mk, rt)
        r01, r10, lines = threads.sequential(mk, rt)
    if 'cuts' not in witness:
        return [('sequential order matters', {'first_then_second': repr(r01)[:300], 'second_then_first': repr(r10)[:300]})] if not same(r01, r10) else []
    cuts = [tuple(c) for c in witness['cuts']]
    if witness.get('cold'):
        r, _, _ = threads._forked(threads._cold_run, mk, witness['start'], cuts, rt)
    else:
        r, _, _ = threads.run_schedule(mk(), witness['start'], cuts, rt)
    out = []
    if not same(r, r01) and not (_either(specs) and same(r, r10)):
        out.append(('interleaving result differs from the sequential one', {'start': witness['start'], 'cuts': cuts, 'got': repr(r)[:600], 'sequential': repr(r01)[:600]}))
    return out


def cli_replay(prop, d):
    a, b = report.fresh(replay, prop, d['witness']), report.fresh(replay, prop, d['witness'])
    if repr(a) != repr(b):
        print('HARNESS-ERROR: replay is not deterministic')
        return 2
    w = d['witness']
    print('pair:', w.get('label'), ' first thread:', w.get('start'), ' preempted at (thread, traced lines done):', w.get('cuts'))
    for k, det in a:
        print(k)
        print('  ', str(det)[:1200])
    return 1 if any(d['key'].endswith('|' + k) for k, _ in a) else 0


# ------------------------------------------------------------------ pairs
def _rich():
    """two UPDATEs that carry every attribute of C06 with different values, and different prefix lists"""
    from .ref import pools, upd
    a = {'attr': dict(pools.REPRESENTATIVE), 'nlri': ['10.1.0.0/16', '10.2.0.0/16', '10.3.3.0/24', '10.4.4.4/32'], 'withdraw': ['10.9.0.0/16']}
    battr = {}
    for code in pools.C06_CODES:
        battr[code] = pools.REPRESENTATIVE[code]
        for value, cv in reversed(list(pools.reduced_attr_pool(code, True, 'quick'))):
            if repr(value) != repr(pools.REPRESENTATIVE[code]) and upd.in_range({'attr': {code: value}}, True)[0]:
                battr[code] = value
                break
    b = {'attr': battr, 'nlri': ['203.0.113.0/24', '198.51.100.0/25'], 'withdraw': ['172.16.0.0/12', '0.0.0.0/0']}
    return a, b


def pairs_c06(tier):
    a, b = _rich()
    out = [('all-attributes construct x construct', [('construct', a, True), ('construct', b, True)]),
           ('all-attributes construct x parse', [('construct', a, True), ('parse', b, True)]),
           ('all-attributes construct x construct (2-octet AS)', [('construct', a, False), ('construct', b, True)])]
    return out


def pairs_c07(tier):
    from .props import c06
    reps = c06.family_representatives(tier)
    by = {}
    for k, m in reps:
        by.setdefault(k, []).append(m)
    out = []
    for k, ms in sorted(by.items()):
        x, y = ms[0], ms[-1]
        name = '%s/%s' % (k[0], {14: 'reach', 15: 'unreach'}[k[1]])
        out.append((name + ' construct x construct', [('construct', x, True), ('construct', y, True)]))
        out.append((name + ' construct x parse', [('construct', x, True), ('parse', y, True)]))
    # the same route distinguisher / next hop in both threads, different routes (state keyed by a value both share)
    for k, ms in sorted(by.items()):
        if k[1] == 14 and len(ms) > 1:
            x = ms[0]
            y = copy.deepcopy(ms[-1])
            for key in ('nexthop',):
                y['attr'][14][key] = copy.deepcopy(x['attr'][14][key])
            out.append(('%s/reach shared next hop construct x construct' % k[0], [('construct', x, True), ('construct', y, True)]))
    return out


COMM_X = {'attr': {'1': 0, '2': [[2, [65001]]], '3': '10.0.0.1', '8': ['65001:1', 'NO_EXPORT'], '16': ['route-target:65001:1', 'route-origin:10.0.0.1:2'],
                   '32': ['65001:1:2', '65001:3:4']}, 'nlri': ['10.9.0.0/16']}
COMM_Y = {'attr': {'1': 0, '2': [[2, [65002]]], '3': '10.0.0.9', '8': ['65002:7', 'NO_ADVERTISE', '1:1'], '16': ['route-target:70000:9', 'dmzlink-bw:65002:1000'],
                   '32': ['4200000000:5:6', '7:8:9', '1:1:1']}, 'nlri': ['10.7.0.0/16', '10.8.0.0/24']}


def pairs_c17(tier):
    j = '/v1/peer/<ip>/json_to_bin'
    s = '/v1/peer/<ip>/send/update'
    return [('json_to_bin x json_to_bin (communities)', [('rest', 'POST', j, COMM_X), ('rest', 'POST', j, COMM_Y)]),
            ('send/update x json_to_bin (communities)', [('rest', 'POST', s, COMM_X), ('rest', 'POST', j, COMM_Y)])]


def pairs_c16(tier):
    s = '/v1/peer/<ip>/send/update'
    return [('send/update x send/update', [('rest', 'POST', s, COMM_X), ('rest', 'POST', s, COMM_Y)]),
            ('send/update x send/route-refresh', [('rest', 'POST', s, COMM_X), ('rest', 'POST', '/v1/peer/<ip>/send/route-refresh', {'afi': 1, 'safi': 1, 'res': 0})])] \
        + _event_pairs([('send/update', ('POST', s, COMM_X)),
                        ('send/bin_update', ('POST', '/v1/peer/<ip>/send/bin_update', {'binary_data': _messages()['UPD'].hex()}))], EVENTS)


EVENTS = (('RX', 0, 'KA'), ('RX', 0, 'NOTIF_CEASE'), ('RX', 0, 'UPD'), ('PEER_CLOSE', 0), ('TICK', 0), ('OP_STOP',))


def _event_pairs(reqs, events):
    """a REST request inside its worker thread x one event of the reactor thread: the two need not commute, every interleaving
    must come out as one of the two sequential orders (answer sent / refused, messages on the wire, counters, session state)"""
    out = []
    for name, req in reqs:
        for ev in events:
            out.append(('%s x reactor event %s' % (name, ' '.join(map(str, ev))), [('rest',) + req, ('event', ev)]))
    return out


def pairs_c18(tier):
    s = '/v1/peer/<ip>/send/update'
    b = '/v1/peer/<ip>/send/bin_update'
    upd = _messages()['UPD'].hex()
    return [('send/bin_update x send/update (counters)', [('rest', 'POST', b, {'binary_data': upd + upd}), ('rest', 'POST', s, COMM_X)]),
            ('send/bin_update x send/bin_update (counters)', [('rest', 'POST', b, {'binary_data': upd + upd}), ('rest', 'POST', b, {'binary_data': upd})]),
            ('send/update x send/route-refresh (counters)', [('rest', 'POST', s, COMM_X), ('rest', 'POST', '/v1/peer/<ip>/send/route-refresh', {'afi': 1, 'safi': 1, 'res': 0})])] \
        + _pairs_c18_events(tier)


def _pairs_c18_events(tier):
    s = '/v1/peer/<ip>/send/update'
    reqs = [('send/update', ('POST', s, COMM_X)), ('send/route-refresh', ('POST', '/v1/peer/<ip>/send/route-refresh', {'afi': 1, 'safi': 1, 'res': 0}))]
    return _event_pairs(reqs, (('RX', 0, 'KA'), ('RX', 0, 'NOTIF_CEASE'), ('PEER_CLOSE', 0)))


def pairs_c14(tier):
    """OPEN / NOTIFICATION / KEEPALIVE / ROUTE-REFRESH are built in the reactor thread while worker threads build UPDATEs"""
    a, b = _rich()
    kinds = ('keepalive', 'notification', 'route_refresh', 'open')
    out = [('%s x UPDATE construct' % k, [('msg', k), ('construct', a, True)]) for k in kinds]
    out += [('%s x %s' % (x, y), [('msg', x), ('msg', y)]) for x, y in (('keepalive', 'route_refresh'), ('notification', 'open'), ('keepalive', 'notification'),
                                                                         ('route_refresh', 'open'))]
    return out


RIB_X = {'attr': {'1': 0, '2': [[2, [65001]]], '3': '10.0.0.1'}, 'nlri': ['10.9.0.0/16', '10.10.0.0/16'], 'withdraw': []}
RIB_Y = {'attr': {'1': 0, '2': [[2, [65001, 65009]]], '3': '10.0.0.1', '4': 7}, 'nlri': ['10.7.0.0/16', '10.8.0.0/24', '10.6.0.0/16']}
RIB_Z = {'attr': {'1': 0, '2': [[2, [65001]]], '3': '10.0.0.1'}, 'nlri': ['10.9.0.0/16'], 'withdraw': []}


def pairs_c19(tier):
    """RIB maintenance on: two sends in two worker threads (Adj-RIB-Out and its version counter), a send x a received UPDATE"""
    s = '/v1/peer/<ip>/send/update'
    cfg = ('cfg', {'rib': True})
    return [('send/update x send/update (rib on, disjoint routes)', [cfg, ('rest', 'POST', s, RIB_X), ('rest', 'POST', s, RIB_Y)]),
            ('send/update x send/update (rib on, one new route in common, same attributes)', [cfg, ('rest', 'POST', s, RIB_Y), ('rest', 'POST', s, dict(RIB_Y, nlri=['10.7.0.0/16', '10.5.0.0/16']))]),
            ('send/update x send/update (rib on, one new route in common, other attributes)', [cfg, ('either',), ('rest', 'POST', s, RIB_X), ('rest', 'POST', s, dict(RIB_Y, nlri=['10.9.0.0/16', '10.5.0.0/16']))]),
            ('send/update x withdraw of the same route (rib on)', [cfg, ('either',), ('rest', 'POST', s, RIB_Z), ('rest', 'POST', s, {'withdraw': ['10.9.0.0/16']})]),
            ('send/update x received UPDATE (rib on)', [cfg, ('rest', 'POST', s, RIB_X), ('event', ('RX', 0, 'UPD'))])]


def tasks(prop, tier):
    pairs = {'C06': pairs_c06, 'C07': pairs_c07, 'C14': pairs_c14, 'C16': pairs_c16, 'C17': pairs_c17, 'C18': pairs_c18, 'C19': pairs_c19}[prop](tier)
    out = []
    for label, specs in pairs:
        # one preemption: every cut point (quick: at most 400 per body, bodies of thousands of lines are thinned)
        out.append((prop, label, specs, 1, 500 if tier == 'quick' else None))
        # the same from a cold start (each execution in a fresh process that has never run the bodies): first-use races
        if not any(s[0] == 'event' for s in specs):
            out.append((prop, label + ' [cold start]', specs, 1, 120 if tier == 'quick' else 400, True))
    if tier == 'thorough':
        # two preemptions (the second thread is itself preempted) on the first pair of the property, 150 cut points per body
        out.append((prop, pairs[0][0] + ' [2 preemptions]', pairs[0][1], 2, 150))
    return out
