"""Instance-independence probe (run first by every session-layer check).

Every exploration in /verif builds many agent instances in one process and assumes that an instance's behaviour is a function
of its own history.  A change that moves per-connection or per-session state to a class attribute, a module global, a mutable
default argument or a cache breaks exactly that - and with it every "for every history" property, because the history of the
*previous* instance (or session) now matters.  The probe runs one fixed, residue-rich scenario

    session 1 (peer proposes hold 3, UPDATE, REST send, half a message left in the receive buffer, peer drops),
    session 2 (default OPEN, UPDATE, a hostile header -> the agent closes), session 3 (handshake, REST statistic),
    session 4 (the peer returns without capabilities and sends a 2-octet-AS UPDATE)

in instance A and again in a fresh instance B of the same process, and demands

    (1) trace(B) == trace(A)                       (nothing survives the instance)
    (2) the OPEN of sessions 2 and 3 == the OPEN of session 1, and the handshake observations of sessions 2 and 3 equal
        those of a session whose peer sends the same bytes (nothing survives the session)

It runs in a forked child, so whatever it leaves behind cannot reach the exploration that follows."""
from . import world as W
from . import report
from .ref import wire


def _as4(cfg):
    """4-octet AS numbers on the sessions of this configuration: the peers of the scenario announce them whenever they announce anything,
    the agent does when the option is on or its own AS needs it (RFC 6793)"""
    return bool(cfg.get('four_bytes_as', True) or cfg.get('local_as', 65001) > 65535)


def _messages(cfg=None):
    from .alphabet import session_messages
    cfg = cfg or {}
    ra = cfg.get('remote_as', 65002)
    m = dict(session_messages(full=True, holds=(90, 3), remote_as=ra))
    from .alphabet import simple_update as _su
    m['UPD'] = _su(ra if (_as4(cfg) or ra <= 65535) else 23456, as4=_as4(cfg))       # (AS_TRANS stands for a 4-octet AS in a 2-octet AS_PATH)
    m['@send_update'] = ('POST', '/v1/peer/<ip>/send/update',
                         {'attr': {'1': 0, '2': [[2, [65001]]], '3': '10.0.0.1', '16': ['route-target:65001:1', 'route-target:70000:1', 'route-origin:65001:1']},
                          'nlri': ['10.9.0.0/16']})
    m['@send_update2'] = ('POST', '/v1/peer/<ip>/send/update',
                          {'attr': {'1': 0, '2': [[2, [65001]]], '3': '10.0.0.1', '16': ['route-target:65001:2']}, 'nlri': ['10.9.0.0/16']})
    m['@stat'] = ('GET', '/v1/peer/<ip>/statistic', None)
    m['@state'] = ('GET', '/v1/peer/<ip>/state', None)
    m['HALF'] = m['UPD'][:25]
    from .alphabet import simple_update
    m['UPD_AS2'] = simple_update(ra if ra <= 65535 else 23456, as4=False)
    from .alphabet import peer_caps, PEER_ID
    # (... and lists an ADD-PATH capability for IPv6 in front of the others: the 4-octet-AS capability comes last)
    m['OPEN_OK_ID2'] = wire.open_msg(ra, 90, PEER_ID + 0x01000000, [wire.cap_addpath([(2, 1, 3)])] + peer_caps())      # the peer changed its router id      # 2-octet AS_PATH: what a peer without the 4-octet capability sends
    return m


SCENARIO = [
    ('REST', 'state'),
    ('TICK', 0), ('CONN_OK', 0), ('RX', 0, 'OPEN_OK_H3'), ('RX', 0, 'KA'), ('RX', 0, 'UPD'), ('REST', 'send_update'), ('REST', 'stat'),
    ('RX', 0, 'HALF'), ('PEER_CLOSE', 0),
    ('TICK', 0), ('CONN_OK', 0), ('RX', 0, 'OPEN_OK'), ('RX', 0, 'KA'), ('RX', 0, 'UPD'), ('REST', 'send_update2'), ('REST', 'stat'),
    ('RX', 0, 'BAD_MARKER'), ('CLOSE_DONE', 0),
    ('TICK', 0), ('CONN_OK', 0), ('RX', 0, 'OPEN_OK_ID2'), ('RX', 0, 'KA'), ('RX', 0, 'UPD'), ('REST', 'stat'), ('REST', 'state'),
    # session 4: the peer comes back without any capability (2-octet AS numbers): what sessions 1-3 negotiated is gone
    # (in OpenConfirm it repeats its OPEN, now WITH capabilities: the FSM ignores that OPEN, and so must everything else)
    ('PEER_CLOSE', 0), ('TICK', 0), ('CONN_OK', 0), ('RX', 0, 'OPEN_NOOPT'), ('RX', 0, 'OPEN_OK'), ('RX', 0, 'KA'), ('RX', 0, 'UPD_AS2'), ('REST', 'state'),
    # session 5: operator stop and start; the new session is up BEFORE the close of the old connection completes (connectionLost of
    # the old protocol object arrives last): nothing of the new session may be touched by it
    # (and here the ignored second OPEN is the one WITHOUT capabilities)
    ('OP_STOP',), ('OP_START',), ('CONN_OK', 1), ('RX', 1, 'OPEN_OK'), ('RX', 1, 'OPEN_NOOPT'), ('RX', 1, 'KA'), ('CLOSE_DONE', 0),
    ('RX', 0, 'UPD'), ('REST', 'send_update'), ('REST', 'state'), ('REST', 'stat'),
    # session 6: the peer drops that session: the agent must notice (it is the *current* session whatever the late close did) and come back
    ('PEER_CLOSE', 0), ('TICK', 0), ('CONN_OK', 0), ('RX', 0, 'OPEN_OK'), ('RX', 0, 'KA'), ('REST', 'state'),
]
LATE_CLOSE = max(i for i, e in enumerate(SCENARIO) if e == ('CLOSE_DONE', 0))        # the CLOSE_DONE of session 5
SESSION_STARTS = (1, 10, 19)       # index of the TICK that starts each session
SESSION4_UPD = 32                  # index of the 2-octet-AS UPDATE of session 4


# a second, short scenario: the old connection's close arrives while the new connection is still in OpenSent; that connection is then
# lost, the next attempt is refused - and the agent must still come back (every event must be possible, the end Established)
# ('TICKS' = let timers fire, at most four, until an attempt is pending)
SCENARIO_B = [('TICK', 0), ('CONN_OK', 0), ('RX', 0, 'OPEN_OK'), ('RX', 0, 'KA'),
              ('OP_STOP',), ('OP_START',), ('CONN_OK', 1), ('CLOSE_DONE', 0), ('PEER_CLOSE', 0), ('TICKS',), ('CONN_REFUSED', 0), ('TICKS',),
              ('CONN_OK', 0), ('RX', 0, 'OPEN_OK'), ('RX', 0, 'KA')]


def _trace(cfg, scenario=None):
    m = _messages(cfg)
    w = W.AgentWorld(cfg)
    out = []
    for ev in (scenario or SCENARIO):
        try:
            if ev == ('TICKS',):
                obs = []
                for _ in range(4):
                    if w.connecting() or not w.due():
                        break
                    obs += w.step(('TICK', 0), m)
            else:
                obs = w.step(ev, m)
        except W.ReplayDivergence as e:
            out.append((ev, 'NOT ENABLED: %s' % e, w.reported_state(), None, None))
            break
        raw = tuple(bytes(e[2]).hex() for e in obs if e[0] == 'write')
        out.append((ev, W.abstract_obs(obs, w), w.reported_state(), raw, (w.fsm.hold_time, round(w.fsm.keep_alive_time, 6))))
    return out


def _run(cfg):
    a = _trace(cfg)
    b = _trace(cfg)
    v = []
    sb = _trace(cfg, SCENARIO_B)
    if len(sb) != len(SCENARIO_B) or sb[-1][2] != 'ESTABLISHED':
        v.append(('session-independence|the agent does not come back after: stop, start, late close of the old connection, loss of the new one in OpenSent, a refused attempt',
                  {'stopped_at': len(sb) - 1, 'event': sb[-1][0], 'state': sb[-1][2], 'why': str(sb[-1][1])[:200]}))
    for i, (x, y) in enumerate(zip(a, b)):
        if x != y:
            v.append(('instance-independence|a second agent instance in the same process behaves differently from the first',
                      {'step': i, 'event': x[0], 'first_instance': repr(x[1:])[:600], 'second_instance': repr(y[1:])[:600]}))
            break
    if len(a) != len(b) and not v:
        v.append(('instance-independence|a second agent instance in the same process behaves differently from the first',
                  {'step': min(len(a), len(b)), 'first_instance_steps': len(a), 'second_instance_steps': len(b)}))
    # within instance A: sessions 2 and 3 against session 1
    if len(a) == len(SCENARIO):
        s1, s2, s3 = SESSION_STARTS
        opens = [a[s + 1][3] for s in SESSION_STARTS]          # raw writes at CONN_OK
        # (sessions 4, 5 and 6 too: after a capability-less peer, after the operator's stop / start with the late close, after the drop)
        opens += [a[i][3] for i, e in enumerate(SCENARIO) if e[0] == 'CONN_OK' and i > SESSION_STARTS[-1] + 1]
        for n, o in enumerate(opens[1:], 2):
            if o != opens[0]:
                v.append(('session-independence|the OPEN of a later session differs from the OPEN of the first',
                          {'session': n, 'first': opens[0], 'later': o}))
                break
        # sessions 2 and 3 get the same handshake bytes: same observations, step by step (CONN_OK, OPEN, KA, UPD)
        for k in range(1, 5):
            x, y = a[s2 + k], a[s3 + k]
            # (the OPEN of session 3 carries another BGP identifier: the report of it differs in that field, nothing else may)
            if (tuple(e[:2] for e in x[1]), x[2]) != (tuple(e[:2] for e in y[1]), y[2]):
                v.append(('session-independence|the same handshake is handled differently in a later session of the same agent',
                          {'step_in_session': k, 'event': x[0], 'session_2': repr(x[1:3])[:500], 'session_3': repr(y[1:3])[:500]}))
                break
        assert SCENARIO[LATE_CLOSE] == ('CLOSE_DONE', 0)
        before, after = a[LATE_CLOSE - 1], a[LATE_CLOSE]
        if after[2] != 'ESTABLISHED' or any(e[0] in ('write', 'lose', 'connect') for e in after[1]) or after[4] != before[4]:
            v.append(('session-independence|the late close of the previous connection disturbs the session that is already up',
                      {'state_before': before[2], 'state_after': after[2], 'observed': repr(after[1])[:400],
                       'hold_keepalive_before': before[4], 'hold_keepalive_after': after[4]}))
        upd5, send5, send1 = a[LATE_CLOSE + 1], a[LATE_CLOSE + 2], a[6]
        if tuple(e[:2] for e in upd5[1]) != tuple(e[:2] for e in a[s2 + 4][1]) or upd5[2] != 'ESTABLISHED':
            v.append(('session-independence|after the late close of the previous connection the same UPDATE is handled differently',
                      {'session_2': repr(a[s2 + 4][1:3])[:400], 'session_5': repr(upd5[1:3])[:400]}))
        if (send5[1], send5[3]) != (send1[1], send1[3]):
            v.append(('session-independence|after the late close of the previous connection the same REST send is answered / encoded differently',
                      {'session_1': repr(send1[1:])[:500], 'session_5': repr(send5[1:])[:500]}))
        if a[-1][2] != 'ESTABLISHED' or a[-6][2] == 'ESTABLISHED':
            v.append(('session-independence|after the late close of the previous connection the loss of the current session is not handled as a loss',
                      {'state_after_peer_close': a[-6][2], 'state_at_the_end': a[-1][2]}))
        # absolute, not differential: in session 2 (both sides announced what this configuration makes them announce) the peer's UPDATE
        # is decoded, and the AS_PATH the agent writes for a REST send has the width the two OPENs agreed on
        if not any(e[0] == 'cb' and e[1] == 'update_received' for e in a[s2 + 4][1]):
            v.append(('session-independence|the UPDATE of a peer that writes AS numbers in the width the two OPENs agreed on is not decoded',
                      {'four_octet_as_numbers': _as4(cfg), 'observed': repr(a[s2 + 4][1])[:400]}))
        for raw in a[6][3] or ():
            try:
                wd_, attrs_, nlri_ = wire.parse_update(bytes.fromhex(raw)[19:])
                aspath = [x for x in attrs_ if x[1] == 2]
                if aspath and len(aspath[0][2]) != 2 + (4 if _as4(cfg) else 2):
                    v.append(('session-independence|the AS_PATH of a REST send is not written in the width the two OPENs agreed on',
                              {'four_octet_as_numbers': _as4(cfg), 'as_path_value': aspath[0][2].hex()}))
            except ValueError:
                pass
        last_upd = a[SESSION4_UPD]
        if not any(e[0] == 'cb' and e[1] == 'update_received' for e in last_upd[1]):
            v.append(('session-independence|a peer that returns without the capabilities of the earlier sessions is still treated as having them',
                      {'event': last_upd[0], 'observed': repr(last_upd[1])[:400]}))
        if a[s2 + 4][2] != 'ESTABLISHED' or a[s3 + 4][2] != 'ESTABLISHED':
            v.append(('session-independence|a session after one that ended with unread bytes / an error does not reach Established',
                      {'session_2': a[s2 + 4][2], 'session_3': a[s3 + 4][2]}))
    else:
        v.append(('session-independence|the scenario of three consecutive sessions cannot be completed',
                  {'stopped_at': len(a) - 1, 'event': a[-1][0], 'why': str(a[-1][1])[:300]}))
    return v, len(a) + len(b)


CONFIGS = [{}, {'rib': True}, {'local_as': 4200000001, 'hold': 30}, {'debug_log': True}, {'gethost_fails': 1}, {'add_path': 'ipv4_both'},
           # combinations of the 4-octet-AS switch with AS numbers that need four octets, on either side
           {'local_as': 4200000001, 'four_bytes_as': False}, {'four_bytes_as': False}]
# (a peer whose own AS needs four octets cannot take part in session 4, which is about a peer without any capability)


def run(prop):
    """[(violation key, detail)] for `prop`; evaluated in a forked child"""
    out = []
    steps = 0
    for cfg in CONFIGS:
        v, n = report.fresh(_run, cfg)
        steps += n
        for k, det in v:
            out.append(('%s|%s' % (prop, k), dict(det, cfg=cfg)))
    return out, steps


def replay(d):
    prop = d['property']
    a, _ = run(prop)
    b, _ = run(prop)
    if repr(a) != repr(b):
        print('HARNESS-ERROR: replay is not deterministic')
        return 2
    for k, det in a:
        print(k)
        print('  ', det)
    return 1 if d['key'] in [k for k, _ in a] else 0
