"""MANIFEST.setup_cmd: offline sanity of the stub world and the reference deframer."""
import sys
import os
sys.path.insert(0, os.path.dirname(os.path.dirname(os.path.abspath(__file__))))
from vf import boot


def main():
    boot.setup()
    from vf import world, budget
    from vf.ref import wire
    from vf.alphabet import session_messages
    M = session_messages()
    w = world.AgentWorld()
    seq = [('TICK', 0), ('CONN_OK', 0), ('RX', 0, 'OPEN_OK'), ('RX', 0, 'KA')]
    for ev in seq:
        w.step(ev, M)
    assert w.reported_state() == 'ESTABLISHED', w.reported_state()
    fr, err, rest = wire.deframe(M['KA'] + M['UPD'] + M['KA'][:5])
    assert [f[0] for f in fr] == [4, 2] and err is None and rest == M['KA'][:5]
    assert wire.deframe(M['BAD_LEN18'])[1][0] == 2 and wire.deframe(M['BAD_MARKER'])[1][0] == 1
    st, v, steps = budget.run(50, lambda: [w.reported_state() for _ in range(1000)])
    assert st == 'ok'
    print('selftest ok: yabgp from', os.path.dirname(__import__('yabgp').__file__))


if __name__ == '__main__':
    main()
