"""Deferred thread calls (shared by C16 and C18).

The REST interface runs in worker threads; what a request wants written goes through reactor.callFromThread and runs in
the reactor thread *later*.  Everywhere else in /verif that call runs at the end of the event that made it (the next reactor
iteration).  Here the worker thread is descheduled after it answered and before its call reaches the reactor: the request is
the event ('REST_HOLD', name), the held call runs at ('DRAIN',), and *every* sequence of up to K events of the normal menu is
put between the two (all of them: K = 2 or 3 with the full menu is a few thousand executions).  Multi-frame TCP segments are
part of the menu: a KEEPALIVE that flushes the handler's queue followed, in the same dataReceived(), by the message that ends
the session is the single-threaded way into the same window.

Oracles
  C16  a send answered 'status: true' reaches the wire of the connection it was accepted on exactly once and unchanged, or is
       dropped with that connection; it is never written on another connection, and nothing is written by the DRAIN on a
       connection whose session is not the one of the request.
  C18  once the held call has run and the connection of the reporting protocol is still connected, its counters equal the
       count of its wire (inside the window the counters run ahead by exactly the held messages: counted when queued).
"""
from . import world as W
from .ref import wire
from .alphabet import session_messages

ESTABLISHED = [('TICK', 0), ('CONN_OK', 0), ('RX', 0, 'OPEN_OK'), ('RX', 0, 'KA')]
HOLD_REQS = ('send_update', 'send_rr', 'send_bin2')
RX_HOSTILE = ('KA', 'NOTIF_CEASE', 'BAD_MARKER', 'UPD_MALFORMED', 'BAD_LEN18', 'OPEN_OK', 'NOTIF_SHORT')
RX = {'quick': ('KA', 'NOTIF_CEASE', 'KA+NOTIF', 'KA+UPD', 'BAD_MARKER'),
      'thorough': ('KA', 'UPD', 'NOTIF_CEASE', 'KA+NOTIF', 'KA+UPD', 'KA+BAD', 'UPD+KA+NOTIF', 'BAD_MARKER', 'RR')}
WINDOW = {'quick': 3, 'thorough': 4}
PRE = (None, 'good_update', 'notification')       # what the application has waiting in the handler's queue


def messages():
    from .props import c18
    m = dict(session_messages(full=True, holds=(90,)))
    m.update(c18.requests())
    m.update(c18.queued())
    m['KA+NOTIF'] = m['KA'] + m['NOTIF_CEASE']
    m['KA+UPD'] = m['KA'] + m['UPD']
    m['KA+BAD'] = m['KA'] + m['BAD_MARKER']
    m['UPD+KA+NOTIF'] = m['UPD'] + m['KA'] + m['NOTIF_CEASE']
    return m


M = None


def _m():
    global M
    if M is None:
        M = messages()
    return M


def menu(w, rx):
    ev = w.enabled(rx_alphabet=rx, ops=('OP_STOP',), peer_reset=False, refuse=False)
    if w.readable() and w.fsm.protocol is not None:
        ev.append(('REST', 'send_withdraw'))
    return ev


def baseline(cfg, pre, req):
    """what the request writes when nothing intervenes: the frames of the UPDATE / ROUTE-REFRESH it stands for"""
    m = _m()
    w = W.replay(cfg, ESTABLISHED, m)
    if pre:
        w.step(('MQ', pre), m)
    obs = w.step(('REST', req), m)
    return [e[2] for e in obs if e[0] == 'write'], [e for e in obs if e[0] == 'rest']


def judge(prop, w, hist, accepted_tid, expect, drained_obs):
    from .props import c18
    v = []
    if prop == 'C10':
        # closed cleanly with the reconnect scheduled: once no connection is left, the only timers that may be armed are the ones that
        # bring the session back (a keepalive / hold timer of the dead session would throw the reconnect back to Idle)
        m = _m()
        while w.disconnecting():
            w.step(('CLOSE_DONE', 0), m)
        if not w.readable() and not w.connecting():
            stale = sorted(set(dc.name for dc in w.sim.calls) - set(('idle_hold_time_event', 'connect_retry_time_event', 'connect_timeout')))
            if stale:
                v.append(('C10|deferred|timers of the dead session are armed after the held write ran', {'timers': stale, 'state': w.reported_state()}))
            if not w.sim.calls and w.fsm.allow_automatic_start:
                v.append(('C10|deferred|no connection, no attempt and no timer left after the held write ran', {'state': w.reported_state()}))
        return v
    if prop == 'C16':
        everything = []
        for c in w.sim.connectors:
            t = getattr(c, 'transport', None)
            if t is None or not hasattr(t, 'writes'):
                continue
            for _, d in t.writes:
                everything.append((t.tid, d))
        dropped = [(e[1], e[2]) for e in drained_obs if e[0] == 'write-dropped']
        for data in expect:
            on_own = sum(1 for tid, d in everything if d == data and tid == accepted_tid)
            elsewhere = [tid for tid, d in everything if d == data and tid != accepted_tid]
            lost = sum(1 for tid, d in dropped if d == data and tid == accepted_tid)
            if elsewhere:
                v.append(('C16|deferred|a send accepted on one connection was written on another', {'written_on': elsewhere, 'accepted_on': accepted_tid}))
            elif on_own + lost != 1:
                v.append(('C16|deferred|a send answered true reached its connection %d times (dropped with it: %d)' % (on_own, lost),
                          {'accepted_on': accepted_tid}))
        for e in drained_obs:
            if e[0] == 'write' and e[1] != accepted_tid:
                v.append(('C16|deferred|the held call wrote on a connection the request was not accepted on',
                          {'wrote': wire.abstract_writes(e[2]), 'on': e[1], 'accepted_on': accepted_tid}))
            if e[0] == 'write' and e[1] == accepted_tid and e[2] not in expect:
                v.append(('C16|deferred|the held call wrote something else than the request stands for',
                          {'wrote': wire.abstract_writes(e[2]), 'expected': [wire.abstract_writes(x) for x in expect]}))
    else:
        p = w.fsm.protocol
        if p is not None and p.transport is not None and p.transport.connected:
            sent, recv = c18.counted(p.transport)
            sides = [('send', sent, p.msg_sent_stat)]
            if not p.transport.disconnecting:
                # (once the agent has closed, frames that stood behind the session-ending message in the same TCP segment are in the
                # delivered stream but were - rightly, see 75fbd43 - never read: the stream is no reference for the receive side then)
                sides.append(('receive', recv, p.msg_recv_stat))
            for side, want, got in sides:
                for k in sorted(c18.ZERO):
                    if got.get(k) != want[k]:
                        v.append(('C18|deferred|%s %s off by %+d' % (side, k, got.get(k, 0) - want[k]),
                                  {'reported': {'send': dict(p.msg_sent_stat), 'receive': dict(p.msg_recv_stat)}, 'counted': {'send': sent, 'receive': recv}}))
    return v


def run_history(prop, cfg, hist):
    """hist: events after ESTABLISHED, containing one REST_HOLD and (later) one DRAIN. Returns violations."""
    m = _m()
    hold = [e for e in hist if e[0] == 'REST_HOLD'][0]
    pre = [e[1] for e in hist[:hist.index(hold)] if e[0] == 'MQ']
    writes, rest0 = baseline(cfg, pre[0] if pre else None, hold[1])       # (one world at a time: the reactor is a process global)
    w = W.replay(cfg, ESTABLISHED, m)
    accepted_tid = None
    expect = None
    out = []
    for ev in hist:
        if ev[0] == 'REST_HOLD':
            p = w.fsm.protocol
            accepted_tid = p.transport.tid if p is not None and p.transport is not None else None
            obs = w.step(ev, m)
            rest = [e for e in obs if e[0] == 'rest']
            if rest != rest0:
                out.append(('%s|deferred|the same request is answered differently when its worker thread is held' % prop,
                            {'held': repr(rest)[:300], 'plain': repr(rest0)[:300]}))
            if any(e[0] == 'write' for e in obs):
                out.append(('%s|deferred|a REST worker thread wrote on the transport itself' % prop, None))
            expect = writes if w.held else []
            continue
        obs = w.step(ev, m)
        if any(e[0] == 'exc' for e in obs):
            out.append(('%s|deferred|exception escaped at %s' % (prop, ev[0]), {'exc': [e for e in obs if e[0] == 'exc'][0][1:]}))
        if ev[0] == 'DRAIN':
            out.extend(judge(prop, w, hist, accepted_tid, expect, obs))
    return out


def task(args):
    """all windows of up to K events between one held request and its drain, from one (pre, request) pair"""
    prop, tier, cfg, pre, req = args
    m = _m()
    rx = RX[tier] if prop != 'C10' else RX_HOSTILE
    K = WINDOW[tier] if prop != 'C10' else WINDOW[tier] - 1
    head = ([('MQ', pre)] if pre else []) + [('REST_HOLD', req)]
    n = 0
    viol = []
    classes = set()
    frontier = [head]
    seen_viol = set()
    for depth in range(K + 1):
        nxt = []
        for h in frontier:
            # close the window here
            full = h + [('DRAIN',)]
            try:
                v = run_history(prop, cfg, full)
            except W.ReplayDivergence:
                continue            # nothing was held (the request was refused): no window to explore
            n += 1
            classes.add((req, pre, tuple(e[0] if e[0] != 'RX' else e[2] for e in h[len(head):]), tuple(sorted(k for k, _ in v))))
            for k, det in v:
                kk = '%s|%s%s' % (k, req, '|queued ' + pre if pre else '')
                if kk not in seen_viol:
                    seen_viol.add(kk)
                    viol.append((kk, dict(det or {}, cfg=cfg, history=[list(e) for e in full], window=[list(e) for e in h[len(head):]])))
            if depth == K:
                continue
            w = W.replay(cfg, ESTABLISHED + h, m)
            for ev in menu(w, rx):
                nxt.append(h + [ev])
        frontier = nxt
    return n, viol, classes


def tasks(prop, tier):
    out = []
    for cfg in ({},):
        for pre in (PRE if prop != 'C10' else (None, 'good_update')):
            for req in (HOLD_REQS if prop != 'C10' else ('send_update', 'send_rr')):
                out.append((prop, tier, cfg, pre, req))
    return out


def replay(prop, witness):
    v = run_history(prop, witness.get('cfg') or {}, [tuple(e) for e in witness['history']])
    return v
