"""py-radix is absent from the image. Dict-backed table with the calls yabgp makes:
add, delete, search_exact, search_best, __contains__ (longest-prefix semantics via netaddr)."""
import netaddr


class _Node(object):
    def __init__(self, prefix):
        self.prefix = prefix
        net = netaddr.IPNetwork(prefix)
        self.network = str(net.network)
        self.prefixlen = net.prefixlen
        self.data = {}


class Radix(object):
    def __init__(self):
        self._nodes = {}

    @staticmethod
    def _norm(prefix):
        net = netaddr.IPNetwork(prefix)
        return '%s/%d' % (net.network, net.prefixlen)

    def add(self, prefix):
        k = self._norm(prefix)
        if k not in self._nodes:
            self._nodes[k] = _Node(k)
        return self._nodes[k]

    def delete(self, prefix):
        k = self._norm(prefix)
        if k not in self._nodes:
            raise KeyError('match not found')
        del self._nodes[k]

    def search_exact(self, prefix):
        return self._nodes.get(self._norm(prefix))

    def search_best(self, prefix):
        try:
            net = netaddr.IPNetwork(prefix)
        except Exception:
            return None
        best = None
        for k, node in self._nodes.items():
            n = netaddr.IPNetwork(k)
            if n.version == net.version and n.prefixlen <= net.prefixlen and net.network in n:
                if best is None or n.prefixlen > best.prefixlen:
                    best = node
        return best

    def __contains__(self, prefix):
        return self.search_best(prefix) is not None

    def prefixes(self):
        return sorted(self._nodes)
