"""Stub of the Twisted API surface yabgp uses (DESIGN.md section 3). Not Twisted."""
__version__ = 'stub-20.3'
