class AlreadyCalled(ValueError):
    pass


class AlreadyCancelled(ValueError):
    pass


class ConnectionDone(Exception):
    """Connection was closed cleanly."""


class ConnectionLost(Exception):
    """Connection to the other side was lost in a non-clean fashion."""


class ConnectionRefusedError(Exception):
    """Connection was refused by other side."""


class TimeoutError(Exception):
    """User timeout caused connection failure."""


class UserError(Exception):
    """User aborted connection."""
