"""Module-level reactor facade: every call is forwarded to the current virtual world."""
_world = None


def _set_world(w):
    global _world
    _world = w


def _w():
    if _world is None:
        raise RuntimeError('stub reactor used without a virtual world')
    return _world


def callLater(delay, func, *args, **kw):
    return _w().call_later(delay, func, args, kw)


def connectTCP(host, port, factory, timeout=30, bindAddress=None):
    return _w().connect_tcp(host, port, factory, timeout, bindAddress)


def callFromThread(func, *args, **kw):
    return _w().call_from_thread(func, args, kw)


def suggestThreadPoolSize(n):
    pass


def getThreadPool():
    return None


def listenTCP(port, factory, backlog=50, interface=''):
    return _w().listen_tcp(port, factory, interface)


def run():
    return _w().reactor_run()


def stop():
    pass


def seconds():
    return _w().now
