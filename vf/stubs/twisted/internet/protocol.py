class BaseProtocol(object):
    connected = 0
    transport = None

    def makeConnection(self, transport):
        self.connected = 1
        self.transport = transport
        self.connectionMade()

    def connectionMade(self):
        pass


class Protocol(BaseProtocol):
    factory = None

    def dataReceived(self, data):
        pass

    def connectionLost(self, reason=None):
        pass


class Factory(object):
    protocol = None
    numPorts = 0
    noisy = False

    def doStart(self):
        self.numPorts += 1

    def doStop(self):
        self.numPorts -= 1

    def startFactory(self):
        pass

    def stopFactory(self):
        pass

    def buildProtocol(self, addr):
        p = self.protocol()
        p.factory = self
        return p


class ClientFactory(Factory):
    def startedConnecting(self, connector):
        pass

    def clientConnectionFailed(self, connector, reason):
        pass

    def clientConnectionLost(self, connector, reason):
        pass
