class WSGIResource(object):
    def __init__(self, reactor, threadpool, application):
        self.application = application
