class Site(object):
    def __init__(self, resource, *a, **kw):
        self.resource = resource
