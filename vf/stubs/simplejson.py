"""simplejson is absent from the image; yabgp only uses dump/dumps/loads, which the stdlib provides."""
from json import *  # noqa
from json import dump, dumps, load, loads, JSONDecodeError  # noqa
