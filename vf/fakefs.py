"""In-memory file system seam for yabgp/handler/default_handler.py (DESIGN 7, C20): replaces the
module attributes `os` and `open` of that module. Text files, append/read modes only (what the module uses)."""
import io
import posixpath


class FakeFile(object):
    def __init__(self, fs, name, mode):
        self.fs = fs
        self.name = name
        self.mode = mode
        self.closed = False
        self._buf = []
        self._fd = fs.next_fd()
        self._pos = 0
        self.binary = 'b' in mode
        if 'a' in mode or 'w' in mode:
            if 'w' in mode or name not in fs.files:
                fs.files[name] = '' if 'w' in mode else fs.files.get(name, '')
            fs.log.append(('open', name, mode))
        elif name not in fs.files:
            raise FileNotFoundError(2, 'No such file or directory', name)

    # writing
    def write(self, s):
        if self.closed:
            raise ValueError('I/O operation on closed file.')
        if not isinstance(s, str):
            raise TypeError('write() argument must be str, not %s' % type(s).__name__)
        if getattr(self.fs, 'fault', None) == 'write':
            self.fs.fault = None
            raise OSError(28, 'No space left on device')
        self._buf.append(s)
        if sum(map(len, self._buf)) > 8192:
            self.flush()
        return len(s)

    def flush(self):
        if self._buf:
            data = ''.join(self._buf)
            self._buf = []
            self.fs.files[self.name] = self.fs.files.get(self.name, '') + data
            self.fs.log.append(('write', self.name, len(data)))
            self.fs.last_write = (self.name, len(self.fs.files[self.name]))

    def fileno(self):
        return self._fd

    def close(self):
        if not self.closed:
            self.flush()
            self.closed = True

    # reading
    def __iter__(self):
        # from the current position, like a real file object (a seek() before the loop matters)
        while True:
            line = self.readline()
            if not line:
                return
            yield line

    def _content(self):
        c = self.fs.files[self.name]
        return c.encode('utf-8') if self.binary else c

    def read(self, n=-1):
        c = self._content()
        out = c[self._pos:] if n is None or n < 0 else c[self._pos:self._pos + n]
        self._pos += len(out)
        return out

    def readline(self):
        c = self._content()
        nl = c.find(b'\n' if self.binary else '\n', self._pos)
        end = len(c) if nl < 0 else nl + 1
        out = c[self._pos:end]
        self._pos = end
        return out

    def seek(self, offset, whence=0):
        n = len(self._content())
        self._pos = offset if whence == 0 else (self._pos + offset if whence == 1 else n + offset)
        self._pos = max(0, self._pos)
        return self._pos

    def tell(self):
        return self._pos

    def readlines(self):
        return list(iter(self))

    def __enter__(self):
        return self

    def __exit__(self, *a):
        self.close()
        return False


class FakePath(object):
    def __init__(self, fs):
        self.fs = fs

    join = staticmethod(posixpath.join)
    basename = staticmethod(posixpath.basename)
    dirname = staticmethod(posixpath.dirname)

    def exists(self, p):
        p = p.rstrip('/') or '/'
        return p in self.fs.dirs or p in self.fs.files

    def isdir(self, p):
        return (p.rstrip('/') or '/') in self.fs.dirs

    def isfile(self, p):
        return p in self.fs.files

    def getsize(self, p):
        if p not in self.fs.files:
            raise FileNotFoundError(2, 'No such file or directory', p)
        return len(self.fs.files[p].encode('utf-8'))


class FakeOS(object):
    """stands in for the `os` module inside default_handler"""
    def __init__(self):
        self.files = {}
        self.dirs = {'/'}
        self.log = []
        self.path = FakePath(self)
        self.environ = {'HOME': '/home/yabgp'}
        self._fd = 100
        self.last_write = None
        self.sep = '/'
        self.SEEK_SET, self.SEEK_CUR, self.SEEK_END = 0, 1, 2
        self.linesep = '\n'

    def next_fd(self):
        self._fd += 1
        return self._fd

    def makedirs(self, p, exist_ok=False):
        p = p.rstrip('/') or '/'
        if p in self.dirs and not exist_ok:
            raise FileExistsError(17, 'File exists', p)
        parts = p.split('/')
        for i in range(1, len(parts) + 1):
            d = '/'.join(parts[:i]) or '/'
            self.dirs.add(d)

    def listdir(self, p):
        p = p.rstrip('/') or '/'
        if p not in self.dirs:
            raise FileNotFoundError(2, 'No such file or directory', p)
        out = set()
        pre = p + '/' if p != '/' else '/'
        for f in list(self.files) + list(self.dirs):
            if f.startswith(pre) and f != p:
                out.add(f[len(pre):].split('/')[0])
        return sorted(out, reverse=True)      # arbitrary order, like the real thing: the code must sort

    def fsync(self, fd):
        self.log.append(('fsync', fd))
        if getattr(self, 'fault', None) == 'fsync':
            self.fault = None
            raise OSError(5, 'Input/output error')

    def getpid(self):
        return 4242

    def open_(self, name, mode='r', *a, **kw):
        return FakeFile(self, name, mode)
