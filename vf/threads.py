"""Engine E5: preemption-bounded interleaving of two real threads over the real code.

yabgp runs its encoders in several threads at once: the REST interface is a WSGI resource on the reactor's thread pool, and
BGP.send_update / construct_update_to_bin call Update.construct in the worker thread (only the write goes through
reactor.callFromThread), while the reactor thread decodes what the peer sends.  Everything else in /verif is sequential, so a
change that moves a scratch buffer or a memo to a class attribute or a module global is invisible there (the probe of
vf/probe.py sees state that *survives* a call, not state shared *during* one).

Two bodies run in two OS threads under a baton (one semaphore per thread): exactly one thread runs at any time, and the baton
can change hands before any *line* of code under the traced root (sys.settrace 'line' events in frames of /repo/yabgp; library
code and single lines are atomic).  A schedule is a list of cut points (thread, n): "thread t is preempted when it has executed
n traced lines".  With bound b every schedule with at most b preemptions is executed: b = 1 is "A runs n lines, B runs to
completion, A finishes" for every n and both roles; b = 2 adds "B is itself preempted after m lines".  Executions always run to
completion.  The oracle is sequential consistency with respect to the bodies' own sequential results: each body must return
what it returns when run alone (both sequential orders are run first and must agree).

Determinism: the same schedule is run twice whenever it fails, and a failure that does not repeat is reported as a harness
error, not as a violation."""
import sys
import threading

JOIN_TIMEOUT = 60.0


class Stuck(RuntimeError):
    pass


CURRENT = [None]        # the scheduler of the execution in progress: callable "this thread cannot go on until another one ran"


class CoopLock(object):
    """threading.Lock for the code under test (installed in yabgp's module namespaces by vf/boot.py).  Outside an E5 execution it is
    a plain lock.  Inside one, a thread that finds it taken hands the baton to the other thread instead of blocking the process:
    waiting becomes visible to the scheduler, and 'nobody can run' is reported as a deadlock."""

    def __init__(self):
        self._real = _REAL_LOCK()

    def acquire(self, blocking=True, timeout=-1):
        n = 0
        while True:
            if self._real.acquire(False):
                return True
            if not blocking:
                return False
            sched = CURRENT[0]
            if sched is None:
                return self._real.acquire(True, timeout)
            n += 1
            if n > 10000:
                raise Stuck('livelock: a lock is never released under this schedule')
            sched()

    def release(self):
        self._real.release()

    def locked(self):
        return self._real.locked()

    __enter__ = acquire

    def __exit__(self, *a):
        self.release()


_REAL_LOCK = threading.Lock


class ThreadingProxy(object):
    """stands for the `threading` module inside yabgp's modules: Lock / RLock are cooperative, everything else is the real thing"""
    Lock = CoopLock
    RLock = CoopLock        # (not re-entrant: a re-entrant acquisition in the code under test shows up as a livelock report)

    def __getattr__(self, name):
        return getattr(threading, name)


def install_cooperative_locks():
    import sys as _sys
    proxy = ThreadingProxy()
    for name, mod in list(_sys.modules.items()):
        if name.startswith('yabgp') and mod is not None and getattr(mod, 'threading', None) is threading:
            mod.threading = proxy


def _result(fn):
    try:
        return ('ok', fn())
    except BaseException as e:      # noqa
        return ('exc', type(e).__name__, str(e)[:200])


def run_schedule(bodies, start, cuts, root):
    """Run bodies[0], bodies[1] in two threads; thread `start` runs first; cuts = [(thread, lines_done), ...] in order.
    Returns (results, lines_executed_per_thread, cuts_taken)."""
    n = len(bodies)
    sems = [threading.Semaphore(0) for _ in range(n)]
    st = {'cut_i': 0, 'done': [False] * n, 'lines': [0] * n, 'taken': 0}
    results = [None] * n

    def other(i):
        for j in range(n):
            if j != i and not st['done'][j]:
                return j
        return None

    idents = {}

    def blocked():
        """the calling thread waits for a lock: let the other one run (not a preemption: it could not have gone on)"""
        i = idents[threading.get_ident()]
        j = other(i)
        if j is None:
            raise Stuck('deadlock: thread %d waits for a lock that no running thread holds' % i)
        sems[j].release()
        sems[i].acquire()

    def make(i):
        def local(frame, event, arg):
            if event == 'line':
                ci = st['cut_i']
                if ci < len(cuts) and cuts[ci] == (i, st['lines'][i]):
                    st['cut_i'] = ci + 1
                    j = other(i)
                    if j is not None:
                        st['taken'] += 1
                        sems[j].release()
                        sems[i].acquire()
                st['lines'][i] += 1
            return local

        def glob(frame, event, arg):
            if event == 'call' and frame.f_code.co_filename.startswith(root):
                return local
            return None
        return glob

    def body(i):
        idents[threading.get_ident()] = i
        sems[i].acquire()
        sys.settrace(make(i))
        try:
            results[i] = _result(bodies[i])
        finally:
            sys.settrace(None)
            st['done'][i] = True
            # cuts that name this thread can no longer be taken
            while st['cut_i'] < len(cuts) and cuts[st['cut_i']][0] == i:
                st['cut_i'] += 1
            j = other(i)
            if j is not None:
                sems[j].release()

    ths = [threading.Thread(target=body, args=(i,), daemon=True) for i in range(n)]
    CURRENT[0] = blocked
    try:
        for t in ths:
            t.start()
        sems[start].release()
        for t in ths:
            t.join(JOIN_TIMEOUT)
            if t.is_alive():
                raise Stuck('a thread did not finish under schedule start=%d cuts=%r (deadlock, or an endless loop)' % (start, cuts))
    finally:
        CURRENT[0] = None
    fin = getattr(bodies, 'finish', None)
    if fin is not None:
        results.append(('after-both', fin()))       # e.g. what is on the wire once both bodies are done
    return results, list(st['lines']), st['taken']


def sequential(make_bodies, root):
    """both sequential orders (each in threads too, so that thread-bound behaviour is the same); returns (results, line counts)"""
    r01, lines, _ = run_schedule(make_bodies(), 0, [], root)
    r10, _, _ = run_schedule(make_bodies(), 1, [], root)
    return r01, r10, lines


def schedules(lines, bound):
    """every schedule of two threads with at most `bound` preemptions (cut points strictly inside a body)"""
    out = []
    for a in (0, 1):
        b = 1 - a
        for k in range(1, lines[a]):
            out.append((a, [(a, k)]))
            if bound >= 2:
                for m in range(1, lines[b]):
                    out.append((a, [(a, k), (b, m)]))
                    if bound >= 3:
                        for k2 in range(k + 1, lines[a]):
                            out.append((a, [(a, k), (b, m), (a, k2)]))
    return out


def _forked(fn, *args):
    """fn(*args) in a forked child (pickled result): a *cold* execution - nothing the bodies fill lazily on first use exists yet"""
    from . import report
    return report.fresh(fn, *args)


def _cold_run(make_bodies, start, cuts, root):
    return run_schedule(make_bodies(), start, cuts, root)


def explore(make_bodies, bound, root, same=lambda a, b: a == b, max_cuts=None, either_order=False, cold=False):
    """-> dict(executions, lines, violations=[(kind, detail)], outcomes=set()).  make_bodies() must build fresh, equal bodies.
    max_cuts: a body longer than that many traced lines has its cut points thinned to every stride-th line (stride reported in
    the result: the exploration is then exhaustive over the thinned cut points only).
    either_order: the bodies need not commute; every interleaved execution must then give, as a whole, what one of the two
    sequential orders gives (linearizability of two operations).
    cold: every execution (the sequential ones too) runs in its own forked child of a process that has never run the bodies:
    tables filled lazily on first use, memo entries, compiled patterns do not exist yet - the window in which a first-use race
    lives closes for the life of a process after any call, so a warmed-up explorer cannot see it."""
    if cold:
        run = lambda b, start, cuts, rt: _forked(_cold_run, make_bodies, start, cuts, rt)      # noqa
        r01, lines, _ = run(None, 0, [], root)
        r10, _, _ = run(None, 1, [], root)
    else:
        run = run_schedule
        for _ in range(2):                       # warm caches / lazy imports so that line counts are stable
            sequential(make_bodies, root)
        r01, r10, lines = sequential(make_bodies, root)
    stride = [max(1, -(-ln // max_cuts)) if max_cuts else 1 for ln in lines]
    res = {'executions': 3, 'lines': lines, 'violations': [], 'outcomes': set(), 'bound': bound, 'stride': stride, 'cold': cold}
    if not either_order and not all(same(x, y) for x, y in zip(r01, r10)):
        res['violations'].append(('sequential order matters', {'first_then_second': repr(r01)[:400], 'second_then_first': repr(r10)[:400]}))
        return res
    res['outcomes'].add(repr(r01))
    res['outcomes'].add(repr(r10))
    for start, cuts in schedules(lines, bound):
        if any(n_ % stride[t_] for t_, n_ in cuts):
            continue
        r, ln, taken = run(None if cold else make_bodies(), start, cuts, root)
        res['executions'] += 1
        res['outcomes'].add(repr(r))
        if all(same(x, y) for x, y in zip(r, r01)) or (either_order and all(same(x, y) for x, y in zip(r, r10))):
            continue
        r2, _, _ = run(None if cold else make_bodies(), start, cuts, root)
        res['executions'] += 1
        if repr(r2) != repr(r):
            # shared state that survives an execution makes the second run start elsewhere: that is itself the defect class
            # this engine looks for, but the schedule alone no longer reproduces it - say so
            res['violations'].append(('interleaving result differs from the sequential one (and differs again when the schedule is repeated)',
                                      {'start': start, 'cuts': cuts, 'got': repr(r)[:400], 'again': repr(r2)[:400], 'sequential': repr(r01)[:400]}))
        else:
            which = [i for i in range(len(r)) if not same(r[i], r01[i])]
            res['violations'].append(('interleaving result differs from the sequential one',
                                      {'start': start, 'cuts': cuts, 'wrong_thread': which, 'got': repr([r[i] for i in which])[:500],
                                       'sequential': repr([r01[i] for i in which])[:500],
                                       'other_sequential_order': repr([r10[i] for i in which])[:500] if either_order else None}))
        if len(res['violations']) >= 3:
            break
    return res
