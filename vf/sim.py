"""Virtual world: clock, delayed calls, connectors, transports (DESIGN section 3).
Nothing here runs by itself; only explorer-chosen events make anything happen."""
from twisted.internet import error, reactor as _reactor_mod


class Failure(object):
    def __init__(self, exc):
        self.value = exc
        self.type = type(exc)

    def getErrorMessage(self):
        return '%s: %s' % (self.type.__name__, self.value.__doc__ or '')

    def check(self, *types):
        for t in types:
            if isinstance(self.value, t):
                return t
        return None

    def __repr__(self):
        return 'Failure(%s)' % self.type.__name__


class DelayedCall(object):
    def __init__(self, world, seq, due, func, args, kw):
        self.world = world
        self.seq = seq
        self.time = due
        self.func = func
        self.args = args
        self.kw = kw
        self.called = 0
        self.cancelled = 0

    def getTime(self):
        return self.time

    def cancel(self):
        if self.cancelled:
            raise error.AlreadyCancelled
        if self.called:
            raise error.AlreadyCalled
        self.cancelled = 1
        self.world.calls.remove(self)

    def reset(self, seconds):
        if self.cancelled:
            raise error.AlreadyCancelled
        if self.called:
            raise error.AlreadyCalled
        self.time = self.world.now + seconds
        # a reset call keeps its identity but is ordered as if new (Twisted re-heaps it)
        self.seq = self.world.next_seq()

    def active(self):
        return not (self.cancelled or self.called)

    @property
    def name(self):
        f = self.func
        return getattr(f, '__name__', None) or repr(f)


class Address(object):
    def __init__(self, host, port):
        self.type = 'TCP'
        self.host = host
        self.port = port


class Transport(object):
    def __init__(self, world, connector):
        self.world = world
        self.connector = connector
        self.tid = connector.cid
        self.connected = 1
        self.disconnecting = 0
        self.protocol = None
        self.writes = []     # (now, bytes)
        self.rx = []         # (now, chunk) delivered to the protocol
        self.opened_at = world.now
        self.lose_time = None

    def write(self, data):
        if not isinstance(data, (bytes, bytearray)):
            raise TypeError('Data must be bytes')
        if not self.connected:
            self.world.effect(('write-dropped', self.tid, bytes(data)))
            return
        self.writes.append((self.world.now, bytes(data)))
        self.world.effect(('write', self.tid, bytes(data)))

    def writeSequence(self, seq):
        self.write(b''.join(seq))

    def loseConnection(self):
        if self.connected and not self.disconnecting:
            self.disconnecting = 1
            self.lose_time = self.world.now
            self.world.effect(('lose', self.tid))

    def abortConnection(self):
        self.loseConnection()

    def setTcpNoDelay(self, flag):
        pass

    def setTcpKeepAlive(self, flag):
        pass

    def getHost(self):
        if self.world.gethost_failures > 0:
            # getsockname() on a socket the peer has already reset: the first connection(s) of this world cannot tell their address
            self.world.gethost_failures -= 1
            raise OSError(107, 'Transport endpoint is not connected')
        return Address(self.world.local_host, 40000 + self.tid)

    def getPeer(self):
        return Address(self.connector.host, self.connector.port)

    def getHandle(self):
        raise RuntimeError('no socket in the virtual world')

    @property
    def reading(self):
        return bool(self.connected and not self.disconnecting)


class _PendingSocket(object):
    """what connector.transport.getHandle() gives while the attempt is pending (used for TCP_MD5SIG)"""
    def __init__(self, world, cid):
        self.world, self.cid = world, cid

    def getHandle(self):
        return self

    def setsockopt(self, level, opt, value):
        self.world.effect(('setsockopt', self.cid, opt))
        if getattr(self.world, 'setsockopt_fails', False):
            raise OSError(92, 'Protocol not available')

    connected = 0
    disconnecting = 0


class Connector(object):
    def __init__(self, world, cid, host, port, factory, timeout, bind):
        self.world = world
        self.cid = cid
        self.host = host
        self.port = port
        self.factory = factory
        self.timeout = timeout
        self.bindAddress = bind
        self.state = 'connecting'     # connecting | connected | disconnected
        self.started_at = world.now
        self.aborted = False
        self.transport = _PendingSocket(world, cid)     # Twisted: the Client object exists as soon as connectTCP returns
        self.timeout_call = None

    # Twisted's IConnector
    def stopConnecting(self):
        if self.state != 'connecting':
            raise RuntimeError('not connecting')
        self.world.effect(('abort', self.cid))
        self.aborted = True
        self.world.fail_connect(self, error.UserError())

    def disconnect(self):
        if self.state == 'connecting':
            self.stopConnecting()
        elif self.state == 'connected':
            self.transport.loseConnection()

    def getDestination(self):
        return Address(self.host, self.port)


class World(object):
    def __init__(self, local_host='10.0.0.1'):
        self.now = 1000000.0
        self.t0 = self.now
        self._seq = 0
        self.calls = []
        self.connectors = []
        self.thread_q = []
        self.gethost_failures = 0
        self.effects = None
        self.local_host = local_host
        self.listening = []
        _reactor_mod._set_world(self)

    def next_seq(self):
        self._seq += 1
        return self._seq

    def effect(self, e):
        if self.effects is not None:
            self.effects.append(e)

    # ---- reactor API
    def call_later(self, delay, func, args=(), kw=None):
        dc = DelayedCall(self, self.next_seq(), self.now + delay, func, args, kw or {})
        self.calls.append(dc)
        return dc

    def connect_tcp(self, host, port, factory, timeout, bind):
        c = Connector(self, len(self.connectors), host, port, factory, timeout, bind)
        self.connectors.append(c)
        self.effect(('connect', c.cid))
        factory.doStart()
        factory.startedConnecting(c)
        c.timeout_call = self.call_later(timeout, self._connect_timeout, (c,))
        return c

    def call_from_thread(self, func, args, kw):
        self.thread_q.append((func, args, kw))

    def listen_tcp(self, port, factory, interface):
        self.listening.append((port, interface))
        return None

    def reactor_run(self):
        return None

    def drain_threads(self):
        while self.thread_q:
            f, a, k = self.thread_q.pop(0)
            f(*a, **k)

    # ---- environment actions
    def _connect_timeout(self, c):
        if c.state == 'connecting':
            self.fail_connect(c, error.TimeoutError())

    _connect_timeout.__name__ = 'connect_timeout'

    def fail_connect(self, c, exc):
        if c.timeout_call is not None and c.timeout_call.active():
            c.timeout_call.cancel()
        c.state = 'disconnected'
        c.factory.clientConnectionFailed(c, Failure(exc))
        c.factory.doStop()

    def succeed_connect(self, c):
        if c.timeout_call is not None and c.timeout_call.active():
            c.timeout_call.cancel()
        c.state = 'connected'
        addr = Address(c.host, c.port)
        p = c.factory.buildProtocol(addr)
        t = Transport(self, c)
        c.transport = t
        if p is None:
            t.connected = 0
            c.state = 'disconnected'
            return
        t.protocol = p
        p.makeConnection(t)

    def deliver(self, c, data):
        t = c.transport
        t.rx.append((self.now, data))
        t.protocol.dataReceived(data)

    def close_delivered(self, c, exc):
        t = c.transport
        t.connected = 0
        t.disconnecting = 0
        reason = Failure(exc)
        # Twisted (tcp.BaseClient.connectionLost): first Connection.connectionLost -> protocol.connectionLost, only then
        # Connector.connectionLost -> state 'disconnected', factory.clientConnectionLost, doStop
        t.protocol.connectionLost(reason)
        c.state = 'disconnected'
        c.factory.clientConnectionLost(c, reason)
        c.factory.doStop()

    # ---- queries
    def due_calls(self):
        """Delayed calls sharing the earliest due time, in creation order."""
        if not self.calls:
            return []
        m = min(dc.time for dc in self.calls)
        return sorted([dc for dc in self.calls if dc.time == m], key=lambda d: d.seq)

    def run_call(self, dc):
        if dc.time > self.now:
            self.now = dc.time
        self.calls.remove(dc)
        dc.called = 1
        dc.func(*dc.args, **dc.kw)

    def live_connectors(self):
        out = []
        for c in self.connectors:
            if c.state == 'connecting':
                out.append(c)
            elif c.state == 'connected' and c.transport.connected:
                out.append(c)
        return out
