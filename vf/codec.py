"""Engine E3 helpers: round-trip checking of UPDATE encode/decode against the reference's expected form."""
import itertools

from . import budget


def _canon_ip(s):
    """IPv6 text is a presentation matter ('::8000:0' == '::128.0.0.0'): compare addresses by value"""
    import ipaddress
    try:
        if '/' in s:
            a, ln = s.rsplit('/', 1)
            return '%s/%s' % (ipaddress.IPv6Address(a).compressed, ln)
        return ipaddress.IPv6Address(s).compressed
    except ValueError:
        return s


def norm(x):
    """tuples vs lists are not part of the documented decoded form; IPv6 addresses are compared by value"""
    if isinstance(x, str) and ':' in x:
        return _canon_ip(x)
    if isinstance(x, dict):
        return {k: norm(v) for k, v in x.items()}
    if isinstance(x, (list, tuple)):
        return [norm(v) for v in x]
    return x


def first_diff(a, b, path=''):
    """path of the first differing field between two normalised values (None if equal)"""
    if type(a) != type(b):
        return path or '.'
    if isinstance(a, dict):
        for k in sorted(set(a) | set(b), key=repr):
            if k not in a or k not in b:
                return '%s.%s' % (path, k)
            d = first_diff(a[k], b[k], '%s.%s' % (path, k))
            if d:
                return d
        return None
    if isinstance(a, list):
        if len(a) != len(b):
            return '%s[len]' % path
        for i, (x, y) in enumerate(zip(a, b)):
            d = first_diff(x, y, '%s[]' % path)
            if d:
                return d
        return None
    return None if a == b else (path or '.')


def roundtrip(msg, asn4, upd):
    """yabgp construct -> yabgp parse vs the reference's expected decoded form.
    Returns (symptom or None, detail)."""
    from yabgp.message.update import Update
    ok, why = upd.in_range(msg, asn4)
    if not msg.get('attr') and not msg.get('nlri') and not msg.get('withdraw'):
        ok, why = False, 'nothing to send (an empty UPDATE is not a message the agent can be asked to send)'
    st, built, steps = budget.run(400000, Update.construct, msg, asn4)
    if st == 'overrun':
        return 'construct:no result within the work budget', None
    if st == 'raise' or built is None:
        if ok:
            return 'construct:exception:%s' % (type(built).__name__ if st == 'raise' else 'returned None'), {'error': str(built)[:200]}
        return None, 'out-of-range'
    if not ok:
        # out of range by the reference's table and yet yabgp produced bytes: C08's walker judges those bytes
        return None, 'out-of-range-constructed'
    body = built[19:]
    st, got, steps = budget.run(300 + 60 * len(body), Update.parse, None, body, asn4)
    if st == 'overrun':
        return 'parse:no result within the work budget', {'hex': built.hex()[:400]}
    if st == 'raise':
        return 'parse:exception:%s' % type(got).__name__, {'hex': built.hex()[:400], 'error': str(got)[:200]}
    if got.get('sub_error'):
        return 'sub_error:%s' % got['sub_error'], {'hex': built.hex()[:400], 'decoded': norm({k: got[k] for k in ('attr', 'nlri', 'withdraw')})}
    want = norm(upd.expected(msg, asn4))
    have = norm({'attr': got['attr'] or {}, 'nlri': got['nlri'], 'withdraw': got['withdraw']})
    d = first_diff(want, have)
    if d:
        return 'diff:%s' % d, {'hex': built.hex()[:400], 'want': want, 'got': have}
    return None, None


def sliced(gen, lo, hi):
    return itertools.islice(gen, lo, hi)
