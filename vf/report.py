"""Violation collection, replay artefacts, KNOWN-FINDING / VIOLATION lines, evidence files."""
import json
import os
import time

from . import boot, findings

ASSUMPTIONS_E1 = [
    'Twisted is absent from the image; the stub reactor models Twisted 20.3 (DESIGN 3): DelayedCall.called is set '
    'before the callback runs; cancel/reset raise AlreadyCalled/AlreadyCancelled; same-instant calls have no defined order',
    'connectTCP arms a connect timeout; success = buildProtocol + makeConnection; failure = clientConnectionFailed',
    'transport.write after loseConnection is still flushed while connected; loseConnection stops reading',
    'close delivery order: transport.connected=0, protocol.connectionLost, factory.clientConnectionLost',
    'zero-time close: virtual time does not advance while a transport the agent closed is still closing',
    'callFromThread work is drained inside the REST event that queued it',
    'every REST request is one atomic event between reactor callbacks (no thread-level preemption)',
    'radix and simplejson are shims (dict-backed table; stdlib json)',
]


PRELOAD = []          # (vkey, witness, detail) found before the property's own exploration (instance probe); set by ./check
PROBE_STEPS = 0


class Collector(object):
    def __init__(self, prop):
        self.prop = prop
        self.by_key = {}      # vkey -> dict(first witness, count)
        self.order = []
        for vkey, wit, det in PRELOAD:
            if vkey.startswith(prop + '|'):
                self.add(vkey, wit, det)

    def add(self, vkey, witness, detail=None, task=None):
        """task: the (picklable) argument of the worker task that produced the violation; --replay falls back to re-running
        that whole task when the single case does not reproduce on its own (state carried between calls)"""
        e = self.by_key.get(vkey)
        if e is None:
            self.by_key[vkey] = {'count': 1, 'witness': witness, 'detail': detail, 'task': task}
            self.order.append(vkey)
        else:
            e['count'] += 1

    def finish(self, replay_kind):
        """Print KNOWN-FINDING / VIOLATION lines; write replay artefacts for new violations.
        Returns (n_new, n_known, summary)."""
        n_new = n_known = 0
        summary = []
        printed_known = set()
        import shutil
        shutil.rmtree(os.path.join(boot.VERIF, 'replays', self.prop), ignore_errors=True)    # artefacts of this run only
        for vkey in self.order:
            e = self.by_key[vkey]
            kf = findings.match(self.prop, vkey)
            if kf is not None:
                n_known += 1
                ident = kf.get('id') or kf.get('what_fails')
                if ident not in printed_known:
                    printed_known.add(ident)
                    print('KNOWN-FINDING: property=%s %s' % (self.prop, kf['what_fails']))
                summary.append({'key': vkey, 'status': 'known', 'count': e['count'], 'finding': kf.get('id')})
                continue
            n_new += 1
            d = os.path.join(boot.VERIF, 'replays', self.prop)
            os.makedirs(d, exist_ok=True)
            path = os.path.join(d, findings.key_hash(vkey) + '.json')
            with open(path, 'w') as f:
                kind = 'instance-probe' if isinstance(e['witness'], dict) and e['witness'].get('probe') else replay_kind
                doc = {'property': self.prop, 'kind': kind, 'key': vkey, 'witness': e['witness'], 'detail': e['detail']}
                if e.get('task') is not None:
                    packed = pack(e['task'])
                    if len(packed) <= 400000:
                        doc['task'] = packed
                json.dump(doc, f, indent=1, default=_js)
            print('VIOLATION property=%s replay=%s' % (self.prop, path))
            print('  key: %s' % vkey)
            if e['detail'] is not None:
                print('  detail: %s' % (json.dumps(e['detail'], default=_js)[:600],))
            summary.append({'key': vkey, 'status': 'new', 'count': e['count'], 'replay': path})
        return n_new, n_known, summary


def pack(obj):
    import base64, pickle, zlib
    return base64.b64encode(zlib.compress(pickle.dumps(obj, 2))).decode()


def unpack(s):
    import base64, pickle, zlib
    return pickle.loads(zlib.decompress(base64.b64decode(s)))


def fresh(fn, *args):
    """fn(*args) in a forked child: whatever state the code under test leaves behind (class attributes, module globals,
    caches) cannot reach the next run, so two runs of one replay are comparable"""
    import pickle
    r, w = os.pipe()
    pid = os.fork()
    if pid == 0:
        code = 0
        try:
            os.close(r)
            try:
                data = pickle.dumps(('ok', fn(*args)), 2)
            except BaseException as e:     # noqa
                import traceback
                data = pickle.dumps(('diverged' if type(e).__name__ == 'ReplayDivergence' else 'err',
                                     str(e) if type(e).__name__ == 'ReplayDivergence' else traceback.format_exc()), 2)
            with os.fdopen(w, 'wb') as f:
                f.write(data)
        except BaseException:    # noqa
            code = 1
        os._exit(code)
    os.close(w)
    with os.fdopen(r, 'rb') as f:
        data = f.read()
    os.waitpid(pid, 0)
    from . import explore
    if not data:
        raise explore.HarnessError('replay child died without a result')
    st, val = pickle.loads(data)
    if st == 'diverged':
        from . import world
        raise world.ReplayDivergence(val)
    if st != 'ok':
        raise explore.HarnessError('replay child raised:\n' + val)
    return val


def twice(fn, *args):
    return fresh(fn, *args), fresh(fn, *args)


def replay_in_task(d, run_task, keys_of=lambda r: [k for k, _ in r[1]]):
    """second stage of --replay: the single case did not reproduce; re-run the whole worker task it came from (twice) and
    look for the same violation key.  Returns 1 / 0 / 2 like replay()."""
    if 'task' not in d:
        return 0
    t = unpack(d['task'])
    a, b = [keys_of(r) for r in twice(run_task, t)]
    if a != b:
        print('HARNESS-ERROR: replay of the task is not deterministic')
        return 2
    if d['key'] in a:
        print('the case alone does not reproduce the violation; it does in the context of its worker task (the calls before it '
              'leave state behind): task of %d violation keys' % len(set(a)))
        return 1
    return 0


def _js(o):
    if isinstance(o, (bytes, bytearray)):
        return bytes(o).hex()
    if isinstance(o, (set, frozenset)):
        return sorted(o, key=repr)
    if isinstance(o, tuple):
        return list(o)
    return repr(o)


def write_evidence(prop, tier, seed, level, coverage, assumptions, wall_s, violations, extra=None):
    # (tools that run a check against a deliberately changed copy of the tree set VERIF_EVIDENCE_DIR: /verif/evidence only ever
    # describes runs against /repo itself)
    d = os.environ.get('VERIF_EVIDENCE_DIR') or os.path.join(boot.VERIF, 'evidence')
    os.makedirs(d, exist_ok=True)
    os.makedirs(d, exist_ok=True)
    ev = {'property_id': prop, 'tier': tier, 'seed': int(seed), 'level': level,
          'coverage': coverage, 'assumptions': list(assumptions), 'wall_s': round(wall_s, 2),
          'violations': int(violations)}
    if PROBE_STEPS:
        ev['coverage']['instance_probe_steps'] = PROBE_STEPS
    if extra:
        ev.update(extra)
    tmp = os.path.join(d, prop + '.json.tmp')
    with open(tmp, 'w') as f:
        json.dump(ev, f, indent=1, default=_js)
    os.replace(tmp, os.path.join(d, prop + '.json'))
    return ev


class Timer(object):
    def __init__(self):
        self.t0 = time.time()

    def wall(self):
        return time.time() - self.t0


def pick(seq, seed, k=3):
    """k actual cases of this run, chosen by VERIF_SEED (evidence `samples`)"""
    import random
    seq = list(seq)
    if not seq:
        return []
    r = random.Random(seed)
    return [seq[i] for i in sorted(r.sample(range(len(seq)), min(k, len(seq))))]
