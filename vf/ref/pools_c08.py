"""Input pools for the CONSTRUCT-ONLY message families of C08 (DESIGN section 7, C08 paragraph "A").

Imports nothing from yabgp; the values are in yabgp's *input* shapes (learnt from
message/attribute/tunnelencaps.py, pmsitunnel.py, nlri/ipv4_srte.py, nlri/ipv6_flowspec.py,
mpreachnlri.py, mpunreachnlri.py and their unit tests).

    c08_cases(tier) -> iterator of (family, class_vector, kind, payload)

    kind 'update'        payload (msg_dict, asn4)           -> Update.construct(msg_dict, asn4)
    kind 'notification'  payload (code, subcode, data)      -> Notification().construct(code, subcode, data)
    kind 'route_refresh' payload (afi, safi, res, type)     -> RouteRefresh(afi, safi, res).construct(type)
    kind 'keepalive'     payload None                       -> KeepAlive().construct()
    kind 'open'          payload (version, asn, hold, bgp_id_int, capability_dict)
                                                            -> Open(version, asn, hold, bgp_id).construct(capability_dict)

families: 'keepalive', 'route_refresh', 'notification', 'open', 'srte_nlri', 'pmsi', 'flowspec6',
'tunnel_encap'.

class_vector[0] is 'core' for inputs that paragraph A names literally and 'extra' for additions
(out-of-range numbers that must make construction fail, inputs whose parts contradict each other,
sizes that push a length field over its width).  The remaining entries name the equivalence class of
each varied dimension, e.g. ('core', 'enc=new', 'pref=max', 'bsid=absent', ...).

Deterministic (no randomness, no hash-order dependence), simplest first inside every family.
tier 'quick' yields about 11 k cases (1 s with yabgp + walker), 'thorough' about 570 k (30 s).  Payloads may share sub-objects with
one another: treat them as read-only (yabgp's constructors do not modify their arguments).
"""
import itertools

U32 = 2 ** 32 - 1
L20 = 2 ** 20 - 1

FAMILIES = ('keepalive', 'route_refresh', 'notification', 'open', 'srte_nlri', 'pmsi', 'flowspec6', 'tunnel_encap')


def c08_cases(tier='quick'):
    if tier not in ('quick', 'thorough'):
        raise ValueError('tier must be quick or thorough')
    for gen in (_keepalive, _route_refresh, _notification, _open, _srte_nlri, _pmsi, _flowspec6, _tunnel_encap):
        for case in gen(tier):
            yield case


def count(tier='quick'):
    """{family: number of cases} - for cost estimates and the selftest."""
    out = {}
    for fam, _cv, _k, _p in c08_cases(tier):
        out[fam] = out.get(fam, 0) + 1
    return out


# ------------------------------------------------------------------------------------------ small helpers

def _base_attrs():
    """ORIGIN, empty AS_PATH, LOCAL_PREF: what an iBGP speaker sends with anything."""
    return {1: 0, 2: [], 5: 100}


def _one_and_two_way(dims):
    """dims: list of (name, [(class label, value), ...]) with the base value first.
    Yields dict name -> (label, value): the base; every value of every dimension against the base;
    every pair of values of every pair of dimensions against the base (exhaustive pairwise)."""
    base = dict((n, vals[0]) for n, vals in dims)
    yield dict(base)
    for n, vals in dims:
        for lv in vals[1:]:
            d = dict(base)
            d[n] = lv
            yield d
    for (n1, v1), (n2, v2) in itertools.combinations(dims, 2):
        for a in v1[1:]:
            for b in v2[1:]:
                d = dict(base)
                d[n1] = a
                d[n2] = b
                yield d


# ------------------------------------------------------------------------------------------ KEEPALIVE

def _keepalive(tier):
    yield ('keepalive', ('core', 'keepalive'), 'keepalive', None)


# ------------------------------------------------------------------------------------------ ROUTE-REFRESH

# every (afi, safi) yabgp names in AFI_SAFI_DICT, plus boundary pairs
_RR_FAMILIES = [(1, 1), (1, 2), (1, 4), (1, 128), (1, 133), (1, 73), (2, 1), (2, 4), (2, 128), (2, 133),
                (25, 65), (25, 70), (16388, 71), (1, 5), (1, 129), (1, 132), (1, 134),
                (0, 0), (0, 255), (65535, 0), (65535, 255)]


def _route_refresh(tier):
    res_pool = (0, 255) if tier == 'quick' else (0, 1, 2, 127, 128, 255)
    for t in (5, 128):
        for res in res_pool:
            for afi, safi in _RR_FAMILIES:
                yield ('route_refresh', ('core', 'type=%d' % t, 'res=%d' % res, 'afi=%d' % afi, 'safi=%d' % safi),
                       'route_refresh', (afi, safi, res, t))
    for t in (5, 128):
        for afi, safi, res, why in ((65536, 1, 0, 'afi=2^16'), (1, 256, 0, 'safi=2^8'), (1, 1, 256, 'res=2^8'),
                                    (-1, 1, 0, 'afi=-1')):
            yield ('route_refresh', ('extra', 'type=%d' % t, why), 'route_refresh', (afi, safi, res, t))


# ------------------------------------------------------------------------------------------ NOTIFICATION

def _notif_data(n):
    return bytes((i * 7 + 1) & 0xFF for i in range(n))


def _notification(tier):
    if tier == 'quick':
        codes = (1, 2, 3, 4, 5, 6, 0, 255)
        subs = (0, 1, 2, 11, 255)
        lens = list(range(0, 33)) + [64, 255, 256, 1000, 4075]
        for ln in lens:
            for code in codes:
                for sub in subs:
                    if ln > 2 and (code, sub) not in ((1, 1), (2, 2), (3, 11), (6, 2), (255, 255), (0, 0)):
                        continue
                    yield ('notification', ('core', 'code=%d' % code, 'sub=%d' % sub, 'len=%d' % ln), 'notification',
                           (code, sub, _notif_data(ln)))
    else:
        for ln in (0, 1, 2, 20):
            for code in range(256):
                for sub in range(256):
                    yield ('notification', ('core', 'code=%d' % code, 'sub=%d' % sub, 'len=%d' % ln), 'notification',
                           (code, sub, _notif_data(ln)))
        for ln in range(3, 4076):
            yield ('notification', ('core', 'code=6', 'sub=2', 'len=%d' % ln), 'notification', (6, 2, _notif_data(ln)))
    # beyond the 4096-octet message: construction must fail (4076 is the first length that does not fit)
    for ln in (4076, 4077, 65514, 65515):
        yield ('notification', ('extra', 'code=6', 'sub=2', 'len=%d' % ln, 'message>4096'), 'notification',
               (6, 2, _notif_data(ln)))
    for code, sub, why in ((256, 0, 'code=2^8'), (1, 256, 'sub=2^8'), (-1, 0, 'code=-1')):
        yield ('notification', ('extra', why), 'notification', (code, sub, b''))


# ------------------------------------------------------------------------------------------ OPEN

_OPEN_CAP_ITEMS = [
    ('afi_safi', [(1, 1)]),
    ('route_refresh', True),
    ('cisco_route_refresh', True),
    ('four_bytes_as', True),
    ('ext_nexthop', [{'afi_safi': [1, 1], 'nexthop_afi': 2}]),
    ('add_path', 'ipv4_both'),
    ('enhanced_route_refresh', True),
]


def _open(tier):
    asns = (65000, 1, 23456, 65535, 65536, 2 ** 31, U32)
    holds = (180, 0, 3, 65535)
    ids = (0x01010101, 0, 1, U32)

    def caps(mask):
        return dict((k, (list(v) if isinstance(v, list) else v)) for i, (k, v) in enumerate(_OPEN_CAP_ITEMS)
                    if mask >> i & 1)

    def label(mask):
        return 'caps=' + ('+'.join(k for i, (k, _v) in enumerate(_OPEN_CAP_ITEMS) if mask >> i & 1) or 'none')

    # every subset of the capability keys the encoder supports, on the base numbers
    for mask in range(2 ** len(_OPEN_CAP_ITEMS)):
        yield ('open', ('core', 'asn=65000', 'hold=180', label(mask)), 'open', (4, 65000, 180, ids[0], caps(mask)))
    full = 2 ** len(_OPEN_CAP_ITEMS) - 1
    for asn in asns[1:]:
        for mask in (0, 8, full):
            yield ('open', ('core', 'asn=%d' % asn, 'hold=180', label(mask)), 'open', (4, asn, 180, ids[0], caps(mask)))
    for hold in holds[1:]:
        yield ('open', ('core', 'asn=65000', 'hold=%d' % hold, label(full)), 'open', (4, 65000, hold, ids[0], caps(full)))
    for bid in ids[1:]:
        yield ('open', ('core', 'asn=65000', 'hold=180', 'id=%d' % bid, label(full)), 'open',
               (4, 65000, 180, bid, caps(full)))
    # afi_safi with 0, 2, 3 families; add-path directions; several extended-next-hop tuples
    for fams in ([], [(1, 1), (2, 1)], [(1, 1), (1, 128), (25, 70)]):
        yield ('open', ('core', 'afi_safi=%d families' % len(fams)), 'open',
               (4, 65000, 180, ids[0], {'afi_safi': list(fams), 'four_bytes_as': True}))
    for ap in ('ipv4_receive', 'ipv4_send', 'ipv4_both'):
        yield ('open', ('core', 'add_path=' + ap), 'open', (4, 65000, 180, ids[0], {'afi_safi': [(1, 1)], 'add_path': ap}))
    for n in (0, 2, 3):
        en = [{'afi_safi': [1, s], 'nexthop_afi': 2} for s in (1, 2, 128)[:n]]
        yield ('open', ('core', 'ext_nexthop=%d tuples' % n), 'open', (4, 65000, 180, ids[0], {'ext_nexthop': en}))
    # optional parameters beyond the 255 octets their length octet can express: must fail
    for n in (31, 32, 40):
        fams = [(1, i + 1) for i in range(n)]
        yield ('open', ('extra', 'afi_safi=%d families' % n, 'optparams=%d octets' % (8 * n)), 'open',
               (4, 65000, 180, ids[0], {'afi_safi': fams}))
    yield ('open', ('extra', 'ext_nexthop=43 tuples', 'capability>255 octets'), 'open',
           (4, 65000, 180, ids[0], {'ext_nexthop': [{'afi_safi': [1, 1], 'nexthop_afi': 2}] * 43}))
    for asn, hold, bid, why in ((2 ** 32, 180, 1, 'asn=2^32'), (65000, 65536, 1, 'hold=2^16'), (65000, 180, 2 ** 32, 'id=2^32'),
                                (-1, 180, 1, 'asn=-1')):
        yield ('open', ('extra', why), 'open', (4, asn, hold, bid, {'four_bytes_as': True}))


# ------------------------------------------------------------------------------------------ SR-TE policy NLRI

_V4 = ['10.1.1.1', '0.0.0.0', '255.255.255.255', '0.0.0.1', '128.0.0.0']
_V6 = ['2001:db8::1', '::', 'ffff:ffff:ffff:ffff:ffff:ffff:ffff:ffff', '::1', '8000::', '::ffff:10.1.1.1', '::1:0:0']


def _srte_msg(nlri, reach=True, nexthop='10.0.0.1', extra=None):
    attr = _base_attrs()
    if reach:
        attr[14] = {'afi_safi': (1, 73), 'nexthop': nexthop, 'nlri': nlri}
    else:
        attr = {15: {'afi_safi': (1, 73), 'withdraw': nlri}}
    if extra:
        attr.update(extra)
    return {'attr': attr}


def _srte_nlri(tier):
    bnd = (0, 1, U32)
    # distinguisher x colour x endpoint, announce and withdraw
    for reach in (True, False):
        for ep in _V4:
            for d in bnd:
                for c in bnd:
                    nl = {'distinguisher': d, 'color': c, 'endpoint': ep}
                    yield ('srte_nlri', ('core', 'reach' if reach else 'unreach', 'dist=%d' % d, 'color=%d' % c, 'ep=v4:' + ep),
                           'update', (_srte_msg(nl, reach), True))
    # IPv6 endpoints: the encoder only knows AFI 1, so the result must be an error or a well-formed (2,73) NLRI
    for reach in (True, False):
        for ep in _V6:
            for d, c in ((0, 0), (1, U32), (U32, 1)):
                nl = {'distinguisher': d, 'color': c, 'endpoint': ep}
                yield ('srte_nlri', ('core', 'reach' if reach else 'unreach', 'dist=%d' % d, 'color=%d' % c, 'ep=v6:' + ep),
                       'update', (_srte_msg(nl, reach), True))
    # next hops; with the colour extended community and a minimal tunnel attribute as a real policy carries
    nl = {'distinguisher': 1, 'color': 10, 'endpoint': '192.168.5.7'}
    for nh in ('192.168.5.5', '0.0.0.0', '2001:db8::5', ''):
        yield ('srte_nlri', ('core', 'reach', 'nexthop=' + (nh or 'empty')), 'update', (_srte_msg(dict(nl), True, nh), True))
    yield ('srte_nlri', ('core', 'reach', 'with colour community and tunnel attribute'), 'update',
           (_srte_msg(dict(nl), True, '192.168.5.5', {16: [[0x030b, 10]], 23: {'0': 'new', '12': 100}}), True))
    for asn4 in (False,):
        yield ('srte_nlri', ('core', 'reach', 'asn4=False'), 'update', (_srte_msg(dict(nl)), asn4))
    # out of range: must fail
    for d, c, why in ((2 ** 32, 0, 'dist=2^32'), (0, 2 ** 32, 'color=2^32'), (-1, 0, 'dist=-1'), (0, -1, 'color=-1')):
        for reach in (True, False):
            yield ('srte_nlri', ('extra', 'reach' if reach else 'unreach', why), 'update',
                   (_srte_msg({'distinguisher': d, 'color': c, 'endpoint': '10.1.1.1'}, reach), True))
    yield ('srte_nlri', ('extra', 'reach', 'ep=not an address'), 'update',
           (_srte_msg({'distinguisher': 0, 'color': 0, 'endpoint': 'bogus'}), True))
    yield ('srte_nlri', ('extra', 'unreach', 'withdraw=empty dict'), 'update', (_srte_msg({}, False), True))


# ------------------------------------------------------------------------------------------ PMSI tunnel

_EVPN_T3 = {'type': 3, 'value': {'eth_tag_id': 0, 'ip': '192.168.1.10', 'rd': '65527:36802'}}


def _pmsi_msg(pmsi, mode):
    """mode: 'plain' (no EVPN, no encapsulation community), 'evpn' (EVPN, no encapsulation community),
    'encap-only' (encapsulation community, not EVPN), 'vxlan' / 'nvgre' / 'mpls' (EVPN + community 8 / 9 / 10)."""
    attr = {1: 0, 5: 100}
    if mode in ('evpn', 'vxlan', 'nvgre', 'mpls'):
        attr[14] = {'afi_safi': (25, 70), 'nexthop': '192.168.1.10',
                    'nlri': [{'type': 3, 'value': dict(_EVPN_T3['value'])}]}
    ec = [[2, '65527:36802']]
    if mode in ('encap-only', 'vxlan', 'nvgre', 'mpls'):
        ec.append([780, {'encap-only': 8, 'vxlan': 8, 'nvgre': 9, 'mpls': 10}[mode]])
    attr[16] = ec
    attr[22] = pmsi
    return {'attr': attr}


def _pmsi(tier):
    labels = [(625, '625'), (0, '0'), (1, '1'), (L20, '2^20-1'), (2 ** 20, '2^20'), (2 ** 24 - 1, '2^24-1')]
    modes = ('plain', 'evpn', 'encap-only', 'vxlan', 'nvgre')
    ids = {0: [None], 6: ['192.168.10.10', '0.0.0.0', '255.255.255.255', '2001:db8::10', '::']}
    for tt in (6, 0, 1, 2, 3, 4, 5, 7):
        for mode in modes:
            for lab, lname in labels:
                for leaf in (0, 1):
                    for tid in ids.get(tt, ['192.168.10.10', None]):
                        if tt == 6 and tid not in ('192.168.10.10', '2001:db8::10') and (lab != 625 or leaf):
                            continue
                        pm = {'mpls_label': [lab], 'tunnel_id': tid, 'tunnel_type': tt, 'leaf_info_required': leaf}
                        # label classes that are outside the 20-bit MPLS label space are only "core" where the
                        # field is a 24-bit VNI
                        core = lab <= L20 or mode in ('vxlan', 'nvgre')
                        yield ('pmsi', ('core' if core else 'extra', 'type=%d' % tt, 'overlay=' + mode, 'label=' + lname,
                                        'leaf=%d' % leaf, 'id=%s' % tid), 'update', (_pmsi_msg(pm, mode), True))
    # EVPN + an encapsulation community that is neither VXLAN nor NVGRE; out-of-range numbers; odd shapes
    for lab in (625, 2 ** 24 - 1):
        pm = {'mpls_label': [lab], 'tunnel_id': '192.168.10.10', 'tunnel_type': 6, 'leaf_info_required': 0}
        yield ('pmsi', ('extra', 'type=6', 'overlay=mpls', 'label=%d' % lab), 'update', (_pmsi_msg(pm, 'mpls'), True))
    for lab, mode, why in ((2 ** 24, 'vxlan', 'label=2^24'), (2 ** 28, 'plain', 'label=2^28'), (2 ** 32, 'vxlan', 'label=2^32'),
                           (-1, 'plain', 'label=-1')):
        pm = {'mpls_label': [lab], 'tunnel_id': '192.168.10.10', 'tunnel_type': 6, 'leaf_info_required': 0}
        yield ('pmsi', ('extra', 'type=6', 'overlay=' + mode, why), 'update', (_pmsi_msg(pm, mode), True))
    for tt, leaf, why in ((255, 0, 'type=255'), (256, 0, 'type=2^8'), (6, 255, 'leaf=255'), (6, 256, 'leaf=2^8')):
        pm = {'mpls_label': [625], 'tunnel_id': '192.168.10.10', 'tunnel_type': tt, 'leaf_info_required': leaf}
        yield ('pmsi', ('extra', why), 'update', (_pmsi_msg(pm, 'plain'), True))
    pm = {'mpls_label': [625, 626], 'tunnel_id': '192.168.10.10', 'tunnel_type': 6, 'leaf_info_required': 0}
    yield ('pmsi', ('extra', 'two labels'), 'update', (_pmsi_msg(pm, 'plain'), True))
    pm = {'mpls_label': [625], 'tunnel_id': 'bogus', 'tunnel_type': 6, 'leaf_info_required': 0}
    yield ('pmsi', ('extra', 'id=not an address'), 'update', (_pmsi_msg(pm, 'plain'), True))


# ------------------------------------------------------------------------------------------ IPv6 flowspec

_FS6_LENS = (0, 1, 7, 8, 9, 64, 127, 128)


def _v6_pool(plen):
    """C06's address pool transposed to IPv6: all-zero, all-one masked, alternating 0xAA.., single bit at the
    last significant position - as text, host bits zero."""
    def text(v):
        groups = [(v >> (112 - 16 * i)) & 0xFFFF for i in range(8)]
        return ':'.join('%x' % g for g in groups)
    mask = ((1 << plen) - 1) << (128 - plen) if plen else 0
    alt = int('aa' * 16, 16)
    out = [('zero', text(0))]
    if plen:
        out.append(('ones', text(mask)))
        out.append(('alt', text(alt & mask)))
        out.append(('lastbit', text(1 << (128 - plen))))
    return out


_FS_OPS = ('=', '<', '>', '<=', '>=')
_FS_VALUES = (0, 1, 255, 256, 65535, 65536, 2 ** 24 - 1, 2 ** 24, U32)
_FS6_NUMERIC = (3, 4, 5, 6, 7, 8, 9, 10, 11, 12, 13)


def _fs6_msg(rules, reach=True, nexthop=''):
    attr = _base_attrs()
    if reach:
        attr[14] = {'afi_safi': (2, 133), 'nexthop': nexthop, 'nlri': rules}
    else:
        attr = {15: {'afi_safi': (2, 133), 'withdraw': rules}}
    return {'attr': attr}


def _fs_value_class(v):
    if v < 256:
        return '1-octet'
    if v < 65536:
        return '2-octet'
    if v < 2 ** 24:
        return '3-octet'
    return '4-octet'


def _flowspec6(tier):
    # --- prefix components: length x offset (offset <= length) x address pool x destination / source / both
    for ln in _FS6_LENS:
        for off in _FS6_LENS:
            if off > ln:
                continue
            for aname, addr in _v6_pool(ln):
                for which in ((1,), (2,), (1, 2)):
                    rule = {}
                    for t in which:
                        rule[t] = {'prefix': '%s/%d' % (addr, ln), 'offset': off}
                    yield ('flowspec6', ('core', 'prefix', 'len=%d' % ln, 'offset=%d' % off, 'addr=' + aname,
                                         'comp=' + '+'.join(str(t) for t in which)), 'update', (_fs6_msg([rule]), True))
    # a prefix component next to a numeric one (a /0 prefix on its own makes an empty dictionary entry)
    for ln, off in ((0, 0), (1, 0), (9, 7), (64, 0), (128, 127), (128, 128)):
        rule = {1: {'prefix': '2001:db8::/%d' % ln if ln >= 32 else '::/%d' % ln, 'offset': off}, 3: '=6'}
        yield ('flowspec6', ('core', 'prefix+numeric', 'len=%d' % ln, 'offset=%d' % off), 'update', (_fs6_msg([rule]), True))
    # --- numeric components: every component x operator x value boundary, one term
    for ct in _FS6_NUMERIC:
        for op in _FS_OPS:
            for v in _FS_VALUES:
                # 65536 and 2^24-1 need three significant octets; RFC 8955 has no 3-octet value, the
                # encoder must widen to 4 (or fail) - a boundary paragraph A names, hence 'core'
                yield ('flowspec6', ('core', 'numeric', 'comp=%d' % ct, 'op=' + op,
                                     'value=%d' % v, _fs_value_class(v)), 'update',
                       (_fs6_msg([{ct: '%s%d' % (op, v)}]), True))
    # --- 2 and 3 '|'-joined terms (value sizes mixed inside one list)
    two = [('=', 80), ('>=', 256), ('<', 65536), ('<=', U32), ('>', 0)]
    for ct in _FS6_NUMERIC:
        for a, b in itertools.permutations(two, 2):
            yield ('flowspec6', ('core', 'numeric', 'comp=%d' % ct, 'terms=2', '%s%d|%s%d' % (a + b)), 'update',
                   (_fs6_msg([{ct: '%s%d|%s%d' % (a + b)}]), True))
        for a, b, c in (two[:3], two[1:4], two[2:5], (two[4], two[0], two[3])):
            yield ('flowspec6', ('core', 'numeric', 'comp=%d' % ct, 'terms=3'), 'update',
                   (_fs6_msg([{ct: '%s%d|%s%d|%s%d' % (a + b + c)}]), True))
    # --- 1-3 components per rule
    for a, b in itertools.combinations(_FS6_NUMERIC, 2):
        yield ('flowspec6', ('core', 'numeric', 'comps=%d+%d' % (a, b)), 'update',
               (_fs6_msg([{a: '=1', b: '>=256|<=65535'}]), True))
    for a, b, c in itertools.combinations(_FS6_NUMERIC, 3):
        if tier == 'quick' and (a + b + c) % 3:
            continue
        yield ('flowspec6', ('core', 'numeric', 'comps=%d+%d+%d' % (a, b, c)), 'update',
               (_fs6_msg([{a: '=1', b: '>=256', c: '<65536|=0'}]), True))
    # string keys, as a JSON body delivers them
    yield ('flowspec6', ('core', 'string keys'), 'update',
           (_fs6_msg([{'1': {'prefix': '2001:db8::/32', 'offset': 0}, '5': '=80|=443'}]), True))
    # --- 1, 2, 3 routes per attribute; next hops
    r1 = {1: {'prefix': '2001:db8:1::/48', 'offset': 0}, 5: '=80'}
    r2 = {2: {'prefix': '2001:db8:2::/64', 'offset': 32}, 3: '=6|=17'}
    r3 = {13: '=1048575', 10: '>=64|<=1500'}
    for n in (1, 2, 3):
        rules = [dict(r) for r in (r1, r2, r3)[:n]]
        for nh in ('', '2001:db8::1'):
            yield ('flowspec6', ('core', 'routes=%d' % n, 'nexthop=' + (nh or 'empty')), 'update', (_fs6_msg(rules, True, nh), True))
    # --- extras
    # withdraw: MpUnReachNLRI has no IPv6-flowspec branch; whatever happens must be an error or a valid message
    for n in (1, 2):
        yield ('flowspec6', ('extra', 'unreach', 'routes=%d' % n), 'update', (_fs6_msg([dict(r1), dict(r2)][:n], False), True))
    # '&' terms, the form yabgp's own docstring advertises ("=254|>=254&<=300")
    for expr in ('>=64&<=1500', '=254|>=254&<=300', '>=254&<=300|=1'):
        for ct in (5, 10):
            yield ('flowspec6', ('extra', 'and-term', 'comp=%d' % ct, expr), 'update', (_fs6_msg([{ct: expr}]), True))
    # NLRI of 240 octets and more (the length then needs the 0xFnnn form): 79/80/81 and 200 one-octet terms
    for nterms in (78, 79, 80, 81, 120, 200, 1400):
        expr = '|'.join('=%d' % (i % 200) for i in range(nterms))
        yield ('flowspec6', ('extra', 'long', 'terms=%d' % nterms, 'nlri=%d octets' % (1 + 2 * nterms)), 'update',
               (_fs6_msg([{5: expr}]), True))
    # rules whose encoding is exactly 238..242 and 254..257 octets (the 1- / 2-octet NLRI length boundary is at 240), alone and
    # with a short rule before / behind
    def rule_of(length):
        rest = length - 1
        y = 0
        while (rest - 2 * y) % 3:
            y += 1
        x = (rest - 2 * y) // 3
        return {5: '|'.join(['=%d' % (1000 + i) for i in range(x)] + ['=%d' % (10 + i) for i in range(y)])}
    for ln in (238, 239, 240, 241, 242, 254, 255, 256, 257):
        for pos, rules in (('alone', [rule_of(ln)]), ('first', [rule_of(ln), {3: '=6'}]), ('last', [{3: '=6'}, rule_of(ln)])):
            yield ('flowspec6', ('extra', 'boundary', 'rule-octets=%d' % ln, 'pos=' + pos), 'update', (_fs6_msg(rules), True))
    for ln, off, why in ((129, 0, 'len=129'), (64, 65, 'offset>len'), (64, 256, 'offset=2^8'), (256, 0, 'len=2^8')):
        rule = {1: {'prefix': '2001:db8::/%d' % ln, 'offset': off}}
        yield ('flowspec6', ('extra', 'prefix', why), 'update', (_fs6_msg([rule]), True))
    yield ('flowspec6', ('extra', 'prefix', 'IPv4 prefix in an IPv6 rule'), 'update',
           (_fs6_msg([{1: {'prefix': '192.0.2.0/24', 'offset': 0}}]), True))
    yield ('flowspec6', ('extra', 'numeric', 'value=2^32'), 'update', (_fs6_msg([{5: '=%d' % 2 ** 32}]), True))
    yield ('flowspec6', ('extra', 'numeric', 'value=2^64'), 'update', (_fs6_msg([{5: '=%d' % 2 ** 64}]), True))
    yield ('flowspec6', ('extra', 'empty rule list'), 'update', (_fs6_msg([]), True))
    yield ('flowspec6', ('extra', 'rule without components'), 'update', (_fs6_msg([{}]), True))


# ------------------------------------------------------------------------------------------ tunnel encapsulation

def _sid(label, full=True, tc=0, s=0, ttl=255):
    d = {'label': label}
    if full:
        d.update({'TC': tc, 'S': s, 'TTL': ttl})
    return d


def _segment(kind, label, with_sid, node='10.1.1.1', interface=1):
    """One segment in yabgp's shape.  kind in '1', '3', '5', '6'."""
    if kind == '1':
        return {'1': _sid(label, full=with_sid)}
    if kind == '3':
        v = {'node': node}
    elif kind == '5':
        v = {'interface': interface, 'node': node}
    else:
        v = {'local': node, 'remote': '10.1.1.2'}
    if with_sid:
        v['SID'] = _sid(label)
    return {kind: v}


_SEG_KINDS = [('1', False), ('1', True), ('3', False), ('3', True), ('5', False), ('5', True), ('6', False), ('6', True)]
_SEG_LABELS = (2000, 0, 1, L20)


def _seglist(segments, weight=None):
    d = {}
    if weight is not None:
        d['9'] = weight
    d['1'] = segments
    return d


def _seglist_pool(tier):
    """[(class label, list of segment lists)] - the value of key '128'.  Base first."""
    base_segs = [_segment('1', 2000, False), _segment('3', 2000, True)]
    pool = [('lists=1:base', [_seglist(list(base_segs), 10)])]
    # every segment kind alone, with and without the optional SID, label at each boundary
    for kind, ws in _SEG_KINDS:
        for lab in _SEG_LABELS:
            if not ws and kind != '1' and lab != 2000:
                continue   # no label field in that form
            pool.append(('lists=1:kind=%s%s:label=%d' % (kind, '+sid' if ws else '', lab), [_seglist([_segment(kind, lab, ws)])]))
    # the other fields of the optional SID and of the segment bodies at their boundaries
    for tc, s, ttl in ((7, 0, 255), (0, 1, 255), (0, 0, 0), (7, 1, 0)):
        pool.append(('lists=1:kind=3+sid:tc=%d,s=%d,ttl=%d' % (tc, s, ttl),
                     [_seglist([{'3': {'node': '10.1.1.1', 'SID': _sid(L20, True, tc, s, ttl)}}])]))
    for itf in (0, U32):
        pool.append(('lists=1:kind=5:interface=%d' % itf, [_seglist([_segment('5', 2000, True, interface=itf)])]))
    for node in ('0.0.0.0', '255.255.255.255'):
        pool.append(('lists=1:kind=3:node=' + node, [_seglist([_segment('3', 2000, True, node=node)])]))
    # weight
    for w in (0, 1, U32):
        pool.append(('lists=1:weight=%d' % w, [_seglist(list(base_segs), w)]))
    pool.append(('lists=1:weight=absent', [_seglist(list(base_segs))]))
    # all kinds in one list; an empty list; 1-2 segment lists
    allk = [_segment(k, 2000, ws) for k, ws in _SEG_KINDS]
    pool.append(('lists=1:all kinds', [_seglist(allk, 1)]))
    pool.append(('lists=1:no segments', [_seglist([], 1)]))
    pool.append(('lists=2:base+all kinds', [_seglist(list(base_segs), 10), _seglist(list(allk), 20)]))
    pool.append(('lists=2:weighted+unweighted', [_seglist(list(base_segs), U32), _seglist([_segment('6', L20, True)])]))
    pool.append(('lists=2:identical', [_seglist(list(base_segs), 1), _seglist(list(base_segs), 1)]))
    pool.append(('lists=0', []))
    return pool


def _te_msg(te):
    attr = _base_attrs()
    attr[14] = {'afi_safi': (1, 73), 'nexthop': '192.168.5.5',
                'nlri': {'distinguisher': 0, 'color': 10, 'endpoint': '192.168.5.7'}}
    attr[23] = te
    return {'attr': attr}


_ABSENT = object()


def _te_dict(enc, pref, bsid, enlp, prio, name, endpoint, lists, oldkeys=False):
    """Assemble yabgp's tunnel-encapsulation dictionary; _ABSENT leaves a key out.
    oldkeys: in the 'old' encoding, give preference / binding SID under the old codes 6 / 7."""
    te = {'0': enc}
    pk, bk = ('6', '7') if (enc == 'old' and oldkeys) else ('12', '13')
    if pref is not _ABSENT:
        te[pk] = pref
    if bsid is not _ABSENT:
        te[bk] = bsid
    if enlp is not _ABSENT:
        te['14'] = enlp
    if prio is not _ABSENT:
        te['15'] = prio
    if name is not _ABSENT:
        te['129'] = name
    if endpoint is not _ABSENT and enc == 'new':
        te['6'] = dict(endpoint)
    if lists is not _ABSENT:
        te['128'] = lists
    return te


_EP4 = {'asn': 300, 'afi': 'ipv4', 'address': '1.1.1.1'}
_EP6 = {'asn': 300, 'afi': 'ipv6', 'address': 'ABCD:EF01:2345:6789:ABCD:EF01:2345:6789'}


def _tunnel_encap(tier):
    prefs = [('pref=100', 100), ('pref=absent', _ABSENT), ('pref=0', 0), ('pref=max', U32)]
    bsids = [('bsid=25102', 25102), ('bsid=absent', _ABSENT), ('bsid=0', 0), ('bsid=1', 1), ('bsid=2^20-1', L20)]
    enlps = [('enlp=absent', _ABSENT), ('enlp=1', 1), ('enlp=0', 0), ('enlp=4', 4), ('enlp=255', 255)]
    prios = [('prio=absent', _ABSENT), ('prio=200', 200), ('prio=0', 0), ('prio=255', 255)]
    names = [('name=absent', _ABSENT), ('name=4', 'test'), ('name=0', ''), ('name=1', 'a'), ('name=255', 'n' * 255),
             ('name=300', 'n' * 300)]
    eps = [('ep=absent', _ABSENT), ('ep=v4', _EP4), ('ep=v6', _EP6)]
    pool = _seglist_pool(tier)
    base_lists = pool[0]

    def case(core, enc, p, b, e, pr, n, ep, sl, oldkeys=False, tags=()):
        te = _te_dict(enc, p[1], b[1], e[1], pr[1], n[1], ep[1], [dict((k, (list(v) if isinstance(v, list) else v))
                                                                         for k, v in l.items()) for l in sl[1]], oldkeys)
        cv = (core, 'enc=' + enc + ('(6/7)' if oldkeys else '')) + (p[0], b[0], e[0], pr[0], n[0], ep[0], sl[0]) + tuple(tags)
        return ('tunnel_encap', cv, 'update', (_te_msg(te), True))

    # 1. simplest: both encodings, nothing else; then the base policy
    for enc in ('new', 'old'):
        yield ('tunnel_encap', ('core', 'enc=' + enc, 'bare'), 'update', (_te_msg({'0': enc}), True))
    for enc in ('new', 'old'):
        yield case('core', enc, prefs[0], bsids[0], enlps[0], prios[0], names[0], eps[0], base_lists)
    # 2. the segment-list pool against the base policy, both encodings (+ the old key codes)
    for sl in pool[1:]:
        for enc, ok in (('new', False), ('old', False), ('old', True)):
            yield case('core', enc, prefs[0], bsids[0], enlps[0], prios[0], names[0], eps[0], sl, ok)
    # 3. old encoding: preference x binding SID x key style (the other sub-TLVs do not exist there)
    for ok in (False, True):
        for p in prefs:
            for b in bsids:
                yield case('core', 'old', p, b, enlps[0], prios[0], names[0], eps[0], base_lists, ok)
    # 4. new encoding: the full product of the policy-level sub-TLVs with the base segment lists
    for p, b, e, pr, n, ep in itertools.product(prefs, bsids, enlps, prios, names, eps):
        yield case('core', 'new', p, b, e, pr, n, ep, base_lists)
    # 5. every segment-list pool entry against every single policy-level value (two-way coverage
    #    between the segment lists and each policy-level dimension)
    dims = [('p', prefs), ('b', bsids), ('e', enlps), ('pr', prios), ('n', names), ('ep', eps)]
    for sl in pool[1:]:
        for name, vals in dims:
            for v in vals[1:]:
                cur = dict((dn, dv[0]) for dn, dv in dims)
                cur[name] = v
                yield case('core', 'new', cur['p'], cur['b'], cur['e'], cur['pr'], cur['n'], cur['ep'], sl)
    # 6. thorough: the full product including the segment-list pool
    if tier == 'thorough':
        for sl in pool[1:]:
            for p, b, e, pr, n, ep in itertools.product(prefs, bsids, enlps, prios, names, eps):
                yield case('core', 'new', p, b, e, pr, n, ep, sl)
    # 7. integer keys (the encoder converts keys with int()), at every level
    te = {0: 'new', 12: 100, 13: 25102, 14: 1, 15: 200, 129: 'test', 6: dict(_EP4),
          128: [{9: 10, 1: [{1: {'label': 2000}}, {3: {'node': '10.1.1.1', 'SID': _sid(3000)}}]}]}
    yield ('tunnel_encap', ('core', 'enc=new', 'integer keys'), 'update', (_te_msg(te), True))
    # --- extras: out of range, contradictory, oversized
    def simple(te, *why):
        return ('tunnel_encap', ('extra',) + why, 'update', (_te_msg(te), True))
    for enc in ('new', 'old'):
        yield simple({'0': enc, '12': 2 ** 32}, 'enc=' + enc, 'pref=2^32')
        yield simple({'0': enc, '12': -1}, 'enc=' + enc, 'pref=-1')
        yield simple({'0': enc, '13': 2 ** 20}, 'enc=' + enc, 'bsid=2^20')
        yield simple({'0': enc, '13': -1}, 'enc=' + enc, 'bsid=-1')
        yield simple({'0': enc, '128': [_seglist([_segment('1', 2 ** 20, False)])]}, 'enc=' + enc, 'segment label=2^20')
        yield simple({'0': enc, '128': [_seglist([_segment('3', 2 ** 20, True)])]}, 'enc=' + enc, 'SID label=2^20')
        yield simple({'0': enc, '128': [_seglist([_segment('1', 2000, False)], 2 ** 32)]}, 'enc=' + enc, 'weight=2^32')
        yield simple({'0': enc, '128': [_seglist([_segment('5', 2000, True, interface=2 ** 32)])]}, 'enc=' + enc,
                     'interface=2^32')
        yield simple({'0': enc, '128': [_seglist([{'3': {'node': '10.1.1.1', 'SID': _sid(1, True, 8, 0, 255)}}])]},
                     'enc=' + enc, 'TC=8')
        yield simple({'0': enc, '128': [_seglist([{'3': {'node': '10.1.1.1', 'SID': _sid(1, True, 0, 2, 255)}}])]},
                     'enc=' + enc, 'S=2')
        yield simple({'0': enc, '128': [_seglist([{'3': {'node': '10.1.1.1', 'SID': _sid(1, True, 0, 0, 256)}}])]},
                     'enc=' + enc, 'TTL=256')
        yield simple({'0': enc, '128': [_seglist([{'3': {'node': '2001:db8::1'}}])]}, 'enc=' + enc, 'kind 3 with an IPv6 node')
        yield simple({'0': enc, '128': [_seglist([{'6': {'local': '2001:db8::1', 'remote': '10.0.0.1'}}])]}, 'enc=' + enc,
                     'kind 6 with an IPv6 local address')
        for kind in ('2', '4', '7', '8', '13', '0', '255'):
            yield simple({'0': enc, '128': [_seglist([{kind: {'node': '10.1.1.1', 'label': 1}}])]}, 'enc=' + enc,
                         'unsupported segment kind ' + kind)
        # sizes: a segment list beyond 255 / 65535 octets, a tunnel TLV beyond 65535 octets
        for nseg in (32, 43, 8191, 8192):
            yield simple({'0': enc, '128': [_seglist([_segment('1', i % L20, False) for i in range(nseg)], 1)]},
                         'enc=' + enc, 'segments=%d' % nseg, 'list=%d octets' % (9 + 8 * nseg))
        yield simple({'0': enc, '128': [_seglist([_segment('1', i, False) for i in range(100)], 1) for _ in range(9)]},
                     'enc=' + enc, 'lists=9 x 100 segments', 'attribute > 4096 octets')
    yield simple({'0': 'new', '14': 256}, 'enlp=2^8')
    yield simple({'0': 'new', '14': -1}, 'enlp=-1')
    yield simple({'0': 'new', '15': 256}, 'prio=2^8')
    yield simple({'0': 'new', '129': 'n' * 65534}, 'name=65534')
    yield simple({'0': 'new', '129': 'n' * 65535}, 'name=65535')
    yield simple({'0': 'new', '129': 'n' * 4000}, 'name=4000', 'message close to 4096')
    yield simple({'0': 'new', '129': 'n' * 4100}, 'name=4100', 'message > 4096')
    yield simple({'0': 'new', '129': u'café'}, 'name=non-ASCII')
    yield simple({'0': 'new', '129': 12345}, 'name=integer')
    yield simple({'0': 'new', '6': {'asn': 300, 'afi': 'ipv4', 'address': '2001:db8::1'}}, 'ep=afi ipv4 with an IPv6 address')
    yield simple({'0': 'new', '6': {'asn': 300, 'afi': 'ipv6', 'address': '1.1.1.1'}}, 'ep=afi ipv6 with an IPv4 address')
    yield simple({'0': 'new', '6': {'asn': 2 ** 32, 'afi': 'ipv4', 'address': '1.1.1.1'}}, 'ep=asn 2^32')
    yield simple({'0': 'new', '6': {'asn': 300, 'afi': 'l2vpn', 'address': '1.1.1.1'}}, 'ep=unknown afi')
    for asn in (0, U32):
        yield ('tunnel_encap', ('core', 'enc=new', 'ep=v4', 'ep asn=%d' % asn), 'update',
               (_te_msg({'0': 'new', '6': {'asn': asn, 'afi': 'ipv4', 'address': '1.1.1.1'}}), True))
    yield simple({'0': 'old', '6': dict(_EP4)}, 'enc=old', 'key 6 holds an endpoint dictionary')
    yield simple({'0': 'old', '6': 100, '12': 200, '7': 1, '13': 2}, 'enc=old', 'both old and new keys given')
    yield simple({'0': 'new', '6': 100}, 'enc=new', 'key 6 holds a preference number')
    yield simple({'0': 'newer'}, 'enc=unknown word')
    yield simple({'12': 100}, 'enc=missing')
    yield simple({}, 'empty dictionary')
