"""Reference codec: written from the RFCs, imports nothing from yabgp."""
