"""Independent reference codec for BGP UPDATE messages (DESIGN section 7: C06, C07, C08, C09, C15;
Appendix B).  Written from the RFCs (4271, 4760, 2545, 4364, 4659, 8277, 7432, 9136, 5575/8955, 1997,
4360, 8092, 6793, 4456, 7911); it imports nothing from yabgp and shares no code with it.  Only the
*value shapes* (the Python dicts / lists / strings handed to `Update.construct` and returned by
`Update.parse`) are yabgp's.

Public API
----------
encode_attr(code, value, asn4, ext_len=False, *, add_path=False, opts=None) -> bytes
encode_update(msg, asn4=False, add_path=False, opts=None) -> bytes           (with 19-octet header)
encode_body(msg, asn4=False, add_path=False, opts=None) -> bytes             (without header)
expected(msg, asn4, add_path=False, opts=None) -> {'attr', 'nlri', 'withdraw'}
in_range(msg, asn4, add_path=False, opts=None) -> (ok, why)
decode_update(body, asn4, add_path=False) -> dict                            (independent decoder)
afi_add_path(add_path) -> the dict form Update.parse wants for the same add-path selection
ext_community_bytes(item) / ext_community_text(item) / ext_community_from_text(text) /
ext_community_to_text(b8); community_value / community_text; encode_rd / rd_text; encode_esi;
encode_labels; encode_prefix4 / encode_prefix6; flowspec_rule / flowspec_ops / flowspec_ops_text;
encode_nlri(afi, safi, items, withdraw, add_path, opts); canon_text(s) (IPv6 text canonicaliser the
harness's `norm` should apply to decoder output before comparing).

opts (dict, every key optional)
    'ext_len'        set of attribute codes whose length is forced to the 2-octet encoding
    'partial'        set of attribute codes sent with the Partial bit (applied to optional transitive ones only)
    'order'          list of attribute codes giving the wire order (others follow, ascending)
    'trailing_bits'  True | 'v4' | 'v6' | 'ipv4-unicast': fill the unused low bits of the last octet of
                     every IPv4 / IPv6 prefix with ones (RFC 4271 4.3: their value is irrelevant).
                     'v4' / 'v6' cover every prefix of that version (unicast, labeled, VPN, flowspec
                     components); 'ipv4-unicast' only the plain <length, prefix> lists (UPDATE body and
                     MP (1,1)), which is all DESIGN C09 claims for yabgp
    'split_aspath'   n: every AS_SEQUENCE / AS_CONFED_SEQUENCE (attributes 2 and 17) longer than n is
                     written as several segments of the same type; expected() reports the split
    'path_id'        path identifier used for entries that carry none when add_path is on (default 1)
add_path: False | True | collection of (afi, safi).  True = every prefix-like family: the UPDATE body
    ((1, 1)), and (1,1) (2,1) (1,4) (2,4) (1,128) (2,128) inside MP_REACH / MP_UNREACH (RFC 7911).

SHAPE DECISIONS  (file:line refer to /repo)
---------------
 1. AS_PATH / AS4_PATH: encode accepts lists or tuples `(segtype, [asn...])`; the decoder yields
    *tuples* `(segtype, list)` (yabgp/message/attribute/aspath.py:87 `aspath.append((seg_type, segment))`),
    an empty path is `[]` (tests/unit/message/test_update.py:139 `2: []`).  expected() returns tuples.
 2. AGGREGATOR / AS4_AGGREGATOR: decoded as a tuple `(asn, 'a.b.c.d')` (aggregator.py:68).
 3. ATOMIC_AGGREGATE: any falsy input ('' / b'' / None) encodes the empty value; decoded as `''`
    (atomicaggregate.py:42 `bytes.decode(value)`).
 4. COMMUNITIES: names are matched case-insensitively (community.py:71 uses `.upper()`); the decoder
    prints a well-known *value* by name even if it was given as 'hi:lo' (community.py:50-53), so
    expected() maps '65535:65281' to 'NO_EXPORT'.  The 11 names are those of common/constants.py:516-528
    (two of them contain a lower-case 'v'; they are well-formed inputs for the reference).
 5. LARGE_COMMUNITY: 'g:l1:l2', each field an *unsigned* 32-bit decimal (RFC 8092).  yabgp sets the
    Partial bit (flags 0xE0, largecommunity.py:37); RFC 4271 leaves P free for optional transitive
    attributes and an originator has no reason to set it: the reference emits 0xC0.
 6. EXTENDED COMMUNITIES, encode shape `[code, value(, extra)]` (extcommunity.py:183-258), decode shape
    text (extcommunity.py:86-166).  Kinds and texts:
       0x0002/0x0202 [c,'asn:n']      'route-target:asn:n'    0x0102 [c,'ip:n']  'route-target:ip:n'
       0x0003/0x0203/0x0103           'route-origin:...'      0x8008 [c,'asn:n'] 'redirect-vrf:asn:n'
       0x0800 [c, ip, flag]           'redirect-nexthop:ip:flag'   (draft-simpson layout: IPv4 + 16 bits)
       0x8006 [c,'asn:rate']          'traffic-rate:asn:<int(float32(rate))>'
       0x8007 [c,{'s':0|1,'t':0|1}]   'traffic-action:S:s,T:t'  (RFC 5575: bit 46 = S, bit 47 = T)
       0x8009 [c, dscp]               'traffic-marking-dscp:dscp'   (6-bit DSCP, RFC 5575)
       0x030b [c, n]                  'color:n'; 0x030b0000/4000/8000/c000 [c, n]: colour with the CO
                                      bits 00/01/10/11 in the flags field.  CO=00 is octet-identical
                                      to plain colour -> 'color:n'.  For CO != 00 the decoder has no
                                      branch of its own (extcommunity.py:144 matches the 16-bit type only
                                      and prints 'color:n'), but constants.py:203-206 documents the text
                                      names 'color-01' / 'color-10' / 'color-11', so expected() says
                                      'color-01:n' etc.  UNSURE: a triage call; yabgp loses the CO bits.
       0x030c [c, n]                  'encapsulation:n' (RFC 9012: 4 reserved octets + 16-bit tunnel type)
       0x0602 / 0x0603 [c,'AA-..-FF'] 'es-import:MAC' / 'router-mac:MAC' (upper-case, dashes)
       0x0600 [c, flags, seq]         'mac-mobility:flags:seq'
       0x0601 [c, flags, label]       'esi-label:flags:label'   label field = label << 4 | 1: RFC 7432 7.5
                                      defines only the high-order 20 bits; the low nibble follows the
                                      unit-test vector tests/unit/message/attribute/test_extcommunity.py:153.
       0x4004 [c,'asn:n']             'dmzlink-bw:asn:n' with n the raw 32-bit field as an integer
                                      (extcommunity.py:165, :256; the draft's float is not interpreted).
    Text -> kind for route-target / route-origin follows api/v1.py:139-189: dotted administrator -> type 1,
    AS <= 65535 -> type 0, else type 2.
 7. IPv4 prefixes 'a.b.c.d/len'; add-path entries `{'prefix': p, 'path_id': n}` (update.py:275, :513).
    Host bits beyond the length are encoded as zero (or ones with 'trailing_bits') and reported as zero.
 8. MP_REACH `{'afi_safi': (afi, safi), 'nexthop': ..., 'nlri': [...]}`; afi_safi is decoded as a tuple
    (mpreachnlri.py:95).  'nexthop' is '' for a zero-length next hop (mpreachnlri.py:111, :132), an
    address string, or `{'rd': '0:0', 'str': ip}` for VPN (mpreachnlri.py:103).  IPv6 unicast adds
    'linklocal_nexthop' only when present (mpreachnlri.py:160-163).
 9. IPv6 text: RFC 5952 (lower case, longest zero run compressed); addresses in ::ffff:0:0/96 use the
    mixed form '::ffff:a.b.c.d' as in tests/unit/message/attribute/test_mpreachnlri.py:49.  All other
    addresses, including those below 2^32, are pure hex ('::1', '::102:304').  Use canon_text() on the
    decoder's strings so that a different-but-equivalent rendering is not reported.
10. Labeled unicast `{'prefix': p, 'label': [l...]}`, VPN `{'label': [l...], 'rd': text, 'prefix': p}`
    (labeled_unicast/__init__.py:84, mpls_vpn.py:80-95); add-path adds 'path_id'.  Label octets:
    label << 4, bottom-of-stack bit on the last one, also for label 0 (RFC 8277 2.2/2.3).
11. Withdrawn labeled / VPN routes: one label field 0x800000 whatever 'label' says (RFC 8277 2.4); the
    decoder documents `'label': [524288]` for VPN (mpls_vpn.py:84, tests/.../test_mpunreachnlri.py:36).
    yabgp has no decoder branch for labeled-unicast withdrawals; by analogy expected() says
    `{'prefix': p, 'label': [524288]}`.  UNSURE.
12. RD text -> type (mpls_vpn.py:175-187): 'a.b.c.d:n' -> 1, AS > 65535 -> 2, else 0.  A type-2 RD with
    AS <= 65535 therefore has no text form of its own; pools never generate it.
13. EVPN `{'type': t, 'value': {...}}` (evpn.py:59-62).  Keys per type as the decoders emit them
    (evpn.py:262-272, 311-334, 374-386, 418-430, 468-501).  'ip' is omitted when absent.  MAC text
    'AA-BB-CC-DD-EE-FF' (netaddr default, test_evpn.py:215).  ESI `{'type': t, 'value': v}`: type 0 ->
    v = 9-octet integer; 1 -> ce_mac_addr, ce_port_key; 2 -> rb_mac_addr, rb_priority; 3 ->
    sys_mac_addr, ld_value (3 octets); 4 -> router_id (int), ld_value; 5 -> as_num, ld_value
    (evpn.py:155-190).  Route type 5 is *constructed* from a bare number for 'esi' (evpn.py:507,
    test_evpn.py:167) but *decoded* to the dict form: the reference accepts both, a bare integer n meaning
    ESI type 0 with value n, and expected() always reports the dict.  Type-5 'prefix' is reported with the
    full address field as sent (test_evpn.py:190 '2001:3232::1/64').
    EVPN label fields: label << 4 with the low bit set on the last label of the route (RFC 7432 defines
    only the high-order 20 bits; the decoder, evpn.py:271/333 via nlri/__init__.py:55-63, takes the low
    bit as end-of-stack, and test_mpreachnlri.py:189 uses 00 00 01 for label 0).
14. Flowspec rule `{component: text}`; keys int (or decimal strings, ipv4_flowspec.py:81), decoded with
    int keys.  Components 1, 2: 'a.b.c.d/len'.  Others: terms joined by '|' (OR) and '&' (AND with the
    previous term), each term = any of '>', '<', '=' followed by a decimal value; the decoder prints
    '>' then '<' then '=' (ipv4_flowspec.py:229-244).  Components 9 and 12 (bitmask operands, RFC 8955
    4.2.1.2) use the same text, '>' standing for the NOT bit (0x02) and '=' for the match bit (0x01),
    which is how ipv4_flowspec.py:65-66 reads them (test_ipv4_flowspec.py:32 `9: '=40'`).
    Values take the smallest of 1/2/4/8 octets.  Components are written in ascending type order
    (RFC 8955 4.2).  Rule length: 1 octet below 240, else 0xF000 | length (RFC 8955 4.1).
15. Update.parse reports `attr` as a dict ({} when there are no attributes), `nlri` / `withdraw` as lists.
"""
import functools
import ipaddress
import struct

from vf.ref.wire import frame, UPDATE

__all__ = ['OutOfRange', 'Malformed', 'afi_add_path', 'encode_attr', 'encode_update', 'encode_body', 'expected', 'in_range',
           'decode_update', 'ext_community_from_text', 'ext_community_bytes', 'ext_community_text',
           'ext_community_to_text', 'canon_text']


class OutOfRange(ValueError):
    """A field does not fit the width the RFC gives it, or the value has no well-formed encoding."""


# ================================================================== small helpers
def _uint(v, bits, what):
    if isinstance(v, bool) or not isinstance(v, int):
        raise OutOfRange('%s: not an integer: %r' % (what, v))
    if v < 0 or v >> bits:
        raise OutOfRange('%s=%d does not fit %d bits' % (what, v, bits))
    return v


def _int_text(s, what):
    if isinstance(s, bool):
        raise OutOfRange('%s: not a number: %r' % (what, s))
    if isinstance(s, int):
        return s
    if not isinstance(s, str) or not s.strip().isdigit():
        raise OutOfRange('%s: not a decimal number: %r' % (what, s))
    return int(s.strip())


@functools.lru_cache(maxsize=1 << 16)
def _packed(version, text):
    # only text is accepted: ipaddress would also take integers and packed bytes
    if not isinstance(text, str):
        raise TypeError(text)
    return (ipaddress.IPv4Address(text) if version == 4 else ipaddress.IPv6Address(text)).packed


def _ip4(text, what='IPv4 address'):
    try:
        return _packed(4, text)
    except (ipaddress.AddressValueError, ValueError, TypeError):
        raise OutOfRange('%s: not an IPv4 address: %r' % (what, text))


def _ip6(text, what='IPv6 address'):
    try:
        return _packed(6, text)
    except (ipaddress.AddressValueError, ValueError, TypeError):
        raise OutOfRange('%s: not an IPv6 address: %r' % (what, text))


def _ip_any(text, what='address'):
    if isinstance(text, str) and ':' in text:
        return _ip6(text, what)
    return _ip4(text, what)


def ip4_text(b):
    return '%d.%d.%d.%d' % tuple(b)


@functools.lru_cache(maxsize=1 << 16)
def ip6_text(b):
    v = int.from_bytes(b, 'big')
    if v >> 32 == 0xffff:
        return '::ffff:' + ip4_text(b[12:])
    return ipaddress.IPv6Address(v).compressed


def ip_text(b):
    return ip4_text(b) if len(b) == 4 else ip6_text(b)


def canon_text(s):
    """Canonicalise a string iff it is an IPv6 address or IPv6 prefix; anything else is returned
    unchanged.  No other yabgp text form (communities, RDs, MACs, flowspec terms) parses as IPv6."""
    if not isinstance(s, str) or ':' not in s:
        return s
    addr, sep, plen = s.partition('/')
    try:
        b = ipaddress.IPv6Address(addr).packed
    except (ipaddress.AddressValueError, ValueError):
        return s
    if sep and not plen.isdigit():
        return s
    return ip6_text(b) + (('/' + str(int(plen))) if sep else '')


def _mac(text, what='MAC'):
    parts = text.split('-') if isinstance(text, str) else []
    if len(parts) != 6:
        raise OutOfRange('%s: not AA-BB-CC-DD-EE-FF: %r' % (what, text))
    try:
        vals = [int(p, 16) for p in parts]
    except ValueError:
        raise OutOfRange('%s: not AA-BB-CC-DD-EE-FF: %r' % (what, text))
    if any(len(p) not in (1, 2) for p in parts):
        raise OutOfRange('%s: not AA-BB-CC-DD-EE-FF: %r' % (what, text))
    return bytes(vals)


def mac_text(b):
    return '-'.join('%02X' % x for x in b)


def _opt(opts, key, default=None):
    return (opts or {}).get(key, default)


PREFIX_FAMILIES = ((1, 1), (2, 1), (1, 4), (2, 4), (1, 128), (2, 128))


def afi_add_path(add_path):
    """The `afi_add_path` dict Update.parse takes ({'ipv4': True, 'vpnv6': True, ...}) for an add_path
    argument of this module (names as in FAMILIES, which are those of yabgp's AFI_SAFI_DICT)."""
    return dict((FAMILIES[f], True) for f in PREFIX_FAMILIES if _addpath_on(add_path, *f))


def _addpath_on(add_path, afi, safi):
    if not add_path:
        return False
    if add_path is True:
        return (afi, safi) in PREFIX_FAMILIES
    return (afi, safi) in set(tuple(x) for x in add_path)


def _trailing(opts, version, plain=False):
    t = _opt(opts, 'trailing_bits', False)
    return t is True or t == ('v%d' % version) or (t == 'ipv4-unicast' and version == 4 and plain)


# ================================================================== prefixes
def _split_prefix(text, version):
    if not isinstance(text, str) or text.count('/') != 1:
        raise OutOfRange('not a prefix: %r' % (text,))
    addr, plen = text.split('/')
    if not plen.isdigit():
        raise OutOfRange('prefix length not a number: %r' % (text,))
    plen = int(plen)
    maxlen = 32 if version == 4 else 128
    if plen > maxlen:
        raise OutOfRange('prefix length %d > %d' % (plen, maxlen))
    raw = _ip4(addr, 'prefix') if version == 4 else _ip6(addr, 'prefix')
    return raw, plen


def _prefix_octets(raw, plen, trailing):
    """RFC 4271 4.3: ceil(len / 8) octets; the bits after `plen` are irrelevant."""
    n = (plen + 7) // 8
    out = bytearray(raw[:n])
    rem = plen % 8
    if rem:
        low = 0xff >> rem
        out[-1] &= 0xff ^ low
        if trailing:
            out[-1] |= low
    return bytes(out)


def _masked(raw, plen):
    n = (plen + 7) // 8
    return _prefix_octets(raw, plen, False) + bytes(len(raw) - n)


def encode_prefix4(text, trailing=False):
    raw, plen = _split_prefix(text, 4)
    return bytes([plen]) + _prefix_octets(raw, plen, trailing)


def encode_prefix6(text, trailing=False):
    raw, plen = _split_prefix(text, 6)
    return bytes([plen]) + _prefix_octets(raw, plen, trailing)


def prefix_text(raw, plen):
    """Text of a masked prefix; `raw` is the full-width address."""
    return ip_text(_masked(raw, plen)) + '/%d' % plen


def _canon_prefix(text, version):
    raw, plen = _split_prefix(text, version)
    return prefix_text(raw, plen)


def _entry(item, on, opts, what='prefix entry'):
    """Split an NLRI entry into (path_id or None, the entry itself)."""
    if isinstance(item, dict) and 'path_id' in item:
        if not on:
            raise OutOfRange('%s carries a path_id but add-path is off' % what)
        return _uint(item['path_id'], 32, 'path_id'), item
    if on:
        return _uint(_opt(opts, 'path_id', 1), 32, 'path_id'), item
    return None, item


def _pid_bytes(pid):
    return b'' if pid is None else struct.pack('!I', pid)


def _plain_prefix(item):
    if isinstance(item, dict):
        if 'prefix' not in item:
            raise OutOfRange('prefix entry without "prefix": %r' % (item,))
        return item['prefix']
    return item


def encode_prefix_list(items, version, on, opts):
    out = b''
    for item in items:
        pid, item = _entry(item, on, opts)
        raw, plen = _split_prefix(_plain_prefix(item), version)
        out += _pid_bytes(pid) + bytes([plen]) + _prefix_octets(raw, plen, _trailing(opts, version, True))
    return out


def expected_prefix_list(items, version, on, opts):
    out = []
    for item in items:
        pid, item = _entry(item, on, opts)
        text = _canon_prefix(_plain_prefix(item), version)
        out.append(text if pid is None else {'prefix': text, 'path_id': pid})
    return out


# ================================================================== labels, RD
WITHDRAW_LABEL = b'\x80\x00\x00'
WITHDRAW_LABEL_VALUE = 0x800000 >> 4  # 524288, what a decoder shifting by 4 reports


def encode_labels(labels, tc=0):
    """RFC 8277 / RFC 3032: 20-bit label, 3 bits traffic class (sent as 0, ignored on receipt; `tc` sets them for the
    legal-variant checks), bottom-of-stack bit on the last entry."""
    if not isinstance(labels, (list, tuple)) or not labels:
        raise OutOfRange('label stack must be a non-empty list: %r' % (labels,))
    out = b''
    for i, lab in enumerate(labels):
        _uint(lab, 20, 'label')
        out += struct.pack('!I', lab << 4 | (tc & 7) << 1 | (1 if i == len(labels) - 1 else 0))[1:]
    return out


def encode_rd(text):
    """RFC 4364 4.2.  Type chosen from the text as yabgp does (SHAPE DECISION 12)."""
    if not isinstance(text, str) or ':' not in text:
        raise OutOfRange('RD: not "admin:number": %r' % (text,))
    admin, num = text.rsplit(':', 1)
    num = _int_text(num, 'RD assigned number')
    if '.' in admin:
        return struct.pack('!H', 1) + _ip4(admin, 'RD administrator') + struct.pack('!H', _uint(num, 16, 'RD number'))
    asn = _int_text(admin, 'RD administrator')
    if asn <= 0xffff:
        return struct.pack('!HHI', 0, _uint(asn, 16, 'RD AS'), _uint(num, 32, 'RD number'))
    return struct.pack('!HIH', 2, _uint(asn, 32, 'RD AS'), _uint(num, 16, 'RD number'))


def rd_text(b):
    t = struct.unpack('!H', b[:2])[0]
    if t == 0:
        return '%d:%d' % struct.unpack('!HI', b[2:])
    if t == 1:
        return '%s:%d' % (ip4_text(b[2:6]), struct.unpack('!H', b[6:])[0])
    if t == 2:
        return '%d:%d' % struct.unpack('!IH', b[2:])
    return 'rd-type-%d:%s' % (t, b[2:].hex())


def _canon_rd(text):
    return rd_text(encode_rd(text))


# ================================================================== simple attributes
WELL_KNOWN_COMMUNITIES = (
    (0xFFFF0000, 'PLANNED_SHUT'), (0xFFFF0001, 'ACCEPT_OWN'), (0xFFFF0002, 'ROUTE_FILTER_TRANSLATED_v4'),
    (0xFFFF0003, 'ROUTE_FILTER_v4'), (0xFFFF0004, 'ROUTE_FILTER_TRANSLATED_v6'), (0xFFFF0005, 'ROUTE_FILTER_v6'),
    (0xFFFF029A, 'BLACKHOLE'), (0xFFFFFF01, 'NO_EXPORT'), (0xFFFFFF02, 'NO_ADVERTISE'),
    (0xFFFFFF03, 'NO_EXPORT_SUBCONFED'), (0xFFFFFF04, 'NOPEER'))
_WK_BY_NAME = dict((n.upper(), v) for v, n in WELL_KNOWN_COMMUNITIES)
_WK_BY_VALUE = dict(WELL_KNOWN_COMMUNITIES)


def community_value(text):
    if not isinstance(text, str):
        raise OutOfRange('community: not text: %r' % (text,))
    if text.upper() in _WK_BY_NAME:
        return _WK_BY_NAME[text.upper()]
    parts = text.split(':')
    if len(parts) != 2:
        raise OutOfRange('community: not "hi:lo" nor a well-known name: %r' % (text,))
    return _uint(_int_text(parts[0], 'community'), 16, 'community high') << 16 | \
        _uint(_int_text(parts[1], 'community'), 16, 'community low')


def community_text(v):
    return _WK_BY_VALUE.get(v, '%d:%d' % (v >> 16, v & 0xffff))


def _large(text):
    parts = text.split(':') if isinstance(text, str) else []
    if len(parts) != 3:
        raise OutOfRange('large community: not "g:l1:l2": %r' % (text,))
    return tuple(_uint(_int_text(p, 'large community'), 32, 'large community field') for p in parts)


def _segments(value, opts):
    if not isinstance(value, (list, tuple)):
        raise OutOfRange('AS_PATH: not a list: %r' % (value,))
    n = _opt(opts, 'split_aspath')
    out = []
    for seg in value:
        if not isinstance(seg, (list, tuple)) or len(seg) != 2 or not isinstance(seg[1], (list, tuple)):
            raise OutOfRange('AS_PATH segment: not (type, [asn...]): %r' % (seg,))
        t, asns = seg[0], list(seg[1])
        if t not in (1, 2, 3, 4):
            raise OutOfRange('AS_PATH segment type %r' % (t,))
        if n and t in (2, 3) and len(asns) > n:
            for i in range(0, len(asns), n):
                out.append((t, asns[i:i + n]))
        else:
            out.append((t, asns))
    return out


def _aspath_value(value, asn4, opts):
    width, fmt = (32, '!I') if asn4 else (16, '!H')
    out = b''
    for t, asns in _segments(value, opts):
        if len(asns) > 255:
            raise OutOfRange('AS_PATH segment of %d ASes (count field is one octet)' % len(asns))
        out += bytes([t, len(asns)]) + b''.join(struct.pack(fmt, _uint(a, width, 'ASN')) for a in asns)
    return out


def _aggregator_value(value, asn4):
    if not isinstance(value, (list, tuple)) or len(value) != 2:
        raise OutOfRange('AGGREGATOR: not (asn, ip): %r' % (value,))
    asn = _uint(value[0], 32 if asn4 else 16, 'aggregator ASN')
    return struct.pack('!I' if asn4 else '!H', asn) + _ip4(value[1], 'aggregator address')


# ================================================================== extended communities
EC_RT0, EC_RT1, EC_RT2 = 0x0002, 0x0102, 0x0202
EC_RO0, EC_RO1, EC_RO2 = 0x0003, 0x0103, 0x0203
EC_REDIRECT_NH, EC_RATE, EC_ACTION, EC_REDIRECT_VRF, EC_MARK = 0x0800, 0x8006, 0x8007, 0x8008, 0x8009
EC_COLOR, EC_ENCAP = 0x030b, 0x030c
EC_COLOR_CO = {0x030b0000: 0, 0x030b4000: 1, 0x030b8000: 2, 0x030bc000: 3}
EC_MAC_MOBIL, EC_ESI_LABEL, EC_ES_IMPORT, EC_ROUTER_MAC = 0x0600, 0x0601, 0x0602, 0x0603
EC_LINK_BW = 0x4004
_EC_TWO_PART = {EC_RT0: ('route-target', 16, 32), EC_RT2: ('route-target', 32, 16),
                EC_RO0: ('route-origin', 16, 32), EC_RO2: ('route-origin', 32, 16),
                EC_REDIRECT_VRF: ('redirect-vrf', 16, 32), EC_LINK_BW: ('dmzlink-bw', 16, 32)}
_EC_IP_PART = {EC_RT1: 'route-target', EC_RO1: 'route-origin'}
_CO_NAME = {0: 'color', 1: 'color-01', 2: 'color-10', 3: 'color-11'}


def _f32(x):
    try:
        return struct.unpack('!f', struct.pack('!f', x))[0]
    except (OverflowError, struct.error):
        raise OutOfRange('traffic-rate %r does not fit an IEEE single' % (x,))


def _ec_parse(item):
    """Normalise an encode-shape item into (code, fields...) with integer / bytes fields."""
    if not isinstance(item, (list, tuple)) or len(item) < 2:
        raise OutOfRange('extended community: not [code, value(, extra)]: %r' % (item,))
    code = item[0]
    if code in _EC_TWO_PART:
        name, wa, wn = _EC_TWO_PART[code]
        if not isinstance(item[1], str) or item[1].count(':') != 1:
            raise OutOfRange('%s: not "asn:n": %r' % (name, item[1]))
        a, n = item[1].split(':')
        return code, _uint(_int_text(a, name), wa, name + ' administrator'), _uint(_int_text(n, name), wn, name + ' number')
    if code in _EC_IP_PART:
        name = _EC_IP_PART[code]
        if not isinstance(item[1], str) or item[1].count(':') != 1:
            raise OutOfRange('%s: not "ip:n": %r' % (name, item[1]))
        a, n = item[1].split(':')
        return code, _ip4(a, name + ' administrator'), _uint(_int_text(n, name), 16, name + ' number')
    if code == EC_REDIRECT_NH:
        if len(item) < 3:
            raise OutOfRange('redirect-nexthop: not [code, ip, flag]')
        return code, _ip4(item[1], 'redirect-nexthop'), _uint(item[2], 16, 'redirect-nexthop copy flag')
    if code == EC_RATE:
        if not isinstance(item[1], str) or item[1].count(':') != 1:
            raise OutOfRange('traffic-rate: not "asn:rate": %r' % (item[1],))
        a, r = item[1].split(':')
        rate = _int_text(r, 'traffic-rate')
        return code, _uint(_int_text(a, 'traffic-rate'), 16, 'traffic-rate AS'), _f32(rate)
    if code == EC_ACTION:
        if not isinstance(item[1], dict):
            raise OutOfRange('traffic-action: not {"s":..,"t":..}: %r' % (item[1],))
        return code, _uint(item[1].get('s', 0), 1, 'traffic-action S'), _uint(item[1].get('t', 0), 1, 'traffic-action T')
    if code == EC_MARK:
        return code, _uint(item[1], 6, 'DSCP')
    if code == EC_COLOR:
        return code, 0, _uint(_int_text(item[1], 'color'), 32, 'color')
    if code in EC_COLOR_CO:
        return EC_COLOR, EC_COLOR_CO[code], _uint(_int_text(item[1], 'color'), 32, 'color')
    if code == EC_ENCAP:
        return code, _uint(_int_text(item[1], 'encapsulation'), 16, 'tunnel type')
    if code in (EC_ES_IMPORT, EC_ROUTER_MAC):
        return code, _mac(item[1])
    if code == EC_MAC_MOBIL:
        if len(item) < 3:
            raise OutOfRange('mac-mobility: not [code, flags, seq]')
        return code, _uint(item[1], 8, 'mac-mobility flags'), _uint(item[2], 32, 'mac-mobility sequence')
    if code == EC_ESI_LABEL:
        if len(item) < 3:
            raise OutOfRange('esi-label: not [code, flags, label]')
        return code, _uint(item[1], 8, 'esi-label flags'), _uint(item[2], 20, 'esi-label label')
    raise OutOfRange('extended community kind %r has no defined encoding here' % (code,))


def ext_community_bytes(item):
    """8 octets for one encode-shape item `[code, value(, extra)]`."""
    p = _ec_parse(item)
    code = p[0]
    head = struct.pack('!H', code)
    if code in _EC_TWO_PART:
        wa = _EC_TWO_PART[code][1]
        return head + struct.pack('!HI' if wa == 16 else '!IH', p[1], p[2])
    if code in _EC_IP_PART or code == EC_REDIRECT_NH:
        return head + p[1] + struct.pack('!H', p[2])
    if code == EC_RATE:
        return head + struct.pack('!Hf', p[1], p[2])
    if code == EC_ACTION:
        return head + bytes(5) + bytes([p[1] << 1 | p[2]])
    if code == EC_MARK:
        return head + bytes(5) + bytes([p[1]])
    if code == EC_COLOR:
        return head + struct.pack('!HI', p[1] << 14, p[2])
    if code == EC_ENCAP:
        return head + bytes(4) + struct.pack('!H', p[1])
    if code in (EC_ES_IMPORT, EC_ROUTER_MAC):
        return head + p[1]
    if code == EC_MAC_MOBIL:
        return head + bytes([p[1], 0]) + struct.pack('!I', p[2])
    if code == EC_ESI_LABEL:
        return head + bytes([p[1], 0, 0]) + struct.pack('!I', p[2] << 4 | 1)[1:]
    raise AssertionError(code)


def ext_community_text(item):
    """Decoder text form of one encode-shape item (computed from the item, not from its bytes)."""
    p = _ec_parse(item)
    code = p[0]
    if code in _EC_TWO_PART:
        return '%s:%d:%d' % (_EC_TWO_PART[code][0], p[1], p[2])
    if code in _EC_IP_PART:
        return '%s:%s:%d' % (_EC_IP_PART[code], ip4_text(p[1]), p[2])
    if code == EC_REDIRECT_NH:
        return 'redirect-nexthop:%s:%d' % (ip4_text(p[1]), p[2])
    if code == EC_RATE:
        return 'traffic-rate:%d:%d' % (p[1], int(p[2]))
    if code == EC_ACTION:
        return 'traffic-action:S:%d,T:%d' % (p[1], p[2])
    if code == EC_MARK:
        return 'traffic-marking-dscp:%d' % p[1]
    if code == EC_COLOR:
        return '%s:%d' % (_CO_NAME[p[1]], p[2])
    if code == EC_ENCAP:
        return 'encapsulation:%d' % p[1]
    if code == EC_ES_IMPORT:
        return 'es-import:' + mac_text(p[1])
    if code == EC_ROUTER_MAC:
        return 'router-mac:' + mac_text(p[1])
    if code == EC_MAC_MOBIL:
        return 'mac-mobility:%d:%d' % (p[1], p[2])
    if code == EC_ESI_LABEL:
        return 'esi-label:%d:%d' % (p[1], p[2])
    raise AssertionError(code)


def ext_community_item_from_text(text):
    """Decoder text form -> encode-shape item (the mapping of api/v1.py:139-217)."""
    if not isinstance(text, str) or ':' not in text:
        raise OutOfRange('extended community text: %r' % (text,))
    key, value = text.split(':', 1)
    key = key.strip().lower()
    value = value.strip()
    if key in ('route-target', 'route-origin'):
        base = 0x0002 if key == 'route-target' else 0x0003
        admin = value.rsplit(':', 1)[0]
        if '.' in admin:
            return [base | 0x0100, value]
        return [base | (0x0000 if _int_text(admin, key) <= 0xffff else 0x0200), value]
    if key == 'dmzlink-bw':
        return [EC_LINK_BW, value]
    if key == 'redirect-vrf':
        return [EC_REDIRECT_VRF, value]
    if key == 'redirect-nexthop':
        ip, _, flag = value.rpartition(':')
        return [EC_REDIRECT_NH, ip, _int_text(flag, key)]
    if key == 'traffic-rate':
        return [EC_RATE, value]
    if key == 'traffic-action':
        d = {}
        for part in value.lower().split(','):
            k, _, v = part.strip().partition(':')
            if k not in ('s', 't'):
                raise OutOfRange('traffic-action text: %r' % (text,))
            d[k] = _int_text(v, key)
        return [EC_ACTION, d]
    if key == 'traffic-marking-dscp':
        return [EC_MARK, _int_text(value, key)]
    if key == 'color':
        return [EC_COLOR, _int_text(value, key)]
    if key in ('color-00', 'color-01', 'color-10', 'color-11'):
        return [0x030b0000 | int(key[-2:], 2) << 14, _int_text(value, key)]
    if key == 'encapsulation':
        return [EC_ENCAP, _int_text(value, key)]
    if key == 'es-import':
        return [EC_ES_IMPORT, value]
    if key == 'router-mac':
        return [EC_ROUTER_MAC, value]
    if key in ('mac-mobility', 'esi-label'):
        a, _, b = value.partition(':')
        return [EC_MAC_MOBIL if key == 'mac-mobility' else EC_ESI_LABEL, _int_text(a, key), _int_text(b, key)]
    raise OutOfRange('extended community text of unknown kind: %r' % (text,))


def ext_community_from_text(text):
    """8 octets for the decoder's text form, e.g. 'route-target:65000:1'."""
    return ext_community_bytes(ext_community_item_from_text(text))


def ext_community_to_text(b):
    """Text form of 8 octets (reference decoder); unknown kinds -> 'unknown:<hex>'."""
    code = struct.unpack('!H', b[:2])[0]
    v = b[2:]
    if code in _EC_TWO_PART:
        name, wa, _ = _EC_TWO_PART[code]
        return '%s:%d:%d' % ((name,) + struct.unpack('!HI' if wa == 16 else '!IH', v))
    if code in _EC_IP_PART:
        return '%s:%s:%d' % (_EC_IP_PART[code], ip4_text(v[:4]), struct.unpack('!H', v[4:])[0])
    if code == EC_REDIRECT_NH:
        return 'redirect-nexthop:%s:%d' % (ip4_text(v[:4]), struct.unpack('!H', v[4:])[0])
    if code == EC_RATE:
        asn, rate = struct.unpack('!Hf', v)
        return 'traffic-rate:%d:%d' % (asn, int(rate))
    if code == EC_ACTION:
        return 'traffic-action:S:%d,T:%d' % (v[5] >> 1 & 1, v[5] & 1)
    if code == EC_MARK:
        return 'traffic-marking-dscp:%d' % (v[5] & 0x3f)
    if code == EC_COLOR:
        flags, n = struct.unpack('!HI', v)
        return '%s:%d' % (_CO_NAME[flags >> 14], n)
    if code == EC_ENCAP:
        return 'encapsulation:%d' % struct.unpack('!H', v[4:])[0]
    if code == EC_ES_IMPORT:
        return 'es-import:' + mac_text(v)
    if code == EC_ROUTER_MAC:
        return 'router-mac:' + mac_text(v)
    if code == EC_MAC_MOBIL:
        return 'mac-mobility:%d:%d' % (v[0], struct.unpack('!I', v[2:])[0])
    if code == EC_ESI_LABEL:
        return 'esi-label:%d:%d' % (v[0], int.from_bytes(v[3:], 'big') >> 4)
    return 'unknown:' + b.hex()


# ================================================================== EVPN
def encode_esi(esi):
    """RFC 7432 section 5: 1 type octet + 9 value octets."""
    if isinstance(esi, int) and not isinstance(esi, bool):
        esi = {'type': 0, 'value': esi}
    if not isinstance(esi, dict) or 'type' not in esi or 'value' not in esi:
        raise OutOfRange('ESI: not {"type", "value"}: %r' % (esi,))
    t, v = esi['type'], esi['value']
    if t == 0:
        return b'\x00' + _uint(v, 72, 'ESI value').to_bytes(9, 'big')
    if not isinstance(v, dict):
        raise OutOfRange('ESI type %r value must be a dict' % (t,))
    try:
        if t == 1:
            return b'\x01' + _mac(v['ce_mac_addr']) + struct.pack('!H', _uint(v['ce_port_key'], 16, 'ESI port key')) + b'\x00'
        if t == 2:
            return b'\x02' + _mac(v['rb_mac_addr']) + struct.pack('!H', _uint(v['rb_priority'], 16, 'ESI priority')) + b'\x00'
        if t == 3:
            return b'\x03' + _mac(v['sys_mac_addr']) + _uint(v['ld_value'], 24, 'ESI discriminator').to_bytes(3, 'big')
        if t == 4:
            return b'\x04' + struct.pack('!II', _uint(v['router_id'], 32, 'ESI router id'),
                                         _uint(v['ld_value'], 32, 'ESI discriminator')) + b'\x00'
        if t == 5:
            return b'\x05' + struct.pack('!II', _uint(v['as_num'], 32, 'ESI AS'),
                                         _uint(v['ld_value'], 32, 'ESI discriminator')) + b'\x00'
    except KeyError as e:
        raise OutOfRange('ESI type %d lacks %s' % (t, e))
    raise OutOfRange('ESI type %r' % (t,))


def expected_esi(esi, check=True):
    if check:
        encode_esi(esi)  # validates
    if isinstance(esi, int):
        return {'type': 0, 'value': esi}
    t, v = esi['type'], esi['value']
    if t == 0:
        return {'type': 0, 'value': v}
    if t == 1:
        return {'type': 1, 'value': {'ce_mac_addr': mac_text(_mac(v['ce_mac_addr'])), 'ce_port_key': v['ce_port_key']}}
    if t == 2:
        return {'type': 2, 'value': {'rb_mac_addr': mac_text(_mac(v['rb_mac_addr'])), 'rb_priority': v['rb_priority']}}
    if t == 3:
        return {'type': 3, 'value': {'sys_mac_addr': mac_text(_mac(v['sys_mac_addr'])), 'ld_value': v['ld_value']}}
    if t == 4:
        return {'type': 4, 'value': {'router_id': v['router_id'], 'ld_value': v['ld_value']}}
    assert t == 5
    return {'type': 5, 'value': {'as_num': v['as_num'], 'ld_value': v['ld_value']}}


def esi_value(b):
    t = b[0]
    if t == 0:
        return {'type': 0, 'value': int.from_bytes(b[1:], 'big')}
    if t == 1:
        return {'type': 1, 'value': {'ce_mac_addr': mac_text(b[1:7]), 'ce_port_key': struct.unpack('!H', b[7:9])[0]}}
    if t == 2:
        return {'type': 2, 'value': {'rb_mac_addr': mac_text(b[1:7]), 'rb_priority': struct.unpack('!H', b[7:9])[0]}}
    if t == 3:
        return {'type': 3, 'value': {'sys_mac_addr': mac_text(b[1:7]), 'ld_value': int.from_bytes(b[7:10], 'big')}}
    if t == 4:
        return {'type': 4, 'value': {'router_id': struct.unpack('!I', b[1:5])[0], 'ld_value': struct.unpack('!I', b[5:9])[0]}}
    if t == 5:
        return {'type': 5, 'value': {'as_num': struct.unpack('!I', b[1:5])[0], 'ld_value': struct.unpack('!I', b[5:9])[0]}}
    return {'type': t, 'value': b[1:].hex()}


def _evpn_ip(v, required):
    ip = v.get('ip')
    if not ip:
        if required:
            raise OutOfRange('EVPN route needs an originating router address (RFC 7432 7.3 / 7.4)')
        return b'\x00'
    raw = _ip_any(ip, 'EVPN ip')
    return bytes([len(raw) * 8]) + raw


def _need(v, keys, what):
    if not isinstance(v, dict):
        raise OutOfRange('%s: value is not a dict' % what)
    for k in keys:
        if k not in v:
            raise OutOfRange('%s lacks %r' % (what, k))


def encode_evpn_route(route):
    """RFC 7432 section 7 (types 1-4), RFC 9136 3.1 (type 5): type, length, value."""
    _need(route, ('type', 'value'), 'EVPN route')
    t, v = route['type'], route['value']
    if t == 1:
        _need(v, ('rd', 'esi', 'eth_tag_id', 'label'), 'EVPN type 1')
        if len(v['label']) != 1:
            raise OutOfRange('EVPN type 1 has exactly one label field')
        body = encode_rd(v['rd']) + encode_esi(v['esi']) + struct.pack('!I', _uint(v['eth_tag_id'], 32, 'ethernet tag')) + \
            encode_labels(v['label'])
    elif t == 2:
        _need(v, ('rd', 'esi', 'eth_tag_id', 'mac', 'label'), 'EVPN type 2')
        if not 1 <= len(v['label']) <= 2:
            raise OutOfRange('EVPN type 2 has one or two label fields')
        body = encode_rd(v['rd']) + encode_esi(v['esi']) + struct.pack('!I', _uint(v['eth_tag_id'], 32, 'ethernet tag')) + \
            b'\x30' + _mac(v['mac']) + _evpn_ip(v, False) + encode_labels(v['label'])
    elif t == 3:
        _need(v, ('rd', 'eth_tag_id'), 'EVPN type 3')
        body = encode_rd(v['rd']) + struct.pack('!I', _uint(v['eth_tag_id'], 32, 'ethernet tag')) + _evpn_ip(v, True)
    elif t == 4:
        _need(v, ('rd', 'esi'), 'EVPN type 4')
        body = encode_rd(v['rd']) + encode_esi(v['esi']) + _evpn_ip(v, True)
    elif t == 5:
        _need(v, ('rd', 'esi', 'eth_tag_id', 'prefix', 'gateway', 'label'), 'EVPN type 5')
        if len(v['label']) != 1:
            raise OutOfRange('EVPN type 5 has exactly one label field')
        if not isinstance(v['prefix'], str) or v['prefix'].count('/') != 1:
            raise OutOfRange('EVPN type 5 prefix: %r' % (v['prefix'],))
        addr, plen = v['prefix'].split('/')
        raw = _ip_any(addr, 'EVPN prefix')
        gw = _ip_any(v['gateway'], 'EVPN gateway')
        if len(gw) != len(raw):
            raise OutOfRange('EVPN type 5 prefix and gateway of different families')
        plen = _int_text(plen, 'EVPN prefix length')
        if plen > len(raw) * 8:
            raise OutOfRange('EVPN prefix length %d' % plen)
        body = encode_rd(v['rd']) + encode_esi(v['esi']) + struct.pack('!I', _uint(v['eth_tag_id'], 32, 'ethernet tag')) + \
            bytes([plen]) + raw + gw + encode_labels(v['label'])
    else:
        raise OutOfRange('EVPN route type %r' % (t,))
    return bytes([t, len(body)]) + body


def expected_evpn_route(route, check=True):
    if check:
        encode_evpn_route(route)  # validates
    t, v = route['type'], route['value']
    out = {'rd': _canon_rd(v['rd'])}
    if t in (1, 2, 4, 5):
        out['esi'] = expected_esi(v['esi'], False)
    if t in (1, 2, 3, 5):
        out['eth_tag_id'] = v['eth_tag_id']
    if t == 2:
        out['mac'] = mac_text(_mac(v['mac']))
    if t in (2, 3, 4) and v.get('ip'):
        out['ip'] = ip_text(_ip_any(v['ip']))
    if t == 5:
        addr, plen = v['prefix'].split('/')
        out['prefix'] = '%s/%d' % (ip_text(_ip_any(addr)), int(plen))
        out['gateway'] = ip_text(_ip_any(v['gateway']))
    if t in (1, 2, 5):
        out['label'] = list(v['label'])
    return {'type': t, 'value': out}


# ================================================================== flowspec (IPv4)
FS_PREFIX = (1, 2)


def _fs_terms(text):
    """Text -> [(and_bit, gt, lt, eq, value)...]."""
    if not isinstance(text, str) or not text:
        raise OutOfRange('flowspec operators: %r' % (text,))
    terms = []
    for group in text.split('|'):
        for i, term in enumerate(group.split('&')):
            j = 0
            while j < len(term) and term[j] in '<>=':
                j += 1
            ops, num = term[:j], term[j:]
            if not num.isdigit() or len(set(ops)) != len(ops):
                raise OutOfRange('flowspec term %r in %r' % (term, text))
            terms.append((1 if i else 0, int('>' in ops), int('<' in ops), int('=' in ops), int(num)))
    return terms


def flowspec_ops(text):
    """RFC 8955 4.2.1.1: operator octet e | a | len(2) | 0 | lt | gt | eq, then the value."""
    out = b''
    terms = _fs_terms(text)
    for k, (a, gt, lt, eq, val) in enumerate(terms):
        for lenbits, width in enumerate((1, 2, 4, 8)):
            if val < 1 << (8 * width):
                break
        else:
            raise OutOfRange('flowspec value %d needs more than 8 octets' % val)
        op = (0x80 if k == len(terms) - 1 else 0) | a << 6 | lenbits << 4 | lt << 2 | gt << 1 | eq
        out += bytes([op]) + val.to_bytes(width, 'big')
    return out


def flowspec_ops_text(terms):
    s = ''
    for a, gt, lt, eq, val in terms:
        s += '&' if a else ('|' if s else '')
        s += ('>' if gt else '') + ('<' if lt else '') + ('=' if eq else '') + str(val)
    return s


def _fs_items(rule):
    if not isinstance(rule, dict) or not rule:
        raise OutOfRange('flowspec rule: not a non-empty dict: %r' % (rule,))
    items = {}
    for k, v in rule.items():
        k = _int_text(k, 'flowspec component')
        if not 1 <= k <= 12:
            raise OutOfRange('flowspec component type %d' % k)
        if k in items:
            raise OutOfRange('flowspec component %d given twice' % k)
        items[k] = v
    return sorted(items.items())


def flowspec_rule(rule, opts=None):
    body = b''
    for k, v in _fs_items(rule):
        body += bytes([k]) + (encode_prefix4(v, _trailing(opts, 4)) if k in FS_PREFIX else flowspec_ops(v))
    if len(body) < 240:
        return bytes([len(body)]) + body
    if len(body) > 4095:
        raise OutOfRange('flowspec rule of %d octets' % len(body))
    return struct.pack('!H', 0xf000 | len(body)) + body


def expected_flowspec_rule(rule):
    return dict((k, _canon_prefix(v, 4) if k in FS_PREFIX else flowspec_ops_text(_fs_terms(v))) for k, v in _fs_items(rule))


# ================================================================== MP NLRI per family
FAMILIES = {(1, 1): 'ipv4', (2, 1): 'ipv6', (1, 4): 'ipv4_lu', (2, 4): 'ipv6_lu', (1, 128): 'vpnv4',
            (2, 128): 'vpnv6', (25, 70): 'evpn', (1, 133): 'flowspec'}


def _afi_version(afi):
    return 4 if afi == 1 else 6


def encode_nlri(afi, safi, items, withdraw=False, add_path=False, opts=None):
    """NLRI octets of one family.  `withdraw` selects the 0x800000 label of RFC 8277 2.4."""
    if (afi, safi) not in FAMILIES:
        raise OutOfRange('family (%r, %r) not covered by the reference' % (afi, safi))
    if not isinstance(items, (list, tuple)):
        raise OutOfRange('NLRI list expected, got %r' % (items,))
    on = _addpath_on(add_path, afi, safi)
    ver = _afi_version(afi)
    if safi == 1:
        return encode_prefix_list(items, ver, on, opts)
    out = b''
    if safi in (4, 128):
        for item in items:
            pid, item = _entry(item, on, opts, 'labeled entry')
            _need(item, ('prefix',) + (() if withdraw else ('label',)) + (('rd',) if safi == 128 else ()), 'labeled entry')
            labels = WITHDRAW_LABEL if withdraw else encode_labels(item['label'], (opts or {}).get('label_tc', 0))
            mid = labels + (encode_rd(item['rd']) if safi == 128 else b'')
            raw, plen = _split_prefix(item['prefix'], ver)
            bits = len(mid) * 8 + plen
            if bits > 255:
                raise OutOfRange('labeled NLRI of %d bits (length field is one octet)' % bits)
            out += _pid_bytes(pid) + bytes([bits]) + mid + _prefix_octets(raw, plen, _trailing(opts, ver))
        return out
    if (afi, safi) == (25, 70):
        return b''.join(encode_evpn_route(r) for r in items)
    return b''.join(flowspec_rule(r, opts) for r in items)


def expected_nlri(afi, safi, items, withdraw=False, add_path=False, opts=None, check=True):
    if check:
        encode_nlri(afi, safi, items, withdraw, add_path, opts)  # validates
    on = _addpath_on(add_path, afi, safi)
    ver = _afi_version(afi)
    if safi == 1:
        return expected_prefix_list(items, ver, on, opts)
    if safi in (4, 128):
        out = []
        for item in items:
            pid, item = _entry(item, on, opts)
            e = {'prefix': _canon_prefix(item['prefix'], ver),
                 'label': [WITHDRAW_LABEL_VALUE] if withdraw else list(item['label'])}
            if safi == 128:
                e['rd'] = _canon_rd(item['rd'])
            if pid is not None:
                e['path_id'] = pid
            out.append(e)
        return out
    if (afi, safi) == (25, 70):
        return [expected_evpn_route(r, False) for r in items]
    return [expected_flowspec_rule(r) for r in items]


def _nexthop(afi, safi, v):
    nh = v.get('nexthop')
    if safi == 128:
        _need(nh, ('rd', 'str'), 'VPN next hop')
        raw = _ip4(nh['str'], 'VPN next hop') if afi == 1 else _ip6(nh['str'], 'VPN next hop')
        return encode_rd(nh['rd']) + raw
    if (afi, safi) == (2, 1):
        raw = _ip6(nh, 'next hop')
        if v.get('linklocal_nexthop'):
            raw += _ip6(v['linklocal_nexthop'], 'link-local next hop')
        return raw
    if nh in ('', None):
        if safi != 133:
            raise OutOfRange('family (%d, %d) needs a next hop' % (afi, safi))
        return b''
    if (afi, safi) == (2, 4):
        return _ip6(nh, 'next hop')
    if afi == 25:
        return _ip_any(nh, 'next hop')
    return _ip4(nh, 'next hop')


def _expected_nexthop(afi, safi, v):
    raw = _nexthop(afi, safi, v)
    if safi == 128:
        return {'rd': rd_text(raw[:8]), 'str': ip_text(raw[8:])}
    if not raw:
        return ''
    return ip_text(raw[:16])


def _mp_reach_value(v, add_path, opts):
    _need(v, ('afi_safi', 'nexthop', 'nlri'), 'MP_REACH_NLRI')
    afi, safi = v['afi_safi']
    nh = _nexthop(afi, safi, v) if (afi, safi) in FAMILIES else b''
    nlri = encode_nlri(afi, safi, v['nlri'], False, add_path, opts)
    return struct.pack('!HBB', afi, safi, len(nh)) + nh + b'\x00' + nlri


def _mp_unreach_value(v, add_path, opts):
    _need(v, ('afi_safi', 'withdraw'), 'MP_UNREACH_NLRI')
    afi, safi = v['afi_safi']
    return struct.pack('!HB', afi, safi) + encode_nlri(afi, safi, v['withdraw'], True, add_path, opts)


# ================================================================== attributes
WELL_KNOWN, OPT_NONTRANS, OPT_TRANS, EXT_LEN = 0x40, 0x80, 0xC0, 0x10
ATTR_FLAGS = {1: WELL_KNOWN, 2: WELL_KNOWN, 3: WELL_KNOWN, 4: OPT_NONTRANS, 5: WELL_KNOWN, 6: WELL_KNOWN,
              7: OPT_TRANS, 8: OPT_TRANS, 9: OPT_NONTRANS, 10: OPT_NONTRANS, 14: OPT_NONTRANS, 15: OPT_NONTRANS,
              16: OPT_TRANS, 17: OPT_TRANS, 18: OPT_TRANS, 32: OPT_TRANS}
ATTR_NAME = {1: 'ORIGIN', 2: 'AS_PATH', 3: 'NEXT_HOP', 4: 'MED', 5: 'LOCAL_PREF', 6: 'ATOMIC_AGGREGATE',
             7: 'AGGREGATOR', 8: 'COMMUNITIES', 9: 'ORIGINATOR_ID', 10: 'CLUSTER_LIST', 14: 'MP_REACH_NLRI',
             15: 'MP_UNREACH_NLRI', 16: 'EXTENDED_COMMUNITIES', 17: 'AS4_PATH', 18: 'AS4_AGGREGATOR',
             32: 'LARGE_COMMUNITY'}


def _list(value, what):
    if not isinstance(value, (list, tuple)):
        raise OutOfRange('%s: not a list: %r' % (what, value))
    return value


def attr_value(code, value, asn4, add_path=False, opts=None):
    """The value octets of one path attribute."""
    if code == 1:
        if value not in (0, 1, 2) or isinstance(value, bool):
            raise OutOfRange('ORIGIN %r' % (value,))
        return bytes([value])
    if code == 2:
        return _aspath_value(value, asn4, opts)
    if code == 3:
        return _ip4(value, 'NEXT_HOP')
    if code in (4, 5):
        return struct.pack('!I', _uint(value, 32, ATTR_NAME[code]))
    if code == 6:
        if value:
            raise OutOfRange('ATOMIC_AGGREGATE carries no value: %r' % (value,))
        return b''
    if code == 7:
        return _aggregator_value(value, asn4)
    if code == 8:
        return b''.join(struct.pack('!I', community_value(c)) for c in _list(value, 'COMMUNITIES'))
    if code == 9:
        return _ip4(value, 'ORIGINATOR_ID')
    if code == 10:
        return b''.join(_ip4(c, 'CLUSTER_LIST') for c in _list(value, 'CLUSTER_LIST'))
    if code == 14:
        return _mp_reach_value(value, add_path, opts)
    if code == 15:
        return _mp_unreach_value(value, add_path, opts)
    if code == 16:
        return b''.join(ext_community_bytes(i) for i in _list(value, 'EXTENDED_COMMUNITIES'))
    if code == 17:
        return _aspath_value(value, True, opts)
    if code == 18:
        return _aggregator_value(value, True)
    if code == 32:
        return b''.join(struct.pack('!III', *_large(c)) for c in _list(value, 'LARGE_COMMUNITY'))
    raise OutOfRange('attribute type %r not covered by the reference' % (code,))


def wrap_attr(flags, code, value, ext_len=False):
    """flags/type/length/value; the extended-length bit is set iff the length takes two octets."""
    if len(value) > 0xffff:
        raise OutOfRange('attribute %d value of %d octets' % (code, len(value)))
    if ext_len or len(value) > 255:
        return bytes([flags | EXT_LEN, code]) + struct.pack('!H', len(value)) + value
    return bytes([flags & ~EXT_LEN & 0xff, code, len(value)]) + value


def encode_attr(code, value, asn4, ext_len=False, *, add_path=False, opts=None):
    """One complete path attribute.  Flags by RFC category (ATTR_FLAGS)."""
    v = attr_value(code, value, asn4, add_path, opts)
    flags = ATTR_FLAGS[code]
    if code in (_opt(opts, 'partial') or ()) and flags & 0xC0 == 0xC0:
        flags |= 0x20          # Partial: legal on optional transitive attributes only (RFC 4271 4.3), meaningless to the value
    return wrap_attr(flags, code, v, ext_len)


def _attr_order(attr, opts):
    try:
        codes = sorted(attr)
    except TypeError:
        raise OutOfRange('attribute codes must be integers: %r' % (list(attr),))
    order = [c for c in (_opt(opts, 'order') or []) if c in attr]
    seen = set()
    order = [c for c in order if not (c in seen or seen.add(c))]
    return order + [c for c in codes if c not in seen]


def encode_body(msg, asn4=False, add_path=False, opts=None):
    """UPDATE body: withdrawn-routes length, withdrawn routes, total path attribute length, path
    attributes, NLRI (RFC 4271 4.3).  Withdrawn routes and attributes + NLRI may coexist."""
    if not isinstance(msg, dict):
        raise OutOfRange('message: not a dict')
    on4 = _addpath_on(add_path, 1, 1)
    withdraw = encode_prefix_list(msg.get('withdraw') or [], 4, on4, opts)
    nlri = encode_prefix_list(msg.get('nlri') or [], 4, on4, opts)
    attr = msg.get('attr') or {}
    if not isinstance(attr, dict):
        raise OutOfRange('attr: not a dict')
    forced = set(_opt(opts, 'ext_len') or ())
    attrs = b''
    for code in _attr_order(attr, opts):
        attrs += encode_attr(code, attr[code], asn4, code in forced, add_path=add_path, opts=opts)
    if len(withdraw) > 0xffff or len(attrs) > 0xffff:
        raise OutOfRange('withdrawn routes / path attributes longer than 65535 octets')
    body = struct.pack('!H', len(withdraw)) + withdraw + struct.pack('!H', len(attrs)) + attrs + nlri
    if 19 + len(body) > 4096:
        raise OutOfRange('message of %d octets exceeds 4096' % (19 + len(body)))
    return body


def encode_update(msg, asn4=False, add_path=False, opts=None):
    return frame(UPDATE, encode_body(msg, asn4, add_path, opts))


# ================================================================== expected decoded form
def expected_attr(code, value, asn4, add_path=False, opts=None, check=True):
    if check:
        attr_value(code, value, asn4, add_path, opts)  # validates (raises OutOfRange)
    if code in (1, 4, 5):
        return value
    if code in (2, 17):
        return [(t, list(a)) for t, a in _segments(value, opts)]
    if code in (3, 9):
        return ip4_text(_ip4(value))
    if code == 6:
        return ''
    if code in (7, 18):
        return (value[0], ip4_text(_ip4(value[1])))
    if code == 8:
        return [community_text(community_value(c)) for c in value]
    if code == 10:
        return [ip4_text(_ip4(c)) for c in value]
    if code == 16:
        return [ext_community_text(i) for i in value]
    if code == 32:
        return ['%d:%d:%d' % _large(c) for c in value]
    afi, safi = value['afi_safi']
    if code == 14:
        out = {'afi_safi': (afi, safi), 'nexthop': _expected_nexthop(afi, safi, value),
               'nlri': expected_nlri(afi, safi, value['nlri'], False, add_path, opts, False)}
        if (afi, safi) == (2, 1) and value.get('linklocal_nexthop'):
            out['linklocal_nexthop'] = ip6_text(_ip6(value['linklocal_nexthop']))
        return out
    assert code == 15
    return {'afi_safi': (afi, safi), 'withdraw': expected_nlri(afi, safi, value['withdraw'], True, add_path, opts, False)}


def expected(msg, asn4, add_path=False, opts=None):
    """What Update.parse is documented to return for the encoding of `msg` (keys attr/nlri/withdraw)."""
    encode_body(msg, asn4, add_path, opts)  # raises OutOfRange for an input without encoding
    on4 = _addpath_on(add_path, 1, 1)
    attr = msg.get('attr') or {}
    return {'attr': dict((c, expected_attr(c, v, asn4, add_path, opts, False)) for c, v in attr.items()),
            'nlri': expected_prefix_list(msg.get('nlri') or [], 4, on4, opts),
            'withdraw': expected_prefix_list(msg.get('withdraw') or [], 4, on4, opts)}


def in_range(msg, asn4, add_path=False, opts=None):
    """(True, '') iff every field fits the width the RFCs give it and the message fits 4096 octets.
    The range table *is* the encoder: each field is checked where it is packed (_uint widths)."""
    try:
        encode_body(msg, asn4, add_path, opts)
    except OutOfRange as e:
        return False, str(e)
    except (TypeError, KeyError, ValueError, AttributeError, IndexError, struct.error) as e:
        return False, 'shape: %s: %s' % (type(e).__name__, e)
    return True, ''


# ================================================================== independent decoder
class Malformed(ValueError):
    pass


def _take(buf, pos, n, what):
    if pos + n > len(buf):
        raise Malformed('%s: need %d octets at %d, have %d' % (what, n, pos, len(buf) - pos))
    return buf[pos:pos + n], pos + n


def _dec_prefixes(buf, version, on):
    """-> (neutral [(path_id, plen, full-width masked address)], shaped list)"""
    pos, raw_out, shaped = 0, [], []
    width = 4 if version == 4 else 16
    while pos < len(buf):
        pid = None
        if on:
            b, pos = _take(buf, pos, 4, 'path id')
            pid = struct.unpack('!I', b)[0]
        b, pos = _take(buf, pos, 1, 'prefix length')
        plen = b[0]
        if plen > width * 8:
            raise Malformed('prefix length %d' % plen)
        b, pos = _take(buf, pos, (plen + 7) // 8, 'prefix')
        full = _masked(b + bytes(width - len(b)), plen)
        raw_out.append((pid, plen, full))
        text = ip_text(full) + '/%d' % plen
        shaped.append(text if pid is None else {'prefix': text, 'path_id': pid})
    return raw_out, shaped


def _dec_labeled(buf, version, on, vpn, withdraw):
    pos, out = 0, []
    width = 4 if version == 4 else 16
    while pos < len(buf):
        e = {}
        if on:
            b, pos = _take(buf, pos, 4, 'path id')
            e['path_id'] = struct.unpack('!I', b)[0]
        b, pos = _take(buf, pos, 1, 'NLRI length')
        bits = b[0]
        body, pos = _take(buf, pos, (bits + 7) // 8, 'labeled NLRI')
        labels, p = [], 0
        while True:
            b, p = _take(body, p, 3, 'label')
            field = int.from_bytes(b, 'big')
            labels.append(field >> 4)
            if field & 1 or (withdraw and field in (0x800000, 0)):
                break
        e['label'] = labels
        if vpn:
            b, p = _take(body, p, 8, 'RD')
            e['rd'] = rd_text(b)
        plen = bits - 8 * p
        if plen < 0 or plen > width * 8 or (plen + 7) // 8 != len(body) - p:
            raise Malformed('labeled NLRI: %d bits, %d octets used by labels/RD' % (bits, p))
        e['prefix'] = ip_text(_masked(body[p:] + bytes(width - (len(body) - p)), plen)) + '/%d' % plen
        out.append(e)
    return out


def _dec_evpn(buf):
    pos, out = 0, []
    while pos < len(buf):
        hdr, pos = _take(buf, pos, 2, 'EVPN header')
        t = hdr[0]
        v, pos = _take(buf, pos, hdr[1], 'EVPN route')
        r, p = {}, 0

        def take(n, what):
            nonlocal p
            b, p = _take(v, p, n, what)
            return b

        def labels():
            ls = []
            while p < len(v):
                ls.append(int.from_bytes(take(3, 'label'), 'big') >> 4)
            return ls

        def ip(required):
            n = take(1, 'ip length')[0]
            if n not in ((32, 128) if required else (0, 32, 128)):
                raise Malformed('EVPN ip length %d' % n)
            if n:
                r['ip'] = ip_text(take(n // 8, 'ip'))
        r['rd'] = rd_text(take(8, 'RD'))
        if t in (1, 2, 4, 5):
            r['esi'] = esi_value(take(10, 'ESI'))
        if t in (1, 2, 3, 5):
            r['eth_tag_id'] = struct.unpack('!I', take(4, 'ethernet tag'))[0]
        if t == 1:
            r['label'] = labels()
        elif t == 2:
            if take(1, 'MAC length')[0] != 48:
                raise Malformed('EVPN MAC length')
            r['mac'] = mac_text(take(6, 'MAC'))
            ip(False)
            r['label'] = labels()
            if not 1 <= len(r['label']) <= 2:
                raise Malformed('EVPN type 2 with %d labels' % len(r['label']))
        elif t in (3, 4):
            ip(True)
        elif t == 5:
            plen = take(1, 'prefix length')[0]
            n = {34: 4, 58: 16}.get(len(v))
            if n is None or plen > n * 8:
                raise Malformed('EVPN type 5 of %d octets / length %d' % (len(v), plen))
            r['prefix'] = '%s/%d' % (ip_text(take(n, 'prefix')), plen)
            r['gateway'] = ip_text(take(n, 'gateway'))
            r['label'] = labels()
        else:
            raise Malformed('EVPN route type %d' % t)
        if p != len(v) or (t in (1, 5) and len(r['label']) != 1):
            raise Malformed('EVPN type %d: %d of %d octets consumed' % (t, p, len(v)))
        out.append({'type': t, 'value': r})
    return out


def _dec_flowspec(buf):
    pos, out = 0, []
    while pos < len(buf):
        b, pos = _take(buf, pos, 1, 'flowspec length')
        n = b[0]
        if n >= 0xf0:
            b2, pos = _take(buf, pos, 1, 'flowspec length')
            n = (n & 0x0f) << 8 | b2[0]
        body, pos = _take(buf, pos, n, 'flowspec rule')
        rule, p, last = {}, 0, 0
        while p < len(body):
            t = body[p]
            p += 1
            if t <= last or t > 12:
                raise Malformed('flowspec component %d after %d' % (t, last))
            last = t
            if t in FS_PREFIX:
                b, p = _take(body, p, 1, 'prefix length')
                if b[0] > 32:
                    raise Malformed('flowspec prefix length %d' % b[0])
                px, p = _take(body, p, (b[0] + 7) // 8, 'prefix')
                rule[t] = ip4_text(_masked(px + bytes(4 - len(px)), b[0])) + '/%d' % b[0]
                continue
            terms = []
            while True:
                b, p = _take(body, p, 1, 'operator')
                op = b[0]
                val, p = _take(body, p, 1 << (op >> 4 & 3), 'operand')
                terms.append((op >> 6 & 1, op >> 1 & 1, op >> 2 & 1, op & 1, int.from_bytes(val, 'big')))
                if op & 0x80:
                    break
            rule[t] = flowspec_ops_text(terms)
        out.append(rule)
    return out


def decode_nlri(afi, safi, buf, withdraw, add_path=False):
    buf = bytes(buf)
    on = _addpath_on(add_path, afi, safi)
    ver = _afi_version(afi)
    if safi == 1 and afi in (1, 2):
        return _dec_prefixes(buf, ver, on)[1]
    if safi in (4, 128) and afi in (1, 2):
        return _dec_labeled(buf, ver, on, safi == 128, withdraw)
    if (afi, safi) == (25, 70):
        return _dec_evpn(buf)
    if (afi, safi) == (1, 133):
        return _dec_flowspec(buf)
    return buf.hex()


def _dec_aspath(v, asn4):
    w = 4 if asn4 else 2
    pos, out = 0, []
    while pos < len(v):
        hdr, pos = _take(v, pos, 2, 'segment header')
        if hdr[0] not in (1, 2, 3, 4):
            raise Malformed('segment type %d' % hdr[0])
        b, pos = _take(v, pos, w * hdr[1], 'segment')
        out.append((hdr[0], [int.from_bytes(b[i:i + w], 'big') for i in range(0, len(b), w)]))
    return out


def _fixed(v, n, code):
    if len(v) != n:
        raise Malformed('%s of %d octets' % (ATTR_NAME[code], len(v)))
    return v


def _dec_attr(code, v, asn4, add_path):
    if code == 1:
        if _fixed(v, 1, code)[0] > 2:
            raise Malformed('ORIGIN %d' % v[0])
        return v[0]
    if code in (2, 17):
        return _dec_aspath(v, asn4 or code == 17)
    if code in (3, 9):
        return ip4_text(_fixed(v, 4, code))
    if code in (4, 5):
        return struct.unpack('!I', _fixed(v, 4, code))[0]
    if code == 6:
        _fixed(v, 0, code)
        return ''
    if code in (7, 18):
        w = 4 if (asn4 or code == 18) else 2
        _fixed(v, w + 4, code)
        return int.from_bytes(v[:w], 'big'), ip4_text(v[w:])
    if code in (8, 10, 16, 32):
        size = {8: 4, 10: 4, 16: 8, 32: 12}[code]
        if len(v) % size:
            raise Malformed('%s of %d octets' % (ATTR_NAME[code], len(v)))
        chunks = [v[i:i + size] for i in range(0, len(v), size)]
        if code == 8:
            return [community_text(struct.unpack('!I', c)[0]) for c in chunks]
        if code == 10:
            return [ip4_text(c) for c in chunks]
        if code == 16:
            return [ext_community_to_text(c) for c in chunks]
        return ['%d:%d:%d' % struct.unpack('!III', c) for c in chunks]
    if code == 14:
        hdr, pos = _take(v, 0, 4, 'MP_REACH header')
        afi, safi, nhl = struct.unpack('!HBB', hdr)
        nh, pos = _take(v, pos, nhl, 'next hop')
        _, pos = _take(v, pos, 1, 'reserved')
        out = {'afi_safi': (afi, safi)}
        if safi == 128 and nhl in (12, 24):
            out['nexthop'] = {'rd': rd_text(nh[:8]), 'str': ip_text(nh[8:])}
        elif nhl in (4, 16):
            out['nexthop'] = ip_text(nh)
        elif nhl == 32:
            out['nexthop'] = ip6_text(nh[:16])
            out['linklocal_nexthop'] = ip6_text(nh[16:])
        elif nhl == 0:
            out['nexthop'] = ''
        else:
            raise Malformed('next hop of %d octets' % nhl)
        out['nlri'] = decode_nlri(afi, safi, v[pos:], False, add_path)
        return out
    if code == 15:
        hdr, pos = _take(v, 0, 3, 'MP_UNREACH header')
        afi, safi = struct.unpack('!HB', hdr)
        return {'afi_safi': (afi, safi), 'withdraw': decode_nlri(afi, safi, v[pos:], True, add_path)}
    return v.hex()


def decode_update(body, asn4, add_path=False):
    """Independent structural + value decoder of an UPDATE body (no header).  Returns
      'attrs'        [(flags, code, value octets)] in wire order           (neutral)
      'withdraw_raw' / 'nlri_raw'  [(path_id | None, length, masked 4-octet address)]  (neutral)
      'attr' / 'withdraw' / 'nlri'  the same content in the decoder shapes of expected()
    Raises Malformed when lengths do not nest, a flag octet contradicts the type's category, an
    attribute repeats, or a value is malformed."""
    body = bytes(body)
    b, pos = _take(body, 0, 2, 'withdrawn routes length')
    wd, pos = _take(body, pos, struct.unpack('!H', b)[0], 'withdrawn routes')
    b, pos = _take(body, pos, 2, 'total path attribute length')
    at, pos = _take(body, pos, struct.unpack('!H', b)[0], 'path attributes')
    on4 = _addpath_on(add_path, 1, 1)
    out = {'attrs': [], 'attr': {}}
    out['withdraw_raw'], out['withdraw'] = _dec_prefixes(wd, 4, on4)
    out['nlri_raw'], out['nlri'] = _dec_prefixes(body[pos:], 4, on4)
    p = 0
    while p < len(at):
        hdr, p = _take(at, p, 2, 'attribute header')
        flags, code = hdr
        b, p = _take(at, p, 2 if flags & EXT_LEN else 1, 'attribute length')
        v, p = _take(at, p, int.from_bytes(b, 'big'), 'attribute value')
        if flags & 0x0f:
            raise Malformed('attribute %d: low flag bits set (0x%02x)' % (code, flags))
        if code in ATTR_FLAGS:
            cat = ATTR_FLAGS[code]
            if flags & 0xC0 != cat or (flags & 0x20 and cat != OPT_TRANS):
                raise Malformed('attribute %d: flags 0x%02x do not fit category 0x%02x' % (code, flags, cat))
        if code in out['attr']:
            raise Malformed('attribute %d twice' % code)
        out['attrs'].append((flags, code, v))
        out['attr'][code] = _dec_attr(code, v, asn4, add_path)
    return out
