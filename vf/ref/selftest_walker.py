"""Self-test of the structural walker (vf/ref/walker.py).

    /venv/bin/python /verif/vf/ref/selftest_walker.py

(a) every RFC-conformant byte string embedded in yabgp's unit tests walks clean (the byte strings
    are hard-coded below as hex; yabgp is not imported);
(b) byte strings those tests use as malformed input are reported with the expected class tag;
(c) a corpus of whole messages built from (a), each subjected to single structural corruptions, is
    reported with the right class tag - and the uncorrupted corpus walks clean.  Where a corruption
    moves the cursor (a length field +-1), what is seen depends on the octets that follow; the test
    then names the set of tags that are correct descriptions and requires one of them.  Where the
    cause is unambiguous (header length, flags, extended-length bit, EVPN / capability / TLV lengths)
    exactly that tag is required, for header and extended-length problems as the first line.
(d) the walker never raises: every truncation and single-octet mutation of the corpus.
(e) pools_c08: API shape, determinism, quick-tier size (yabgp is not needed for this).

Vector names are '<test file>::<test function>:<line of the literal>' under
/repo/yabgp/tests/unit/message/ ('a/' = 'attribute/').  Kinds:
  msg               whole message                      open_body / update_body / ... : body, framed here
  prefixes          RFC 4271 <length, prefix> list (framed as the NLRI field of an UPDATE)
  attrs             path-attribute container           value: one attribute value (opts['code'])
  nlri              NLRI field of MP_REACH / MP_UNREACH for (afi, safi); 'lenprefix': the test passes
                    the flowspec rule without its length octet, which is prepended here
  srp_subtlvs       SR-policy sub-TLVs (wrapped here into tunnel TLV type 15, attribute 23)
  seg_subtlvs       segment-list sub-sub-TLVs (wrapped into sub-TLV 128, tunnel 15, attribute 23)
KNOWN_DIRTY lists vectors of (a) that do NOT walk clean, with the reported tag: candidate defects of
the vector (hence of yabgp's expectation), kept visible instead of bending the walker.
"""
import os
import struct
import sys

sys.path.insert(0, os.path.dirname(os.path.dirname(os.path.dirname(os.path.abspath(__file__)))))
from vf.ref import walker  # noqa: E402

GOOD = [
    ('test_keepalive::test_construct:37', 'msg', {},
     'ffffffffffffffffffffffffffffffff001304'),
    ('test_notification::test_construct:34', 'msg', {},
     'ffffffffffffffffffffffffffffffff00170303050000'),
    ('test_open::test_construct:57', 'msg', {},
     'ffffffffffffffffffffffffffffffff003d01045ba000b4010101012002060104000100800206010400010001020280'
     '0002020200020641040001046a'),
    ('test_open::test_construct_add_path:75', 'msg', {},
     'ffffffffffffffffffffffffffffffff00410104fc0000b40a0000062402060104000100010202800002020200020641'
     '040000fc00020645040001010102024600'),
    ('test_open::test_parse_llgr:100', 'msg', {},
     'ffffffffffffffffffffffffffffffff004e0104012c00b4030303033102060104000100010206010400010085020280'
     '0002020200020641040000012c0204400280780209470700018580000168'),
    ('test_open::test_parse_add_path_llgr:119', 'msg', {},
     'ffffffffffffffffffffffffffffffff00410104fde900b40a0000072402220104000100010104000100040200400201'
     '2c41040000fde945080001010100010401'),
    ('test_open::test_parse_ext_nexthop:144', 'msg', {},
     'ffffffffffffffffffffffffffffffff00530104fde800b4010101013602060104000100010206010400010085020280'
     '0002020200020641040000fde802140512000100010002000100020002000100800002'),
    ('test_open::test_construct_ext_nexthop:196', 'msg', {},
     'ffffffffffffffffffffffffffffffff00530104fde800b4010101013602060104000100010206010400010085020280'
     '0002020200020641040000fde802140512000100010002000100020002000100800002'),
    ('test_route_refresh::test_construct_rfc_route_refresh:37', 'msg', {},
     'ffffffffffffffffffffffffffffffff00170500010080'),
    ('test_route_refresh::test_construct_cisco_route_refresh:44', 'msg', {},
     'ffffffffffffffffffffffffffffffff00178000010080'),
    ('test_update::test_parse_ipv6_unicast:142', 'msg', {'asn4': True},
     'ffffffffffffffffffffffffffffffff0055020000003e800e260002011000000000000000000000ffffac1f22aa0080'
     '20010000000000000000000000000001400101004002008004040000000040050400000064'),
    ('test_update::test_parse_and_construct_ipv4_mpls_vpn_update:160', 'msg', {'asn4': True},
     'ffffffffffffffffffffffffffffffff0074020000005d400101024002008004040000000040050400000064c0100800'
     '02000200000002800a10c0a80101c0a80102c0a80103c0a80104800904c0a80106800e200001800c0000000000000000'
     'c0a8010600700001d10000000200000002c0a8c9'),
    ('test_update::test_parse_link_state:224', 'msg', {},
     'ffffffffffffffffffffffffffffffff00b3020000009c900e0062400447040a7c017e00000200550200000000000000'
     '000100001a020000040000fffe0201000400000000020300060000000000010101001a020000040000fffe0201000400'
     '00000002030006000000000003010300040103000101040004010300024001010040020040050400000064801d250444'
     '00040000000a0447000300000a044b0007700000000061aa044b0007300000000061ab'),
    ('test_open::test_parse:31', 'open_body', {},
     '045ba000b403030309250206010400010080020601040001000102028000020202000203830100020641040001046a'),
    ('test_open::test_parser_add_path:82', 'open_body', {},
     '04fc0000b40a0000062402060104000100010202800002020200020246000206450400010103020641040000fc00'),
    ('test_notification::test_parse:27', 'notification_body', {},
     '03050000'),
    ('test_route_refresh::test_parse:28', 'rr_body', {},
     '00010080'),
    ('test_update::test_parse_and_construct_ipv4_unicast_2byteas:85', 'update_body', {'asn4': False},
     '000000284001010240020a0201001e0102000a00144003040a00000980040400000000c00706001e0a00000915ac1000'),
    ('test_update::test_parse_ipv4_4byteas:96', 'update_body', {'asn4': True},
     '000000304001010240021002010000001e01020000000a000000144003040a00000980040400000000c007080000001e'
     '0a00000915ac1000'),
    ('test_update::test_parse_ipv4_addpath_update:106', 'update_body', {'asn4': True, 'add_path': True},
     '000000304001010040020602010000fbff4003040a000e018004040000000040050400000064800a040a002204800904'
     '0a000f010000000120050505050000000120c0a80105'),
    ('test_update::test_parse_ipv4_addpath_withdraw:119', 'update_body', {'asn4': True, 'add_path': True},
     '00090000000120636363630000'),
    ('test_update::test_parse_prefix_list:27', 'prefixes', {},
     '13b89de01845b3dd1845b3dc18d166b21642706418d036c2'),
    ('test_update::test_parse_prefix_list_with_addpath:33', 'prefixes', {'add_path': True},
     '0000000120050505050000000120c0a80105'),
    ('test_update::test_construct_prefix_v4_addpath:54', 'prefixes', {'add_path': True},
     '000000012063636363'),
    ('a/nlri/test_ipv4_flowspec::test_parse_construct_prefix:66', 'prefixes', {},
     '18c05502'),
    ('a/nlri/test_ipv4_flowspec::test_parse_construct_prefix:70', 'prefixes', {},
     '13b89de0'),
    ('test_update::test_parse_attributes_ipv4:57', 'attrs', {'asn4': False},
     '400101004002080203000100020003400304ac10010e8004040000000040050400000064800904ac10010e800a080202'
     '020264646464'),
    ('a/test_aggregator::test_construct:51', 'attrs', {'asn4': False},
     'c0070670d53ee7ff79'),
    ('a/test_aspath::test_construct:58', 'attrs', {'asn4': False},
     '40020a02040cb97933882053d9'),
    ('a/test_aspath::test_construct:62', 'attrs', {'asn4': True},
     '400212020400000cb90000793300008820000053d9'),
    ('a/test_aspath::test_construct_as_set:66', 'attrs', {'asn4': False},
     '40020c020203e903ea010203eb03ec'),
    ('a/test_aspath::test_construct_as_set_as_federate:70', 'attrs', {'asn4': False},
     '40020c040203e903ea030203eb03ec'),
    ('a/test_atomicaggregate::test_construct:43', 'attrs', {},
     '400600'),
    ('a/test_clusterlist::test_construct:44', 'attrs', {},
     '800a0c010101010202020203030303'),
    ('a/test_community::test_construct:51', 'attrs', {},
     'c00804ffffff01'),
    ('a/test_community::test_construct:54', 'attrs', {},
     'c00808ffffff0112e526c9'),
    ('a/test_community::test_construct:57', 'attrs', {},
     'c0080812e504d712e526c9'),
    ('a/test_community::test_construct:60', 'attrs', {},
     'c0080812e504d7ffff029a'),
    ('a/test_extcommunity::test_construct_rt0:35', 'attrs', {},
     'c01008000200640000000c'),
    ('a/test_extcommunity::test_construct_rt1:45', 'attrs', {},
     'c0100801020a0a0a0a000c'),
    ('a/test_extcommunity::test_construct_rt2:55', 'attrs', {},
     'c01008020200010001000c'),
    ('a/test_extcommunity::test_construct_ro0:65', 'attrs', {},
     'c01008000300640000000c'),
    ('a/test_extcommunity::test_construct_ro1:75', 'attrs', {},
     'c0100801030a0a0a0a000c'),
    ('a/test_extcommunity::test_construct_ro2:85', 'attrs', {},
     'c01008020300010001000c'),
    ('a/test_extcommunity::test_parse_construct_flowspec_redirect_vrf:105', 'attrs', {},
     'c01008800812e500000064'),
    ('a/test_extcommunity::test_parse_construct_flowspec_redirect_nh:111', 'attrs', {},
     'c010080800000000000000'),
    ('a/test_extcommunity::test_parse_construct_tarffic_rate:117', 'attrs', {},
     'c01008800600644abebc20'),
    ('a/test_large_community::test_construct:33', 'attrs', {},
     'e020180003000d00000003000000050003000d0000000400000001'),
    ('a/test_localpref::test_construct:45', 'attrs', {},
     '40050400000064'),
    ('a/test_med::test_construct:46', 'attrs', {},
     '80040400000064'),
    ('a/test_nexthop::test_construct:48', 'attrs', {},
     '4003040a0a0a01'),
    ('a/test_nexthop::test_construct:49', 'attrs', {},
     '40030400000000'),
    ('a/test_nexthop::test_construct_with_flags:61', 'attrs', {},
     '4003040a0a0a0a'),
    ('a/test_origin::test_construct:46', 'attrs', {},
     '40010100'),
    ('a/test_origin::test_construct:48', 'attrs', {},
     '40010101'),
    ('a/test_origin::test_construct:49', 'attrs', {},
     '40010102'),
    ('a/test_originatorid::test_construct:45', 'attrs', {},
     '800904c0a80101'),
    ('a/sr/test_bgpprefixsid::test_unpack:30', 'attrs', {},
     'c028250500220001001e002005bb0001120000000000000000000000003f00010006201010001030'),
    ('a/test_mpreachnlri::test_ipv4_mpls_vpn_parse:32', 'attrs', {},
     '800e210001800c00000000000000000202020200780001910000006400000064aa000000'),
    ('a/test_mpreachnlri::test_ipv4_mpls_vpn_construct:53', 'attrs', {},
     '900e00210001800c00000000000000000202020200780001910000006400000064aa000000'),
    ('a/test_mpreachnlri::test_ipv6_mpls_vpn_parse:101', 'attrs', {},
     '800e4500028018000000000000000000000000000000000000ffffac10040c0098000361000000640000000c20100000'
     '0012000498000371000000640000000c2010000100120000'),
    ('a/test_mpreachnlri::test_ipv6_mpls_vpn_construct:116', 'attrs', {},
     '900e004500028018000000000000000000000000000000000000ffffac10040c0098000361000000640000000c201000'
     '000012000498000371000000640000000c2010000100120000'),
    ('a/test_mpreachnlri::test_ipv4_flowspec_construct:143', 'attrs', {},
     '900e001000018500000a0118c055020218c05501'),
    ('a/test_mpreachnlri::test_ipv4_srte_contruct:159', 'attrs', {},
     '900e001600014904c0a805050060000000000000000ac0a80507'),
    ('a/test_mpreachnlri::test_l2vpn_evpn_parse_route_type2:189', 'attrs', {},
     '800e3000194604ac1100030002250001ac1100030002000000000000000000000000006c30001122334455200b0b0b01'
     '000001'),
    ('a/test_mpreachnlri::test_l2vpn_evpn_construct_route_type2:210', 'attrs', {},
     '900e003000194604ac1100030002250001ac1100030002000000000000000000000000006c30001122334455200b0b0b'
     '01000000'),
    ('a/test_mpreachnlri::test_linkstate_link:266', 'attrs', {},
     '900e0062400447040a7c017e00000200550200000000000000000100001a020000040000fffe02010004000000000203'
     '00060000000000010101001a020000040000fffe02010004000000000203000600000000000301030004010300010104'
     '000401030002'),
    ('a/test_mpreachnlri::test_linkstate_ipv4_topo_prefix:306', 'attrs', {},
     '900e0047400447040a7c0297000003003a03000000000000000001000020020000040000019102010004292929290202'
     '000400000000020300045b5b5b5b01080001010109000418640c00'),
    ('a/test_mpreachnlri::test_linkstate_ipv6_topo_prefix:328', 'attrs', {},
     '900e004f400447040a7c02e8000004004202000000000000fde80100001a020000040000fde802010004000000000203'
     '00060000000000050107000200020109001180fd000000000000000000000000001502'),
    ('a/test_mpunreachnlri::test_ipv4_mpls_vpn_parse:32', 'attrs', {},
     '800f12000180708000000000000200000002c0a8c9'),
    ('a/test_aggregator::test_parse:29', 'value', {'code': 7, 'asn4': True},
     '000070d53ee7ff79'),
    ('a/test_aggregator::test_parse:34', 'value', {'code': 7, 'asn4': False},
     '70d53ee7ff79'),
    ('a/test_aspath::test_parse:32', 'value', {'code': 2, 'asn4': False},
     '02040cb97933882053d9'),
    ('a/test_aspath::test_parse:36', 'value', {'code': 2, 'asn4': True},
     '020400000cb90000793300008820000053d9'),
    ('a/test_aspath::test_parse_as_set_as_federate:51', 'value', {'code': 2, 'asn4': False},
     '040203e903ea030203eb03ec'),
    ('a/test_clusterlist::test_parse:29', 'value', {'code': 10},
     '010101010202020203030303'),
    ('a/test_community::test_parse:29', 'value', {'code': 8},
     'ffffff01'),
    ('a/test_community::test_parse:32', 'value', {'code': 8},
     'ffffff0112e526c9'),
    ('a/test_community::test_parse:35', 'value', {'code': 8},
     '12e504d712e526c9'),
    ('a/test_community::test_parse:38', 'value', {'code': 8},
     '12e526c9ffff029a'),
    ('a/test_extcommunity::test_parse_rt0:29', 'value', {'code': 16},
     '000200640000000c'),
    ('a/test_extcommunity::test_parse_rt1:39', 'value', {'code': 16},
     '01020a0a0a0a000c'),
    ('a/test_extcommunity::test_parse_rt2:49', 'value', {'code': 16},
     '020200010001000c'),
    ('a/test_extcommunity::test_parse_ro0:59', 'value', {'code': 16},
     '000300640000000c'),
    ('a/test_extcommunity::test_parse_ro1:69', 'value', {'code': 16},
     '01030a0a0a0a000c'),
    ('a/test_extcommunity::test_parse_ro2:79', 'value', {'code': 16},
     '020300010001000c'),
    ('a/test_extcommunity::test_parse_unknow:97', 'value', {'code': 16},
     '090300010001000c'),
    ('a/test_extcommunity::test_parse_construct_flowspec_redirect_vrf:103', 'value', {'code': 16},
     '800812e500000064'),
    ('a/test_extcommunity::test_parse_construct_flowspec_redirect_nh:112', 'value', {'code': 16},
     '0800000000000000'),
    ('a/test_extcommunity::test_parse_construct_tarffic_rate:118', 'value', {'code': 16},
     '800600644abebc20'),
    ('a/test_extcommunity::test_parse_construct_transitive_opaque_encap:122', 'value', {'code': 16},
     '030c000000000008'),
    ('a/test_extcommunity::test_construct_transitive_opaque_color:129', 'value', {'code': 16},
     '030b00000000000a'),
    ('a/test_extcommunity::test_parse_construct_es_import:134', 'value', {'code': 16},
     '0602001122334455'),
    ('a/test_extcommunity::test_parse_construct_els_label:143', 'value', {'code': 16},
     '0601010000000141'),
    ('a/test_extcommunity::test_parse_construct_mac_mobil:150', 'value', {'code': 16},
     '06000100000001f4'),
    ('a/test_extcommunity::test_parse_construct_evpn_route_mac:157', 'value', {'code': 16},
     '060374a02fdefefb'),
    ('a/test_large_community::test_parse:27', 'value', {'code': 32},
     '0003000d0000000300000005'),
    ('a/test_localpref::test_parse:30', 'value', {'code': 5},
     '000000a0'),
    ('a/test_med::test_parse:30', 'value', {'code': 4},
     '000000a0'),
    ('a/test_nexthop::test_parse:31', 'value', {'code': 3},
     '0a0a0a01'),
    ('a/test_nexthop::test_parse:33', 'value', {'code': 3},
     '00000000'),
    ('a/test_nexthop::test_parse:34', 'value', {'code': 3},
     'ffffffff'),
    ('a/test_origin::test_origin_igp:28', 'value', {'code': 1},
     '00'),
    ('a/test_origin::test_origin_egp:31', 'value', {'code': 1},
     '01'),
    ('a/test_origin::test_origin_incomplete:34', 'value', {'code': 1},
     '02'),
    ('a/test_originatorid::test_parse:31', 'value', {'code': 9},
     'c0a80101'),
    ('a/test_pmsitunnel::test_parse:28', 'value', {'code': 22},
     '000600271004040404'),
    ('a/test_pmsitunnel::test_construct:34', 'value', {'code': 22},
     '000600271004040404'),
    ('a/linkstate/test_linkstate::test_unpack:26', 'value', {'code': 29},
     '040400040202020204060004010101010440000400000000044100044cee6b2804420004000000000443002000000000'
     '00000000000000000000000000000000000000000000000000000000044400040000000a0447000300000a044b000770'
     '0000000061a8044b0007300000000061a9'),
    ('a/linkstate/link/test_srv6_end_x_sid::test_unpack:26', 'value', {'code': 29},
     '0452001e003900000000a00100000005e002000000000000000004e4000420101000'),
    ('a/nlri/test_linkdelay::test_unpack:26', 'value', {'code': 29},
     '04040004030303030440000400000000044100044cee6b28044200040000000004430020000000000000000000000000'
     '0000000000000000000000000000000000000000044400040000000104470003000001044b000760000000005dc1010b'
     '0002010a045a0004000f4240045b0008000f4240000f4240045c000400000000045d000411111111045e000411111111'
     '045f0004111111110460000411111111'),
    ('a/nlri/test_linkstate_prefix_sid::test_prefix_sid_flags_ospf:26', 'value', {'code': 29},
     '04860007b40000000061a9'),
    ('a/test_mpreachnlri::test_ipv4_unicast_path_id_parse:27', 'value', {'code': 14, 'add_path': True},
     '000101040a18253700000000022005050505'),
    ('a/test_mpreachnlri::test_ipv6_unicast:63', 'value', {'code': 14},
     '00020110200132320000000000000000000000010080200132320000000000000000000000014020013232000100007f'
     '20014837163200000000000000000002'),
    ('a/test_mpreachnlri::test_ipv6_unicast_with_linklocal_nexthop:74', 'value', {'code': 14},
     '0002012020010db8000000000000000000000002fe80000000000000c0020bfffe7e0000004020010db8000200024020'
     '010db8000200014020010db800020000'),
    ('a/test_mpreachnlri::test_ipv4_flowspec_parse_multi_nlri_with_nexthop:131', 'value', {'code': 14, 'skip': 3},
     '0e001b00018500000a0118c058030218c059030a0118c058040218c05904'),
    ('a/test_mpunreachnlri::test_ipv4_unicast_path_id_parse:27', 'value', {'code': 15, 'add_path': True},
     '000101000000022005050505'),
    ('a/test_mpunreachnlri::test_ipv6_unicast_parse:49', 'value', {'code': 15},
     '0002018020014837000000000000000000000020'),
    ('a/test_mpunreachnlri::test_ipv4_flowspec_parse:74', 'value', {'code': 15},
     '0001850a0118c055020218c05501'),
    ('a/test_mpunreachnlri::test_ipv4_srte_construct:84', 'value', {'code': 15},
     '00014960000000000000000ac0a80507'),
    ('a/nlri/labeled_unicast/test_ipv4_labeled_unicast::test_construct:28', 'nlri', {'afi': 1, 'safi': 4},
     '300014112201293000142122012a'),
    ('a/nlri/labeled_unicast/test_ipv4_labeled_unicast::test_construct_with_multi_label:36', 'nlri', {'afi': 1, 'safi': 4},
     '480014100014212201294800141000142122012a'),
    ('a/nlri/labeled_unicast/test_ipv4_labeled_unicast::test_parse_enable_add_path:59', 'nlri', {'afi': 1, 'safi': 4, 'add_path': True},
     '000000013800003105050505'),
    ('a/nlri/labeled_unicast/test_ipv6_labeled_unicast::test_construct:28', 'nlri', {'afi': 2, 'safi': 4},
     '980005b120012121000000000000000000000001580005c12001212100010000970005d1200148371821000000000000'
     '00000002'),
    ('a/nlri/labeled_unicast/test_ipv6_labeled_unicast::test_parse_enable_add_path:51', 'nlri', {'afi': 2, 'safi': 4, 'add_path': True},
     '000000039800002100050000000000000000000000000005'),
    ('a/nlri/test_bgpls::test_parse:25', 'nlri', {'afi': 16388, 'safi': 71},
     '000200550200000000000000000100001a020000040000fffe0201000400000000020300060000000000030101001a02'
     '0000040000fffe02010004000000000203000600000000000101030004010300020104000401030001'),
    ('a/nlri/test_blgls_epe::test_parse:25', 'nlri', {'afi': 16388, 'safi': 71},
     '000200510700000000000000000100001802000004000000c8020100040000000002050004000000c801010018020000'
     '040000012c0201000400000000020500040000012c01030004c0a8040301040004c0a80404'),
    ('a/nlri/test_evpn::test_parse_mac_ip_adv:24', 'nlri', {'afi': 25, 'safi': 70},
     '02250001ac1100030002000000000000000000000000006c30001122334455200b0b0b01000000'),
    ('a/nlri/test_evpn::test_parse_eth_auto_dis:57', 'nlri', {'afi': 25, 'safi': 70},
     '0119000101010101806300000000000000000000000000640000a1'),
    ('a/nlri/test_evpn::test_parse_in_mul_eth_tag:88', 'nlri', {'afi': 25, 'safi': 70},
     '03110001ac10000117100000006420c0a80001'),
    ('a/nlri/test_evpn::test_parse_eth_segment:112', 'nlri', {'afi': 25, 'safi': 70},
     '04170001ac10000117100000000000000000000020c0a80001'),
    ('a/nlri/test_evpn::test_parse_ip_route_prefix_v4:141', 'nlri', {'afi': 25, 'safi': 70},
     '0522000200010000000200000000000000000000000000011801010100010101010000a1'),
    ('a/nlri/test_evpn::test_parse_ip_route_prefix_v6:172', 'nlri', {'afi': 25, 'safi': 70},
     '053a00020001000000020000000000000000000000000001402001323200000000000000000000000120013232000000'
     '0000000000000000010000a1'),
    ('a/nlri/test_ipv4_flowspec::test_construct_nlri:97', 'nlri', {'afi': 1, 'safi': 133},
     '0f050150111f90111f91111f92911f93'),
    ('a/nlri/test_ipv4_flowspec::test_construct_nlri:100', 'nlri', {'afi': 1, 'safi': 133},
     '0a0118c055020218c05501'),
    ('a/nlri/test_ipv4_flowspec::test_parse:25', 'nlri', {'afi': 1, 'safi': 133, 'lenprefix': True},
     '011802020202100303030100012f0158010101020159816705111f92911f93060150111f90111f91111f92911f930701'
     '020103010581060881020981280a01fe03fed5012c0b012881300c8101'),
    ('a/nlri/test_ipv4_flowspec::test_parse_nlri_prefix:36', 'nlri', {'afi': 1, 'safi': 133, 'lenprefix': True},
     '01186e0101'),
    ('a/nlri/test_ipv4_flowspec::test_parse_nlri_packet_length:40', 'nlri', {'afi': 1, 'safi': 133, 'lenprefix': True},
     '0a01fe03fed5012c'),
    ('a/nlri/test_ipv4_flowspec::test_parse_nlri_ip_protocol:44', 'nlri', {'afi': 1, 'safi': 133, 'lenprefix': True},
     '030100012f01580101010201598167'),
    ('a/nlri/test_ipv4_flowspec::test_parse_nlri_des_port:48', 'nlri', {'afi': 1, 'safi': 133, 'lenprefix': True},
     '050150111f90111f91111f92911f93'),
    ('a/nlri/test_ipv4_flowspec::test_parse_nlri_src_port:53', 'nlri', {'afi': 1, 'safi': 133, 'lenprefix': True},
     '060150111f90111f91111f92911f93'),
    ('a/nlri/test_ipv4_flowspec::test_parse_nlri_icmp_type:58', 'nlri', {'afi': 1, 'safi': 133, 'lenprefix': True},
     '070102010301058106'),
    ('a/nlri/test_ipv4_flowspec::test_parse_nlri_icmp_code:62', 'nlri', {'afi': 1, 'safi': 133, 'lenprefix': True},
     '088102'),
    ('a/nlri/test_ipv4_mpls_vpn::test_parse:26', 'nlri', {'afi': 1, 'safi': 128},
     '780001910000006400000064aa000000'),
    ('a/nlri/test_ipv4_mpls_vpn::test_parse_1:31', 'nlri', {'afi': 1, 'safi': 128, 'add_path': True},
     '00000064780001910000006400000064aa000000'),
    ('a/nlri/test_ipv4_mpls_vpn::test_construct_1:37', 'nlri', {'afi': 1, 'safi': 128},
     '760001410000fdea0000000117000000'),
    ('a/nlri/test_ipv4_srte::test_construct:24', 'nlri', {'afi': 1, 'safi': 73},
     '60000000000000000ac0a80507'),
    ('a/nlri/test_ipv6_mpls_vpn::test_update_parse:26', 'nlri', {'afi': 2, 'safi': 128},
     '98000361000000640000000c201000000012000498000371000000640000000c2010000100120000'),
    ('a/nlri/test_ipv6_mpls_vpn::test_update_parse_enable_add_path:35', 'nlri', {'afi': 2, 'safi': 128, 'add_path': True},
     '0000006498000361000000640000000c2010000000120004'),
    ('a/nlri/test_ipv6_mpls_vpn::test_withdraw_parse:49', 'nlri', {'afi': 2, 'safi': 128, 'unreach': True},
     '98800000000000640000000c201000000012000498800000000000640000000c2010000100120000'),
    ('a/nlri/test_ipv6_unicast::test_parse:25', 'nlri', {'afi': 2, 'safi': 1},
     '80200132320000000000000000000000014020013232000100007f20014837163200000000000000000002'),
    ('a/nlri/test_ipv6_unicast::test_parse_2:32', 'nlri', {'afi': 2, 'safi': 1},
     '70326cce9225ea365e4d71594522000000'),
    ('a/nlri/test_ipv6_unicast::test_parse_3:38', 'nlri', {'afi': 2, 'safi': 1, 'add_path': True},
     '000003e94020010db800000000'),
    ('a/nlri/test_ipv6_unicast::test_parse_withdraw:44', 'nlri', {'afi': 2, 'safi': 1, 'unreach': True},
     '4020010db8000100024020010db8000100014020010db800010000'),
    ('a/nlri/test_ipv6_unicast::test_construct_nlri:53', 'nlri', {'afi': 2, 'safi': 1},
     '4020010db8000100024020010db8000100014020010db800010003'),
    ('a/nlri/test_ipv6_unicast::test_construct_nlri_3:67', 'nlri', {'afi': 2, 'safi': 1},
     '70326cce9225ea365e4d7159452200'),
    ('a/test_tunnelencaps::test_construct_weight:36', 'seg_subtlvs', {},
     '090600000000000a'),
    ('a/test_tunnelencaps::test_construct_seg:63', 'seg_subtlvs', {},
     '01060000007d00ff030a00000a010101007d00ff'),
    ('a/test_tunnelencaps::test_construct_old_binding_sid:68', 'srp_subtlvs', {},
     '070600000620e000'),
    ('a/test_tunnelencaps::test_construct_old_preference:73', 'srp_subtlvs', {},
     '0606000000000064'),
    ('a/test_tunnelencaps::test_construct_new_binding_sid:78', 'srp_subtlvs', {},
     '0d0600000620e000'),
    ('a/test_tunnelencaps::test_construct_new_preference:83', 'srp_subtlvs', {},
     '0c06000000000064'),
    ('a/test_tunnelencaps::test_construct_segement_lists:113', 'srp_subtlvs', {},
     '80001d00090600000000000a01060000007d00ff030a00000a010101007d00ff07020000'),
    ('a/test_tunnelencaps::test_construct_segement_lists:115', 'srp_subtlvs', {},
     '0702000080001d00090600000000000a01060000007d00ff030a00000a010101007d00ff'),
    ('a/test_tunnelencaps::test_construct_enlp:124', 'srp_subtlvs', {},
     '0e03000001'),
    ('a/test_tunnelencaps::test_construct_priority:132', 'srp_subtlvs', {},
     '0f02c800'),
    ('a/test_tunnelencaps::test_construct_policy_name:140', 'srp_subtlvs', {},
     '8100050074657374'),
    ('a/test_tunnelencaps::test_construct_remote_endpoint_ipv4:148', 'srp_subtlvs', {},
     '060a0000012c000101010101'),
    ('a/test_tunnelencaps::test_construct_remote_endpoint_ipv6:156', 'srp_subtlvs', {},
     '06160000012c0002abcdef0123456789abcdef0123456789'),
]

BAD = [
    ('test_update::test_parse_prefix_mask_larger_than_32:41', 'prefixes', {}, 'prefix-length',
     '21b89de01845b3dd1845b3dc18d166b21642706418d036c2'),
    ('test_update::test_parse_attributes_ipv4:57', 'attrs', {'asn4': True}, 'aspath',
     '400101004002080203000100020003400304ac10010e8004040000000040050400000064800904ac10010e800a080202'
     '020264646464'),
    ('a/test_aspath::test_parse:46', 'value', {'code': 2, 'asn4': False}, 'aspath',
     '05040cb97933882053d9'),
    ('a/test_atomicaggregate::test_parse:34', 'value', {'code': 6}, 'attr-value-length',
     '01'),
    ('a/test_clusterlist::test_parse_invalid_length:35', 'value', {'code': 10}, 'attr-value-length',
     '01010101010202020203030303'),
    ('a/test_community::test_parse:42', 'value', {'code': 8}, 'attr-value-length',
     'ffffff0101'),
    ('a/test_extcommunity::test_parse_invalid_length:89', 'value', {'code': 16}, 'attr-value-length',
     '00000200640000000c'),
    ('a/test_localpref::test_parse_invalid_length:36', 'value', {'code': 5}, 'attr-value-length',
     '0a0a0a0101'),
    ('a/test_med::test_parse:35', 'value', {'code': 4}, 'attr-value-length',
     '0a0a0a0101'),
    ('a/test_nexthop::test_parse_invalid_length:39', 'value', {'code': 3}, 'attr-value-length',
     '0a0a0a0101'),
    ('a/test_originatorid::test_parse:36', 'value', {'code': 9}, 'attr-value-length',
     'c0a8010101'),
]

# vectors of GOOD that are expected NOT to walk clean: name -> tag that must be reported
KNOWN_DIRTY = {
}

MARKER = b'\xff' * 16


def frame(t, body):
    return MARKER + struct.pack('!HB', 19 + len(body), t) + body


def attr(flags, code, value, ext=None):
    if ext is None:
        ext = len(value) > 255
    if ext:
        return struct.pack('!BBH', flags | 0x10, code, len(value)) + value
    return struct.pack('!BBB', flags, code, len(value)) + value


def update(attrs=b'', nlri=b'', withdrawn=b''):
    return frame(2, struct.pack('!H', len(withdrawn)) + withdrawn + struct.pack('!H', len(attrs)) + attrs + nlri)


def run_vector(kind, opts, raw):
    asn4 = opts.get('asn4')
    ap = opts.get('add_path', False)
    if kind == 'msg':
        return walker.walk(raw, asn4, ap)
    if kind == 'open_body':
        return walker.walk(frame(1, raw))
    if kind == 'notification_body':
        return walker.walk(frame(3, raw))
    if kind == 'rr_body':
        return walker.walk(frame(5, raw)) + walker.walk(frame(128, raw))
    if kind == 'update_body':
        return walker.walk(frame(2, raw), asn4, ap)
    if kind == 'prefixes':
        return walker.walk(update(nlri=raw), asn4, ap) + walker.walk(update(withdrawn=raw), asn4, ap)
    if kind == 'attrs':
        return walker.walk_attributes(raw, asn4, ap) + walker.walk(update(attrs=raw), asn4, ap)
    if kind == 'value':
        raw = raw[opts.get('skip', 0):]
        return walker.walk_attr_value(opts['code'], raw, asn4, ap)
    if kind == 'nlri':
        if opts.get('lenprefix'):
            raw = bytes([len(raw)]) + raw
        return walker.walk_nlri(opts['afi'], opts['safi'], raw, ap, opts.get('unreach', False))
    if kind == 'srp_subtlvs':
        return walker.walk_attr_value(23, struct.pack('!HH', 15, len(raw)) + raw)
    if kind == 'seg_subtlvs':
        sl = b'\x80' + struct.pack('!H', len(raw) + 1) + b'\x00' + raw
        return walker.walk_attr_value(23, struct.pack('!HH', 15, len(sl)) + sl)
    raise ValueError(kind)


FAILS = []


def fail(msg):
    FAILS.append(msg)
    print('FAIL ' + msg)


def part_a():
    dirty = 0
    for name, kind, opts, hx in GOOD:
        probs = run_vector(kind, opts, bytes.fromhex(hx))
        want = KNOWN_DIRTY.get(name)
        if want is None:
            if probs:
                fail('(a) %s [%s %r] does not walk clean: %s' % (name, kind, opts, probs))
        else:
            dirty += 1
            if want not in walker.tags(probs):
                fail('(a) %s is listed KNOWN_DIRTY with %s but the walker says %s' % (name, want, probs))
    print('(a) %d unit-test vectors, %d known-dirty' % (len(GOOD), dirty))


def part_b():
    for name, kind, opts, want, hx in BAD:
        probs = run_vector(kind, opts, bytes.fromhex(hx))
        if want not in walker.tags(probs):
            fail('(b) %s [%s %r]: expected %s, got %s' % (name, kind, opts, want, probs))
    print('(b) %d malformed unit-test vectors' % len(BAD))


# ------------------------------------------------------------------------------------------ (c) corruption corpus

def H(name):
    for n, _k, _o, hx in GOOD:
        if n == name:
            return bytes.fromhex(hx)
    raise KeyError(name)


def corpus():
    """Whole, valid messages assembled from the unit-test byte strings.  Each entry:
    (label, message, asn4, add_path, marks) where marks locates fields for the corruptions:
      attrs: offset of the attribute container inside the message, alen_off: offset of its length field,
      wlen_off, optional others set per message."""
    out = []
    # 1. IPv4 unicast, 2-octet AS (test_update 2byteas body)
    out.append(('upd-ipv4-as2', frame(2, H('test_update::test_parse_and_construct_ipv4_unicast_2byteas:85')), False, False))
    out.append(('upd-ipv4-as4', frame(2, H('test_update::test_parse_ipv4_4byteas:96')), True, False))
    out.append(('upd-ipv4-addpath', frame(2, H('test_update::test_parse_ipv4_addpath_update:106')), True, True))
    out.append(('upd-ipv6', H('test_update::test_parse_ipv6_unicast:142'), True, False))
    out.append(('upd-vpnv4', H('test_update::test_parse_and_construct_ipv4_mpls_vpn_update:160'), True, False))
    out.append(('upd-bgpls', H('test_update::test_parse_link_state:224'), True, False))
    # 2. withdrawn routes + attributes + NLRI in one message
    wd = H('test_update::test_parse_prefix_list:27')
    at = H('test_update::test_parse_attributes_ipv4:57')
    out.append(('upd-withdraw-attrs-nlri', update(at, H('a/nlri/test_ipv4_flowspec::test_parse_construct_prefix:66'), wd),
                False, False))
    out.append(('upd-withdraw-only', update(withdrawn=wd), None, False))
    # 3. EVPN type 2 inside MP_REACH, with the base attributes
    base = H('a/test_origin::test_construct:46') + attr(0x40, 2, b'') + H('a/test_localpref::test_construct:45')
    out.append(('upd-evpn', update(base + H('a/test_mpreachnlri::test_l2vpn_evpn_construct_route_type2:210')), True, False))
    # 4. SR-TE policy: MP_REACH (1,73) + tunnel encapsulation assembled from the test fragments
    srp = (H('a/test_tunnelencaps::test_construct_new_preference:83') +
           H('a/test_tunnelencaps::test_construct_new_binding_sid:78') +
           H('a/test_tunnelencaps::test_construct_enlp:124') +
           H('a/test_tunnelencaps::test_construct_priority:132') +
           H('a/test_tunnelencaps::test_construct_remote_endpoint_ipv4:148') +
           H('a/test_tunnelencaps::test_construct_policy_name:140') +
           H('a/test_tunnelencaps::test_construct_segement_lists:113')[:32])
    te = attr(0xc0, 23, struct.pack('!HH', 15, len(srp)) + srp, ext=True)
    out.append(('upd-srte', update(base + H('a/test_mpreachnlri::test_ipv4_srte_contruct:159') + te), True, False))
    # 5. flowspec, PMSI, large / extended communities
    out.append(('upd-flowspec', update(base + H('a/test_mpreachnlri::test_ipv4_flowspec_construct:143') +
                                       H('a/test_extcommunity::test_parse_construct_tarffic_rate:117')), True, False))
    out.append(('upd-pmsi', update(base + attr(0xc0, 22, H('a/test_pmsitunnel::test_construct:34')) +
                                   H('a/test_large_community::test_construct:33')), True, False))
    # 6. an AS_PATH of 64 + 64 four-octet AS numbers: 516 octets, needs the extended length
    long_path = b''.join(struct.pack('!BB', 2, 64) + b''.join(struct.pack('!I', 64512 + i) for i in range(64))
                         for _ in range(2))
    out.append(('upd-long-aspath', update(H('a/test_origin::test_construct:46') + attr(0x40, 2, long_path) +
                                          H('a/test_nexthop::test_construct:48'), bytes.fromhex('180a0000')), True, False))
    for name in ('test_open::test_construct:57', 'test_open::test_construct_add_path:75', 'test_open::test_parse_llgr:100',
                 'test_open::test_parse_add_path_llgr:119', 'test_open::test_construct_ext_nexthop:196'):
        out.append(('open:' + name, H(name), None, False))
    out.append(('open-body', frame(1, H('test_open::test_parse:31')), None, False))
    out.append(('ka', H('test_keepalive::test_construct:37'), None, False))
    out.append(('notif', H('test_notification::test_construct:34'), None, False))
    out.append(('rr5', H('test_route_refresh::test_construct_rfc_route_refresh:37'), None, False))
    out.append(('rr128', H('test_route_refresh::test_construct_cisco_route_refresh:44'), None, False))
    return out


def set16(msg, off, v):
    return msg[:off] + struct.pack('!H', v & 0xFFFF) + msg[off + 2:]


def set8(msg, off, v):
    return msg[:off] + bytes([v & 0xFF]) + msg[off + 1:]


def attr_spans(msg):
    """[(offset of the attribute in msg, flags, code, width, value offset, value length)] for a valid UPDATE."""
    wlen = struct.unpack('!H', msg[19:21])[0]
    a0 = 19 + 2 + wlen + 2
    alen = struct.unpack('!H', msg[a0 - 2:a0])[0]
    pos, out = a0, []
    while pos < a0 + alen:
        flags, code = msg[pos], msg[pos + 1]
        if flags & 0x10:
            width, ln = 2, struct.unpack('!H', msg[pos + 2:pos + 4])[0]
        else:
            width, ln = 1, msg[pos + 2]
        out.append((pos, flags, code, width, pos + 2 + width, ln))
        pos += 2 + width + ln
    return out


def expect(label, what, msg, asn4, ap, wanted, first=False):
    """wanted: a tag or a tuple of acceptable tags; at least one must be reported (first=True: as the first line)."""
    if isinstance(wanted, str):
        wanted = (wanted,)
    probs = walker.walk(msg, asn4, ap)
    got = walker.tags(probs)
    ok = bool(got) and (got[0] in wanted if first else any(t in wanted for t in got))
    if not ok:
        fail('(c) %s / %s: expected %s, walker says %s' % (label, what, '|'.join(wanted), probs))
    return 1


def part_c():
    n = 0
    msgs = corpus()
    for label, msg, asn4, ap in msgs:
        probs = walker.walk(msg, asn4, ap)
        if probs:
            fail('(c) corpus message %s is not clean: %s' % (label, probs))
    for label, msg, asn4, ap in msgs:
        t = msg[18]
        hl = struct.unpack('!H', msg[16:18])[0]
        # header length +-1 (the octets stay as they are)
        for d in (1, -1):
            n += expect(label, 'header length %+d' % d, set16(msg, 16, hl + d), asn4, ap, 'hdr-length', first=True)
        # one octet appended / removed with the header length left alone
        n += expect(label, 'octet appended', msg + b'\x00', asn4, ap, 'hdr-length', first=True)
        if len(msg) > 19:
            n += expect(label, 'last octet removed', msg[:-1], asn4, ap, 'hdr-length', first=True)
        n += expect(label, 'marker octet cleared', set8(msg, 7, 0xfe), asn4, ap, 'hdr-marker', first=True)
        if t == 2:
            n += part_c_update(label, msg, asn4, ap)
        if t == 1:
            n += part_c_open(label, msg)
    # hand-built negative cases that need particular messages
    n += part_c_special()
    print('(c) %d corpus messages, %d corruptions' % (len(msgs), n))


def part_c_update(label, msg, asn4, ap):
    n = 0
    wlen = struct.unpack('!H', msg[19:21])[0]
    aoff = 19 + 2 + wlen
    alen = struct.unpack('!H', msg[aoff:aoff + 2])[0]
    spans = attr_spans(msg)
    nlri_len = len(msg) - (aoff + 2 + alen)
    # total attribute length +-1.  +1 with no NLRI behind it overruns the body; otherwise the container gains or
    # loses an octet and the attributes no longer sum to it (or the NLRI no longer parses).
    if alen:
        for d in (1, -1):
            n += expect(label, 'total attribute length %+d' % d, set16(msg, aoff, alen + d), asn4, ap,
                        ('upd-attr-length', 'attr-header', 'attr-overrun', 'prefix-size', 'prefix-length'))
    # withdrawn routes length +-1: the attribute length is then read from the wrong place; depending on the
    # octets this shows as one of the section-length tags, a truncated withdrawn prefix, or attribute garbage
    for d in (1, -1):
        if wlen + d < 0:
            continue
        n += expect(label, 'withdrawn routes length %+d' % d, set16(msg, 19, wlen + d), asn4, ap,
                    ('upd-withdrawn-length', 'upd-attr-length', 'prefix-size', 'prefix-length', 'attr-header',
                     'attr-overrun', 'attr-flags'))
    for (pos, flags, code, width, voff, ln) in spans:
        # attribute length +-1
        for d in (1, -1):
            if ln + d < 0:
                continue
            m2 = set16(msg, pos + 2, ln + d) if width == 2 else set8(msg, pos + 2, ln + d)
            n += expect(label, 'attribute %d length %+d' % (code, d), m2, asn4, ap,
                        ('attr-overrun', 'attr-header', 'attr-value-length', 'attr-flags', 'aspath', 'mp-nlri',
                         'mp-reach', 'tlv-nesting', 'tlv-length', 'pmsi', 'attr-duplicate'))
        # wrong flag category: flip the transitive bit; set a low-nibble bit; well-known made optional
        n += expect(label, 'attribute %d transitive bit flipped' % code, set8(msg, pos, flags ^ 0x40), asn4, ap,
                    'attr-flags')
        n += expect(label, 'attribute %d low flag bit set' % code, set8(msg, pos, flags | 0x01), asn4, ap, 'attr-flags')
        if code in (1, 2, 3, 5, 6):
            n += expect(label, 'well-known attribute %d marked optional' % code, set8(msg, pos, flags | 0x80),
                        asn4, ap, 'attr-flags')
            n += expect(label, 'well-known attribute %d marked partial' % code, set8(msg, pos, flags | 0x20),
                        asn4, ap, 'attr-flags')
        if code in (4, 9, 10, 14, 15):
            n += expect(label, 'non-transitive attribute %d marked partial' % code, set8(msg, pos, flags | 0x20),
                        asn4, ap, 'attr-flags')
        # extended-length bit dropped on a > 255-octet attribute (the 2-octet length stays on the wire)
        if ln > 255:
            n += expect(label, 'attribute %d: extended-length bit dropped' % code, set8(msg, pos, flags & ~0x10),
                        asn4, ap, 'ext-len-bit', first=True)
        # extended-length bit set on an attribute that keeps its 1-octet length
        if width == 1:
            n += expect(label, 'attribute %d: extended-length bit set, 1-octet length kept' % code,
                        set8(msg, pos, flags | 0x10), asn4, ap, 'ext-len-bit', first=True)
    # duplicate the first attribute
    if spans:
        pos, _f, code, width, voff, ln = spans[0]
        dup = msg[pos:voff + ln]
        m2 = msg[:pos] + dup + msg[pos:]
        m2 = set16(set16(m2, aoff, alen + len(dup)), 16, len(m2))
        n += expect(label, 'attribute %d duplicated' % code, m2, asn4, ap, 'attr-duplicate')
    # the last prefix of the NLRI field loses its last octet (all lengths above it adjusted)
    if nlri_len and msg[-1:] != b'' and not ap:
        m2 = set16(msg[:-1], 16, len(msg) - 1)
        n += expect(label, 'last NLRI prefix loses an octet', m2, asn4, ap, 'prefix-size')
    return n


def part_c_open(label, msg):
    n = 0
    optlen = msg[28]
    for d in (1, -1):
        if 0 <= optlen + d <= 255:
            n += expect(label, 'optional parameters length %+d' % d, set8(msg, 28, optlen + d), None, False,
                        'open-optparam')
    # every optional parameter / capability
    pos = 29
    end = 29 + optlen
    nparams = 0
    while pos < end:
        ptype, plen = msg[pos], msg[pos + 1]
        nparams += 1
        last = pos + 2 + plen == end
        for d in (1, -1):
            # the last parameter growing overruns the parameter area; any other change moves the cursor so that
            # the capability inside no longer fits or the next parameter header is read from capability octets
            n += expect(label, 'parameter #%d length %+d' % (nparams, d), set8(msg, pos + 1, plen + d), None, False,
                        ('open-optparam',) if (last and d == 1) else ('open-optparam', 'cap-length'))
        if ptype == 2:
            c = pos + 2
            while c < pos + 2 + plen:
                code, cl = msg[c], msg[c + 1]
                for d in (1, -1):
                    if cl + d < 0:
                        continue
                    n += expect(label, 'capability %d length %+d' % (code, d), set8(msg, c + 1, cl + d), None, False,
                                'cap-length')
                c += 2 + cl
        pos += 2 + plen
    return n


def part_c_special():
    n = 0
    base = H('a/test_origin::test_construct:46') + attr(0x40, 2, b'') + H('a/test_localpref::test_construct:45')

    def mp(value):
        return update(base + attr(0x80, 14, value, ext=True))

    def mpun(value):
        return update(attr(0x80, 15, value, ext=True))

    # --- EVPN length octet +-1, for every route type of the unit tests
    for name in ('test_parse_mac_ip_adv:24', 'test_parse_eth_auto_dis:57', 'test_parse_in_mul_eth_tag:88',
                 'test_parse_eth_segment:112', 'test_parse_ip_route_prefix_v4:141', 'test_parse_ip_route_prefix_v6:172'):
        ev = H('a/nlri/test_evpn::' + name)
        head = struct.pack('!HBB', 25, 70, 4) + bytes([10, 0, 0, 1]) + b'\x00'
        assert walker.walk(mp(head + ev), True) == [], name
        for d in (1, -1):
            bad = ev[:1] + bytes([ev[1] + d]) + ev[2:]
            n += expect('evpn ' + name, 'EVPN length octet %+d' % d, mp(head + bad), True, False, 'mp-nlri')
            n += expect('evpn ' + name, 'EVPN length octet %+d (withdraw)' % d,
                        mpun(struct.pack('!HB', 25, 70) + bad), True, False, 'mp-nlri')
            n += expect('evpn ' + name, 'EVPN length octet %+d, second route follows' % d, mp(head + bad + ev), True, False,
                        'mp-nlri')
        # an octet of the route removed while the length octet stays
        n += expect('evpn ' + name, 'EVPN route loses an octet', mp(head + ev[:-1]), True, False, 'mp-nlri')
    # EVPN type 2: MAC length 47, IP length 31
    ev = bytearray(H('a/nlri/test_evpn::test_parse_mac_ip_adv:24'))
    head = struct.pack('!HBB', 25, 70, 4) + bytes([10, 0, 0, 1]) + b'\x00'
    e2 = bytes(ev[:24]) + b'\x2f' + bytes(ev[25:])
    n += expect('evpn type 2', 'MAC length 47', mp(head + e2), True, False, 'mp-nlri')
    e2 = bytes(ev[:31]) + b'\x1f' + bytes(ev[32:])
    n += expect('evpn type 2', 'IP length 31', mp(head + e2), True, False, 'mp-nlri')

    # --- prefixes with a missing octet in MP families
    v6 = H('a/nlri/test_ipv6_unicast::test_parse:25')
    h6 = struct.pack('!HBB', 2, 1, 16) + bytes(15) + b'\x01' + b'\x00'
    assert walker.walk(mp(h6 + v6), True) == []
    n += expect('ipv6 unicast', 'last prefix loses an octet', mp(h6 + v6[:-1]), True, False, 'mp-nlri')
    n += expect('ipv6 unicast', 'prefix length 129', mp(h6 + b'\x81' + bytes(17)), True, False, 'mp-nlri')
    n += expect('ipv6 unicast', 'withdraw: last prefix loses an octet', mpun(struct.pack('!HB', 2, 1) + v6[:-1]),
                True, False, 'mp-nlri')
    n += expect('ipv6 unicast', 'next hop of 4 octets', mp(struct.pack('!HBB', 2, 1, 4) + bytes(4) + b'\x00' + v6),
                True, False, 'mp-nexthop')
    n += expect('ipv6 unicast', 'reserved octet 1', mp(h6[:-1] + b'\x01' + v6), True, False, 'mp-reach')
    n += expect('ipv6 unicast', 'next-hop length overruns', mp(struct.pack('!HBB', 2, 1, 200) + bytes(20)), True, False,
                'mp-reach')
    vpn = H('a/nlri/test_ipv4_mpls_vpn::test_parse:26')
    hv = struct.pack('!HBB', 1, 128, 12) + bytes(8) + bytes([10, 0, 0, 1]) + b'\x00'
    assert walker.walk(mp(hv + vpn), True) == []
    n += expect('vpnv4', 'prefix loses an octet', mp(hv + vpn[:-1]), True, False, 'mp-nlri')
    n += expect('vpnv4', 'length 87 bits (< label + RD)', mp(hv + b'\x57' + vpn[1:12]), True, False, 'mp-nlri')
    n += expect('vpnv4', 'label without bottom-of-stack', mp(hv + vpn[:3] + b'\x90' + vpn[4:]), True, False, 'mp-nlri')
    n += expect('vpnv4', 'length 121 bits -> 33 prefix bits', mp(hv + b'\x79' + vpn[1:] + b'\x00'), True, False, 'mp-nlri')
    lu = H('a/nlri/labeled_unicast/test_ipv4_labeled_unicast::test_construct:28')
    hl = struct.pack('!HBB', 1, 4, 4) + bytes([10, 0, 0, 1]) + b'\x00'
    assert walker.walk(mp(hl + lu), True) == []
    n += expect('ipv4 labeled', 'prefix loses an octet', mp(hl + lu[:-1]), True, False, 'mp-nlri')
    # (with prefix octets 22 01 29 the walk would find a set low bit in the prefix and read a legal 2-label stack
    # with a /0 prefix: an inherent ambiguity of the encoding, so the prefix used here is 22 01 28)
    n += expect('ipv4 labeled', 'label without bottom-of-stack', mp(hl + lu[:3] + b'\x10\x22\x01\x28'), True, False,
                'mp-nlri')
    # withdraw with the 0x800000 label and with an arbitrary single field: both legal
    assert walker.walk(mpun(struct.pack('!HB', 1, 4) + b'\x30\x80\x00\x00\x22\x01\x29'), True) == []
    assert walker.walk(mpun(struct.pack('!HB', 1, 4) + b'\x30\x00\x14\x10\x22\x01\x29'), True) == []

    # --- SR-TE policy NLRI
    sr = H('a/nlri/test_ipv4_srte::test_construct:24')
    hs = struct.pack('!HBB', 1, 73, 4) + bytes([10, 0, 0, 1]) + b'\x00'
    assert walker.walk(mp(hs + sr), True) == []
    n += expect('sr-te', 'length 192 under AFI 1', mp(hs + b'\xc0' + sr[1:] + bytes(12)), True, False, 'mp-nlri')
    n += expect('sr-te', 'NLRI loses an octet', mp(hs + sr[:-1]), True, False, 'mp-nlri')
    assert walker.walk(mp(struct.pack('!HBB', 2, 73, 16) + bytes(16) + b'\x00' + b'\xc0' + bytes(24)), True) == []

    # --- flowspec
    fs = H('a/nlri/test_ipv4_flowspec::test_construct_nlri:97')
    hf = struct.pack('!HBB', 1, 133, 0) + b'\x00'
    assert walker.walk(mp(hf + fs), True) == []
    for d in (1, -1):
        n += expect('flowspec', 'NLRI length %+d' % d, mp(hf + bytes([fs[0] + d]) + fs[1:]), True, False, 'mp-nlri')
    n += expect('flowspec', 'end-of-list bit missing', mp(hf + fs[:-3] + b'\x11' + fs[-2:]), True, False, 'mp-nlri')
    n += expect('flowspec', 'operator length 2 with a 1-octet value', mp(hf + b'\x03\x03\x91\x06'), True, False, 'mp-nlri')
    n += expect('flowspec', 'prefix component loses an octet', mp(hf + b'\x04\x01\x18\xc0\x55'), True, False, 'mp-nlri')
    big = b'\x01\x18\xc0\x55\x02' + b''.join(b'\x03' + b'\x01\x06' * 40 + b'\x81\x11' for _ in range(3))
    assert len(big) >= 240
    assert walker.walk(mp(hf + struct.pack('!H', 0xF000 | len(big)) + big), True) == []
    n += expect('flowspec', '>= 240 octets with a plain 16-bit length', mp(hf + struct.pack('!H', len(big)) + big),
                True, False, 'mp-nlri')
    h6f = struct.pack('!HBB', 2, 133, 0) + b'\x00'
    # IPv6: length 64 offset 0 -> 8 octets; length 40 offset 32 -> 1 octet; length 9 offset 7 -> 1 octet
    assert walker.walk(mp(h6f + b'\x0b\x01\x40\x00' + bytes(8)), True) == []
    assert walker.walk(mp(h6f + b'\x04\x01\x28\x20\xaa'), True) == []
    assert walker.walk(mp(h6f + b'\x04\x01\x09\x07\x80'), True) == []
    n += expect('flowspec6', 'length 9 offset 7 with two pattern octets', mp(h6f + b'\x05\x01\x09\x07\x80\x00'),
                True, False, 'mp-nlri')
    n += expect('flowspec6', 'length 64 with 7 pattern octets', mp(h6f + b'\x0a\x01\x40\x00' + bytes(7)), True, False,
                'mp-nlri')
    n += expect('flowspec6', 'offset beyond length', mp(h6f + b'\x03\x01\x08\x09'), True, False, 'mp-nlri')

    # --- tunnel encapsulation: every sub-TLV length +-1, tunnel TLV length +-1
    msgs = dict((m[0], m) for m in corpus())
    _l, msg, asn4, ap = msgs['upd-srte']
    span = [s for s in attr_spans(msg) if s[2] == 23][0]
    voff, ln = span[4], span[5]
    for d in (1, -1):
        tl = struct.unpack('!H', msg[voff + 2:voff + 4])[0]
        n += expect('tunnel-encap', 'tunnel TLV length %+d' % d, set16(msg, voff + 2, tl + d), asn4, ap, 'tlv-nesting')
    p = voff + 4
    while p < voff + ln:
        st = msg[p]
        if st < 128:
            sl, hdr = msg[p + 1], 2
        else:
            sl, hdr = struct.unpack('!H', msg[p + 1:p + 3])[0], 3
        for d in (1, -1):
            m2 = set8(msg, p + 1, sl + d) if hdr == 2 else set16(msg, p + 1, sl + d)
            n += expect('tunnel-encap', 'sub-TLV %d length %+d' % (st, d), m2, asn4, ap, ('tlv-nesting', 'tlv-length'))
        if st == 128:
            q = p + hdr + 1
            while q < p + hdr + sl:
                for d in (1, -1):
                    n += expect('tunnel-encap', 'segment-list sub-TLV %d length %+d' % (msg[q], d),
                                set8(msg, q + 1, msg[q + 1] + d), asn4, ap, ('tlv-nesting', 'tlv-length'))
                q += 2 + msg[q + 1]
        p += hdr + sl
    # policy name (type 129 >= 128) written with a 1-octet length
    bad = struct.pack('!HH', 15, 6) + b'\x81\x04\x00abc'
    n += expect('tunnel-encap', 'sub-TLV 129 with a 1-octet length', update(base + attr(0xc0, 23, bad)), True, False,
                ('tlv-nesting', 'tlv-length'))

    # --- PMSI
    pm = H('a/test_pmsitunnel::test_construct:34')
    n += expect('pmsi', 'ingress replication with a 3-octet identifier', update(base + attr(0xc0, 22, pm[:-1])), True,
                False, 'pmsi')
    n += expect('pmsi', 'no-tunnel type with an identifier', update(base + attr(0xc0, 22, b'\x00\x00' + pm[2:])), True,
                False, 'pmsi')
    n += expect('pmsi', 'value of 4 octets', update(base + attr(0xc0, 22, pm[:4])), True, False, 'pmsi')
    assert walker.walk(update(base + attr(0xc0, 22, b'\x00\x00\x00\x00\x00')), True) == []

    # --- AS width
    two = H('a/test_aspath::test_construct:58')
    assert walker.walk(update(two), None) == [] and walker.walk(update(two), False) == []
    n += expect('aspath', '2-octet path read as 4-octet', update(two), True, False, 'aspath')
    n += expect('aspath', 'segment count +1', update(two[:4] + b'\x05' + two[5:]), None, False, 'aspath')
    n += expect('aggregator', '6 octets with asn4', update(H('a/test_aggregator::test_construct:51')), True, False,
                'attr-value-length')

    # --- header range / type / type-specific lengths
    n += expect('header', 'length 4097', update(attr(0xc0, 99, bytes(4070), ext=True)), None, False, 'hdr-range')
    assert len(update(attr(0xc0, 99, bytes(4069), ext=True))) == 4096
    assert walker.walk(update(attr(0xc0, 99, bytes(4069), ext=True))) == []
    n += expect('header', 'type 6', frame(6, b''), None, False, 'hdr-type')
    n += expect('header', '18 octets', MARKER + b'\x00\x12', None, False, 'hdr-short')
    n += expect('keepalive', '20 octets', frame(4, b'\x00'), None, False, 'msg-length')
    n += expect('notification', '20 octets', frame(3, b'\x06'), None, False, 'msg-length')
    n += expect('open', '28 octets', frame(1, bytes(9)), None, False, 'msg-length')
    n += expect('update', '22 octets', frame(2, bytes(3)), None, False, 'msg-length')
    n += expect('route-refresh', '22 octets', frame(5, bytes(3)), None, False, 'msg-length')
    n += expect('route-refresh', 'type 128 with 24 octets', frame(128, bytes(5)), None, False, 'msg-length')
    n += expect('route-refresh', 'type 5 with one trailing octet', frame(5, bytes(5)), None, False, 'rr-orf')
    assert walker.walk(frame(5, b'\x00\x01\x00\x01' + b'\x01' + b'\x40\x00\x01\x80')) == []   # RFC 5291 ORF
    n += expect('route-refresh', 'ORF length +1', frame(5, b'\x00\x01\x00\x01' + b'\x01' + b'\x40\x00\x02\x80'), None,
                False, 'rr-orf')
    assert walker.walk(frame(3, b'\x06\x02' + bytes(100))) == []
    # RFC 9072 extended optional parameters
    caps = b'\x41\x04\x00\x00\xfd\xe8'
    ext = b'\xff' + struct.pack('!H', 3 + len(caps)) + b'\x02' + struct.pack('!H', len(caps)) + caps
    assert walker.walk(frame(1, struct.pack('!BHHIB', 4, 65000, 180, 1, 255) + ext)) == []
    return n


def part_d():
    """Robustness: the walker never raises and always returns well-formed problem lines - every truncation of every
    corpus message and every octet set to 0x00 / 0xFF / +1 / ^0x80 (the single-mutation menu of DESIGN C10)."""
    n = 0
    for label, msg, asn4, ap in corpus():
        variants = [msg[:i] for i in range(len(msg))]
        for i in range(len(msg)):
            for v in (0x00, 0xff, (msg[i] + 1) & 0xff, msg[i] ^ 0x80):
                if v != msg[i]:
                    variants.append(msg[:i] + bytes([v]) + msg[i + 1:])
        for m in variants:
            for a4 in (asn4, None):
                n += 1
                try:
                    probs = walker.walk(m, a4, ap)
                except Exception as e:   # noqa
                    fail('(d) %s: walker raised %r on %s' % (label, e, m.hex()))
                    continue
                for p in probs:
                    if not isinstance(p, str) or ': ' not in p or ' ' in p.split(': ', 1)[0]:
                        fail('(d) %s: malformed problem line %r' % (label, p))
    print('(d) %d mutated / truncated messages walked without an exception' % n)


def part_e():
    """The construct-only pools: API shape, determinism, size of the quick tier."""
    from vf.ref import pools_c08
    kinds = {'update': 2, 'notification': 3, 'route_refresh': 4, 'keepalive': None, 'open': 5}
    first = [(f, cv, k, repr(p)) for f, cv, k, p in pools_c08.c08_cases('quick')]
    second = [(f, cv, k, repr(p)) for f, cv, k, p in pools_c08.c08_cases('quick')]
    if first != second:
        fail('(e) c08_cases(quick) is not deterministic')
    if not 1000 <= len(first) <= 30000:
        fail('(e) quick tier has %d cases, expected 1000..30000' % len(first))
    fams = []
    for (f, cv, k, _r), (_f, _cv, _k, p) in zip(first, pools_c08.c08_cases('quick')):
        if f not in fams:
            fams.append(f)
        if f not in pools_c08.FAMILIES or k not in kinds:
            fail('(e) unknown family / kind %r %r' % (f, k))
        if not (isinstance(cv, tuple) and cv and cv[0] in ('core', 'extra') and all(isinstance(c, str) for c in cv)):
            fail('(e) bad class vector %r' % (cv,))
        if kinds[k] is None:
            if p is not None:
                fail('(e) keepalive payload must be None')
        elif not (isinstance(p, tuple) and len(p) == kinds[k]):
            fail('(e) payload of kind %s has the wrong shape: %r' % (k, p))
        if k == 'update' and not (isinstance(p[0], dict) and 'attr' in p[0] and isinstance(p[1], bool)):
            fail('(e) update payload is not (msg_dict, asn4): %r' % (p,))
    if tuple(fams) != pools_c08.FAMILIES:
        fail('(e) families come in the order %r' % (fams,))
    print('(e) pools_c08 quick: %d cases, deterministic; families %s' % (len(first), pools_c08.count('quick')))


def main():
    part_a()
    part_b()
    part_c()
    part_d()
    part_e()
    if FAILS:
        print('selftest_walker: %d FAILURE(S)' % len(FAILS))
        return 1
    print('selftest_walker: OK')
    return 0


if __name__ == '__main__':
    sys.exit(main())
