"""Input pools for C06 / C07 (and, through them, C08 / C09 / C10) and element pools for C15.
Follows the "A" paragraphs of DESIGN.md section 7 literally; deterministic order, simplest first.
Nothing here imports yabgp.

c06_cases(tier) / c07_cases(tier) yield (family, class_vector, msg, asn4)
    family        str, e.g. 'ipv4-unicast', 'attr:AS_PATH', 'attr-subset', 'ipv6-unicast', 'vpnv4', 'evpn', 'flowspec'
    class_vector  tuple of 'field=class' strings, the classes being those of DESIGN section 8:
                  plen   0 | 1-7 | octet | other          (per route, joined with '+', 'mixed' for long lists)
                  addr   <2^32 | other                    (IPv6 only: numeric value of the address)
                  label  0 | max | other                  (per label, joined with '+')
                  n      0 | 1 | 2 | many                 (list length)
                  int    <2^31 | >=2^31 ;  asn 2-octet | 4-octet ; where nlri | withdraw | both ;
                  dir reach | unreach ; rd type0|type1|type2 ; esi t0..t5 ; ip none|v4|v6 ; ...
    msg           {'attr': {...}, 'nlri': [...], 'withdraw': [...]} in yabgp's input shapes
element_pools() -> {kind: [element encodings (bytes)]}

Pool facts worth knowing:
  * Values are shared between cases (the same list / dict object appears in many messages): treat every
    msg as read-only, deep-copy before handing it to code that may mutate its input.
  * RD type 2 needs an AS above 65535 to be expressible in yabgp's text form (upd.py SHAPE DECISION 12), so
    its AS field uses {65536, 65537, 2^32-1} instead of {0, 1, max}.
  * EVPN type-5 routes give 'esi' as a bare integer (yabgp's construct shape, upd.py SHAPE DECISION 13).
  * Every variable-length attribute other than AS_PATH stays <= 255 value octets (DESIGN C06).
"""
import ipaddress
import itertools

from vf.ref import upd

M32 = 2 ** 32 - 1
INT_BOUNDS = (0, 1, 2 ** 15, 2 ** 16 - 1, 2 ** 16, 2 ** 31, 2 ** 32 - 1)
ASN2 = (1, 0, 2 ** 15, 2 ** 16 - 1, 23456)
ASN4 = ASN2 + (2 ** 16, 2 ** 31, 2 ** 32 - 1)
IP4_BOUNDS = ('10.0.0.1', '0.0.0.0', '0.0.0.1', '127.255.255.255', '128.0.0.0', '255.255.255.255')
SEG_LENGTHS = (0, 1, 2, 63, 64, 127, 128, 255, 256, 600)      # 256, 600: more than one segment can count (must be refused, or split correctly)
LABELS = (0, 1, 3, 15, 16, 524288, 2 ** 20 - 1)      # 524288: its wire form 0x800000 is also the "no label" filler of withdrawals
BASE_ATTR = {1: 0, 2: [(2, [64512])], 3: '192.0.2.1'}
WK_NAMES = tuple(n for _, n in upd.WELL_KNOWN_COMMUNITIES)


# ------------------------------------------------------------------ classes
def plen_class(n):
    return '0' if n == 0 else '1-7' if n < 8 else 'octet' if n % 8 == 0 else 'other'


def addr_class(v):
    return '<2^32' if v < 2 ** 32 else 'other'


def label_class(v):
    return '0' if v == 0 else 'max' if v == 2 ** 20 - 1 else 'other'


def n_class(n):
    return str(n) if n < 3 else 'many'


def int_class(v):
    return '<2^31' if v < 2 ** 31 else '>=2^31'


def asn_class(v):
    return '2-octet' if v < 2 ** 16 else '4-octet'


def _join(classes):
    classes = list(classes)
    return '+'.join(classes) if len(classes) <= 3 else 'mixed'


# ------------------------------------------------------------------ prefixes
class P(object):
    """One prefix of the pool."""
    __slots__ = ('text', 'plen', 'value', 'version')

    def __init__(self, version, value, plen):
        self.version, self.value, self.plen = version, value, plen
        addr = ipaddress.IPv4Address(value) if version == 4 else ipaddress.IPv6Address(value)
        self.text = '%s/%d' % (addr.compressed, plen)

    def cv(self):
        out = ['plen=' + plen_class(self.plen)]
        if self.version == 6:
            out.append('addr=' + addr_class(self.value))
        return out


def prefix_pool(version, lengths=None):
    """every length x {all-zero, all-one masked, alternating 0xAA.., single bit at the last
    significant position}, duplicates removed, simplest first."""
    width = 32 if version == 4 else 128
    alt = int('aa' * (width // 8), 16)
    out, seen = [], set()
    for plen in (range(width + 1) if lengths is None else lengths):
        mask = ((1 << plen) - 1) << (width - plen)
        for v in (0, mask, alt & mask, (1 << (width - plen)) if plen else 0):
            if (v, plen) not in seen:
                seen.add((v, plen))
                out.append(P(version, v, plen))
    return out


V4_EDGE_LENGTHS = (0, 1, 7, 8, 9, 16, 17, 24, 25, 31, 32)
V6_EDGE_LENGTHS = (0, 1, 7, 8, 9, 63, 64, 65, 95, 96, 97, 104, 120, 127, 128)


def _cv_list(ps):
    cv = ['n=' + n_class(len(ps)), 'plen=' + _join(plen_class(p.plen) for p in ps)]
    if ps and ps[0].version == 6:
        cv.append('addr=' + _join(addr_class(p.value) for p in ps))
    return cv


# ------------------------------------------------------------------ attribute value pools
def _fill(n, asns, start=0):
    return [asns[(start + i) % len(asns)] for i in range(n)]


def aspath_pool(asn4, tier, segments):
    """AS_PATH values with `segments` segments: every type 1-4 x every length of SEG_LENGTHS."""
    asns = ASN4 if asn4 else ASN2
    kinds = [(t, n) for n in SEG_LENGTHS for t in (2, 1, 3, 4)]
    if segments == 1:
        combos = [(k,) for k in kinds]
    elif segments == 2:
        combos = itertools.product(kinds, repeat=2)
    elif tier == 'thorough':
        combos = itertools.product(kinds, repeat=3)
    else:
        # quick: all length triples x four type rotations
        rots = ((2, 2, 2), (2, 1, 2), (3, 4, 2), (1, 3, 4))
        combos = (tuple((r[i], ln[i]) for i in range(3)) for r in rots for ln in itertools.product(SEG_LENGTHS, repeat=3))
    for combo in combos:
        value = [(t, _fill(n, asns, i)) for i, (t, n) in enumerate(combo)]
        octets = sum(2 + n * (4 if asn4 else 2) for _, n in combo)
        cv = ['segs=%d' % len(combo), 'types=' + '+'.join(str(t) for t, _ in combo),
              'seglen=' + '+'.join(n_class(n) if n < 3 else str(n) for _, n in combo),
              'octets=' + ('<=255' if octets <= 255 else '>255')]
        yield value, cv


def community_pool(tier):
    singles = list(WK_NAMES)
    b = (0, 1, 2 ** 15, 2 ** 16 - 1)
    singles += ['%d:%d' % (h, l) for h in b for l in b]
    singles += ['65535:65281', 'no_export', 'Blackhole']       # value of a name; case-insensitive names
    for c in singles:
        yield [c], ['n=1', 'kind=' + ('name' if not c[0].isdigit() else 'hi:lo')]
    pairs = itertools.product(singles, repeat=2) if tier == 'thorough' else \
        ((singles[i], singles[(i * 7 + 3) % len(singles)]) for i in range(len(singles)))
    for a, c in pairs:
        yield [a, c], ['n=2', 'kind=mixed']
    yield ['%d:%d' % (i, 65535 - i) for i in range(63)], ['n=many', 'kind=hi:lo']
    yield [singles[i % len(singles)] for i in range(63)], ['n=many', 'kind=mixed']


def large_pool(tier):
    b = (0, 1, 2 ** 31, 2 ** 32 - 1)
    singles = ['%d:%d:%d' % t for t in itertools.product(b, repeat=3)]
    for c in singles:
        yield [c], ['n=1', 'int=' + _join(int_class(int(x)) for x in c.split(':'))]
    pairs = itertools.product(singles, repeat=2) if tier == 'thorough' else \
        ((singles[i], singles[(i * 5 + 1) % len(singles)]) for i in range(len(singles)))
    for a, c in pairs:
        yield [a, c], ['n=2', 'int=mixed']
    yield [singles[0], singles[21], singles[42]], ['n=many', 'int=mixed']
    yield [singles[(i * 3) % len(singles)] for i in range(21)], ['n=many', 'int=mixed']


MACS = ('00-11-22-33-44-55', '00-00-00-00-00-00', 'FF-FF-FF-FF-FF-FF', '4C-1F-CC-EC-17-73', '00-00-00-00-00-01')


def ext_kinds():
    """Encode-shape items per kind (the kinds of C17) x field boundary values."""
    as2, as4 = (0, 1, 65535), (65536, 2 ** 32 - 1)
    n32, n16 = (0, 1, 2 ** 31, 2 ** 32 - 1), (0, 1, 65535)
    ips = ('10.10.10.10', '0.0.0.0', '255.255.255.255')
    out = []
    for name, c0, c1, c2 in (('route-target', 0x0002, 0x0102, 0x0202), ('route-origin', 0x0003, 0x0103, 0x0203)):
        out += [(name + '-0', [c0, '%d:%d' % (a, n)]) for a in as2 for n in n32]
        out += [(name + '-1', [c1, '%s:%d' % (i, n)]) for i in ips for n in n16]
        out += [(name + '-2', [c2, '%d:%d' % (a, n)]) for a in as4 for n in n16]
    out += [('redirect-vrf', [0x8008, '%d:%d' % (a, n)]) for a in as2 for n in n32]
    out += [('dmzlink-bw', [0x4004, '%d:%d' % (a, n)]) for a in as2 for n in n32]
    out += [('redirect-nexthop', [0x0800, i, f]) for i in ips for f in (0, 1)]
    out += [('traffic-rate', [0x8006, '%d:%d' % (a, r)]) for a in as2 for r in (0, 1, 6250000, 2 ** 24, 2 ** 31)]
    out += [('traffic-action', [0x8007, {'s': s, 't': t}]) for s in (0, 1) for t in (0, 1)]
    out += [('traffic-marking-dscp', [0x8009, d]) for d in (0, 1, 40, 63)]
    out += [('color', [0x030b, n]) for n in n32]
    out += [('color-co', [c, n]) for c in (0x030b0000, 0x030b4000, 0x030b8000, 0x030bc000) for n in (0, 10, 2 ** 32 - 1)]
    out += [('encapsulation', [0x030c, n]) for n in (0, 8, 65535)]
    out += [('es-import', [0x0602, m]) for m in MACS]
    out += [('router-mac', [0x0603, m]) for m in MACS]
    out += [('mac-mobility', [0x0600, f, s]) for f in (0, 1, 255) for s in n32]
    out += [('esi-label', [0x0601, f, l]) for f in (0, 1, 255) for l in (0, 1, 20, 2 ** 20 - 1)]
    return out


def ext_pool(tier):
    kinds = ext_kinds()
    for name, item in kinds:
        yield [item], ['n=1', 'kind=' + name]
    firsts = []
    for name, item in kinds:
        if name not in [f[0] for f in firsts]:
            firsts.append((name, item))
    for (na, a), (nb, b) in itertools.permutations(firsts, 2):
        yield [a, b], ['n=2', 'kind=%s+%s' % (na, nb)]
    yield [item for _, item in firsts], ['n=many', 'kind=mixed']
    yield [kinds[(i * 7) % len(kinds)][1] for i in range(31)], ['n=many', 'kind=mixed']


def cluster_pool():
    for ip in IP4_BOUNDS:
        yield [ip], ['n=1']
    for a, b in itertools.permutations(IP4_BOUNDS[:4], 2):
        yield [a, b], ['n=2']
    yield list(IP4_BOUNDS[:3]), ['n=many']
    yield ['10.0.%d.%d' % (i, 255 - i) for i in range(63)], ['n=many']


def attr_pool(code, asn4, tier):
    """(value, class-vector) pairs for one attribute type, whole pool."""
    asns = ASN4 if asn4 else ASN2
    if code == 1:
        return [(v, ['origin=%d' % v]) for v in (0, 1, 2)]
    if code == 2:
        out = [([], ['segs=0', 'types=', 'seglen=', 'octets=<=255'])]
        for s in (1, 2, 3):
            out += list(aspath_pool(asn4, tier, s))
        return out
    if code in (3, 9):
        return [(ip, ['ip=' + ip]) for ip in IP4_BOUNDS]
    if code in (4, 5):
        return [(v, ['int=' + int_class(v)]) for v in INT_BOUNDS]
    if code == 6:
        return [('', ['empty'])]
    if code == 7:
        return [((a, ip), ['asn=' + asn_class(a), 'ip=' + ip]) for a in asns for ip in IP4_BOUNDS]
    if code == 8:
        return list(community_pool(tier))
    if code == 10:
        return list(cluster_pool())
    if code == 16:
        return list(ext_pool(tier))
    if code == 32:
        return list(large_pool(tier))
    raise KeyError(code)


C06_CODES = (1, 2, 3, 4, 5, 6, 7, 8, 9, 10, 16, 32)
REPRESENTATIVE = {1: 2, 2: [(2, [64512, 65001]), (1, [100, 200])], 3: '10.0.0.9', 4: 100, 5: 200, 6: '',
                  7: (64512, '10.0.0.9'), 8: ['64512:100', 'NO_EXPORT'], 9: '10.0.0.7', 10: ['10.0.0.5', '10.0.0.6'],
                  16: [[2, '64512:100'], [0x8009, 40]], 32: ['64512:1:2']}


def reduced_attr_pool(code, asn4, tier):
    """Small pools for the pairwise section: boundary picks of every attribute."""
    n = 6 if tier == 'quick' else 16
    full = attr_pool(code, asn4, 'quick')
    if len(full) <= n:
        return full
    step = len(full) / float(n)
    picks = sorted(set([0, len(full) - 1] + [int(i * step) for i in range(n)]))
    return [full[i] for i in picks][:n]


# ------------------------------------------------------------------ C06
def c06_cases(tier='quick'):
    fam = 'ipv4-unicast'
    pool = prefix_pool(4)
    nxt = dict((pool[i].text, pool[(i + 1) % len(pool)]) for i in range(len(pool)))

    def msgs(ps):
        """nlri / withdraw / both for one prefix list."""
        texts = [p.text for p in ps]
        cv = _cv_list(ps)
        yield fam, tuple(['where=nlri'] + cv), {'attr': dict(BASE_ATTR), 'nlri': texts}, False
        yield fam, tuple(['where=withdraw'] + cv), {'withdraw': texts}, False
        other = [(nxt.get(p.text) or P(4, p.value ^ 0x40000000, p.plen)).text for p in reversed(ps)]
        yield fam, tuple(['where=both'] + cv), {'attr': dict(BASE_ATTR), 'nlri': texts, 'withdraw': other}, False
        # withdrawn routes together with path attributes but no NLRI (what an agent sends when it withdraws IPv4
        # routes and carries MP_REACH / other attributes in the same message)
        if texts:
            yield fam, tuple(['where=withdraw+attrs'] + cv), {'attr': dict(BASE_ATTR), 'withdraw': texts}, False
            # the same prefixes withdrawn and announced in one message (RFC 4271 4.3 discourages it, every speaker accepts it)
            yield fam, tuple(['where=both-same'] + cv), {'attr': dict(BASE_ATTR), 'nlri': texts, 'withdraw': texts}, False

    # 1. every single prefix
    for p in pool:
        for case in msgs([p]):
            yield case
    # 2. lists of 0, 3 and 300 elements
    for case in msgs([]):
        yield case
    by_class = {}
    for p in pool:
        by_class.setdefault(plen_class(p.plen), []).append(p)
    for trio in itertools.permutations(['0', '1-7', 'octet', 'other'], 3):
        for case in msgs([by_class[c][-1] for c in trio]):
            yield case
    host = [P(4, (10 << 24) + i * 257, 32) for i in range(300)]
    mixed = [pool[(i * 7) % len(pool)] for i in range(300)]
    for ps in (host, mixed):
        for case in msgs(ps):
            yield case
    # 3. all 2-element lists over the whole pool (both tiers)
    for a, b in itertools.product(pool, repeat=2):
        for case in msgs([a, b]):
            yield case
    # 4. each attribute alone over its whole pool
    for code in C06_CODES:
        for asn4 in (False, True):
            for value, cv in attr_pool(code, asn4, tier):
                yield 'attr:' + upd.ATTR_NAME[code], tuple(cv), {'attr': {code: value}}, asn4
    # 5. all 2^12 subsets, one representative each
    for mask in range(1, 1 << len(C06_CODES)):
        codes = [c for i, c in enumerate(C06_CODES) if mask >> i & 1]
        attr = dict((c, REPRESENTATIVE[c]) for c in codes)
        for asn4 in (False, True):
            yield 'attr-subset', ('codes=' + '+'.join(map(str, codes)),), {'attr': attr, 'nlri': ['192.0.2.0/24']}, asn4
    # 6. pairwise: every pair of attributes x every pair of (reduced-pool) values
    for asn4 in (False, True):
        red = dict((c, reduced_attr_pool(c, asn4, tier)) for c in C06_CODES)
        for a, b in itertools.combinations(C06_CODES, 2):
            for (va, cva), (vb, cvb) in itertools.product(red[a], red[b]):
                yield 'attr-pair:%d+%d' % (a, b), tuple(cva + cvb), {'attr': {a: va, b: vb}}, asn4
    # 7. announce + withdraw + the full attribute set together
    for asn4 in (False, True):
        for p in pool:
            yield (fam, tuple(['where=both', 'attrs=all'] + _cv_list([p])),
                   {'attr': dict(REPRESENTATIVE), 'nlri': [p.text], 'withdraw': [nxt[p.text].text]}, asn4)


# ------------------------------------------------------------------ C07 helpers
NH6 = ('2001:db8::1', '::1', '::ffff:10.0.0.1', 'ffff:ffff:ffff:ffff:ffff:ffff:ffff:ffff', '::1:0:0')
LL6 = ('fe80::1', 'fe80::c002:bff:fe7e:0', 'febf:ffff:ffff:ffff:ffff:ffff:ffff:ffff')
NH4 = ('10.0.0.1', '0.0.0.1', '255.255.255.255')
STACKS = [[l] for l in LABELS] + [[a, b] for a in LABELS for b in LABELS]
STACKS_FEW = ([1], [0], [2 ** 20 - 1], [16, 3], [0, 0], [2 ** 20 - 1, 2 ** 20 - 1])


def rd_pool():
    out = []
    for a in (0, 1, 65535):
        for n in (0, 1, 2 ** 32 - 1):
            out.append(('type0', '%d:%d' % (a, n)))
    for ip in ('0.0.0.0', '0.0.0.1', '255.255.255.255'):
        for n in (0, 1, 65535):
            out.append(('type1', '%s:%d' % (ip, n)))
    for a in (65536, 65537, 2 ** 32 - 1):
        for n in (0, 1, 65535):
            out.append(('type2', '%d:%d' % (a, n)))
    return out


RDS = rd_pool()
RDS_FEW = (RDS[4], RDS[0], RDS[8], RDS[13], RDS[17], RDS[22], RDS[26])


def _stack_cv(stack):
    return 'label=' + '+'.join(label_class(l) for l in stack)


def _nh_cv(text):
    if isinstance(text, dict):
        text = text['str']
    if ':' not in text:
        return 'nh=v4'
    return 'nh=v6' + addr_class(int(ipaddress.IPv6Address(text)))


def _reach(afi, safi, nexthop, routes, extra=None):
    v = {'afi_safi': (afi, safi), 'nexthop': nexthop, 'nlri': routes}
    v.update(extra or {})
    attr = dict(BASE_ATTR)
    del attr[3]
    attr[14] = v
    return {'attr': attr}


def _unreach(afi, safi, routes):
    return {'attr': {15: {'afi_safi': (afi, safi), 'withdraw': routes}}}


def _lists23(items, tier, few=40):
    """2- and 3-element lists: all ordered pairs over a reduced pool (thorough: the whole pool when it
    is small), sliding triples."""
    red = items if (tier == 'thorough' and len(items) <= 600) else items[::max(1, len(items) // few)]
    for a, b in itertools.product(red, repeat=2):
        yield [a, b]
    for i in range(len(red)):
        yield [red[i], red[(i + 1) % len(red)], red[(i + 2) % len(red)]]


# ------------------------------------------------------------------ C07 families
def _unicast6(tier):
    fam = 'ipv6-unicast'
    pool = prefix_pool(6)
    nh0 = NH6[0]
    for p in pool:
        yield fam, tuple(['dir=reach', 'nh=global'] + _cv_list([p])), _reach(2, 1, nh0, [p.text]), True
        yield fam, tuple(['dir=unreach'] + _cv_list([p])), _unreach(2, 1, [p.text]), True
    p0 = pool[len(pool) // 2]
    for nh in NH6:
        yield fam, tuple(['dir=reach', _nh_cv(nh), 'll=none'] + _cv_list([p0])), _reach(2, 1, nh, [p0.text]), True
        for ll in LL6:
            yield (fam, tuple(['dir=reach', _nh_cv(nh), 'll=present'] + _cv_list([p0])),
                   _reach(2, 1, nh, [p0.text], {'linklocal_nexthop': ll}), True)
    edge = prefix_pool(6, V6_EDGE_LENGTHS)
    for ps in _lists23(pool if tier == 'thorough' else edge, tier, few=50):
        texts = [p.text for p in ps]
        yield fam, tuple(['dir=reach', 'nh=global'] + _cv_list(ps)), _reach(2, 1, nh0, texts), True
        yield fam, tuple(['dir=unreach'] + _cv_list(ps)), _unreach(2, 1, texts), True
    for p in edge:
        yield (fam, tuple(['dir=reach', 'nh=global', 'll=present'] + _cv_list([p])),
               _reach(2, 1, nh0, [p.text], {'linklocal_nexthop': LL6[0]}), True)
    # IPv4 unicast carried in MP_REACH / MP_UNREACH (RFC 4760 allows it; yabgp decodes it)
    for p in prefix_pool(4, V4_EDGE_LENGTHS):
        yield 'ipv4-unicast-mp', tuple(['dir=reach', 'nh=v4'] + _cv_list([p])), _reach(1, 1, NH4[0], [p.text]), True
        yield 'ipv4-unicast-mp', tuple(['dir=unreach'] + _cv_list([p])), _unreach(1, 1, [p.text]), True


def _labeled(tier, version, vpn):
    afi = 1 if version == 4 else 2
    safi = 128 if vpn else 4
    fam = ('vpnv%d' if vpn else 'ipv%d-lu') % version
    pool = prefix_pool(version)
    edge = prefix_pool(version, V4_EDGE_LENGTHS if version == 4 else V6_EDGE_LENGTHS)
    nhs = NH4 if version == 4 else NH6
    rd0 = RDS_FEW[0]

    def nexthop(text):
        return {'rd': '0:0', 'str': text} if vpn else text

    def route(p, stack, rd):
        r = {'prefix': p.text, 'label': list(stack)}
        if vpn:
            r['rd'] = rd[1]
        return r

    def cv(ps, stacks, rds):
        out = _cv_list(ps) + ['label=' + _join('.'.join(label_class(l) for l in s) for s in stacks),
                               'depth=' + _join(str(len(s)) for s in stacks)]
        if vpn:
            out.append('rd=' + _join(r[0] for r in rds))
        return out

    def reach(ps, stacks, rds, nh=nhs[0]):
        routes = [route(p, s, r) for p, s, r in zip(ps, stacks, rds)]
        return fam, tuple(['dir=reach', _nh_cv(nh)] + cv(ps, stacks, rds)), _reach(afi, safi, nexthop(nh), routes), True

    def unreach(ps, rds):
        routes = [route(p, [WLAB], r) for p, r in zip(ps, rds)]
        return fam, tuple(['dir=unreach'] + cv(ps, [[WLAB]] * len(ps), rds)), _unreach(afi, safi, routes), True

    # exhaustive on each single field
    for p in pool:
        yield reach([p], [[1]], [rd0])
        yield unreach([p], [rd0])
    for s in STACKS:
        yield reach([edge[len(edge) // 2]], [s], [rd0])
    if vpn:
        for rd in RDS:
            yield reach([edge[len(edge) // 2]], [[1]], [rd])
            yield unreach([edge[len(edge) // 2]], [rd])
    for nh in nhs:
        yield reach([edge[len(edge) // 2]], [[1]], [rd0], nh)
    # pairs of fields: prefix x stack, prefix x rd, stack x rd  (thorough: whole pools)
    pp = pool if tier == 'thorough' else edge
    for p in pp:
        for s in STACKS:
            yield reach([p], [s], [rd0])
    if vpn:
        for p in pp:
            for rd in RDS:
                yield reach([p], [[1]], [rd])
                yield unreach([p], [rd])
        for s in STACKS:
            for rd in (RDS if tier == 'thorough' else RDS_FEW):
                yield reach([edge[1]], [s], [rd])
    # 2 and 3 routes per attribute
    for ps in _lists23(edge, 'quick', few=16 if tier == 'quick' else 60):
        k = len(ps)
        stacks = [STACKS_FEW[(i + k) % len(STACKS_FEW)] for i in range(k)]
        rds = [RDS_FEW[(i * 2 + k) % len(RDS_FEW)] for i in range(k)]
        yield reach(ps, stacks, rds)
        yield unreach(ps, rds)


WLAB = 524288    # what yabgp's own withdraw tests put into 'label' (ignored by every encoder)


def esi_pool():
    out = [('t0', {'type': 0, 'value': v}) for v in (0, 1, 2 ** 72 - 1)]
    for t, mk, nk in ((1, 'ce_mac_addr', 'ce_port_key'), (2, 'rb_mac_addr', 'rb_priority')):
        out += [('t%d' % t, {'type': t, 'value': {mk: m, nk: n}}) for m in MACS[1:4] for n in (0, 1, 65535)]
    out += [('t3', {'type': 3, 'value': {'sys_mac_addr': m, 'ld_value': n}})
            for m in MACS[1:4] for n in (0, 1, 65535, 65536, 2 ** 24 - 1)]
    for t, k in ((4, 'router_id'), (5, 'as_num')):
        out += [('t%d' % t, {'type': t, 'value': {k: a, 'ld_value': n}})
                for a in (0, 1, 2 ** 31, 2 ** 32 - 1) for n in (0, 1, 2 ** 31, 2 ** 32 - 1)]
    return out


ESIS = esi_pool()
ESIS_FEW = [ESIS[0]] + [next(e for e in ESIS if e[0] == 't%d' % t) for t in (1, 2, 3, 4, 5)] + [ESIS[2], ESIS[-1]]
ETAGS = (0, 1, 100, 2 ** 31, 2 ** 32 - 1)
EVPN_IPS = (('none', None), ('v4', '192.168.0.1'), ('v4', '0.0.0.1'), ('v6', '2001:db8::1'), ('v6', '::1'),
            ('v6', 'ffff:ffff:ffff:ffff:ffff:ffff:ffff:ffff'))
EVPN_STACKS = [[l] for l in LABELS] + [[a, b] for a in (0, 16, 524288, 2 ** 20 - 1) for b in (0, 16, 524288, 2 ** 20 - 1)]


def _evpn_route(t, rd, esi, etag, mac, ip, stack, prefix=None, gw=None):
    v = {'rd': rd[1]}
    if t in (1, 2, 4):
        v['esi'] = esi[1]
    if t == 5:
        v['esi'] = esi          # bare integer
    if t in (1, 2, 3, 5):
        v['eth_tag_id'] = etag
    if t == 2:
        v['mac'] = mac
    if t in (2, 3, 4) and ip[1]:
        v['ip'] = ip[1]
    if t in (1, 2, 5):
        v['label'] = list(stack)
    if t == 5:
        v['prefix'], v['gateway'] = prefix, gw
    return {'type': t, 'value': v}


def _evpn(tier):
    fam = 'evpn'
    nh = '10.75.44.254'
    rd0, esi0, etag0, mac0, ip4, ip0 = RDS_FEW[0], ESIS[0], 100, MACS[0], EVPN_IPS[1], EVPN_IPS[0]

    def emit(routes, cv, nexthop=nh):
        yield fam, tuple(['dir=reach', _nh_cv(nexthop)] + cv), _reach(25, 70, nexthop, routes), True
        yield fam, tuple(['dir=unreach'] + cv), _unreach(25, 70, routes), True

    def cvof(t, rd, esi, etag, ip, stack):
        cv = ['type=%d' % t, 'rd=' + rd[0]]
        if t in (1, 2, 4):
            cv.append('esi=' + esi[0])
        if t in (1, 2, 3):
            cv.append('etag=' + int_class(etag))
        if t in (2, 3, 4):
            cv.append('ip=' + ip[0] + ('' if ip[0] != 'v6' else addr_class(int(ipaddress.IPv6Address(ip[1])))))
        if t in (1, 2):
            cv.append(_stack_cv(stack))
        return cv

    for t in (1, 2, 3, 4):
        ips = [i for i in EVPN_IPS if t == 2 or i[1]]
        base_ip = ip0 if t == 2 else ip4
        stacks = EVPN_STACKS if t == 2 else EVPN_STACKS[:len(LABELS)]
        base = dict(rd=rd0, esi=esi0, etag=etag0, ip=base_ip, stack=[10])
        fields = {'rd': RDS, 'esi': ESIS if t != 3 else [esi0], 'etag': ETAGS if t != 4 else [etag0],
                  'ip': ips if t != 1 else [base_ip], 'stack': stacks if t in (1, 2) else [[10]]}
        few = {'rd': RDS_FEW, 'esi': ESIS_FEW if t != 3 else [esi0], 'etag': ETAGS[:3] + ETAGS[-1:] if t != 4 else [etag0],
               'ip': ips if t != 1 else [base_ip], 'stack': stacks[:3] + stacks[-2:] if t in (1, 2) else [[10]]}

        def build(d):
            r = _evpn_route(t, d['rd'], d['esi'], d['etag'], mac0, d['ip'], d['stack'])
            return [r], cvof(t, d['rd'], d['esi'], d['etag'], d['ip'], d['stack'])
        # exhaustive on each single field
        for name in ('rd', 'esi', 'etag', 'ip', 'stack'):
            for val in fields[name]:
                d = dict(base)
                d[name] = val
                for case in emit(*build(d)):
                    yield case
        if t == 2:
            for mac in MACS:
                r = _evpn_route(2, rd0, esi0, etag0, mac, ip0, [10])
                for case in emit([r], cvof(2, rd0, esi0, etag0, ip0, [10]) + ['mac=' + mac]):
                    yield case
        # pairwise over fields
        src = fields if tier == 'thorough' else few
        for na, nb in itertools.combinations(('rd', 'esi', 'etag', 'ip', 'stack'), 2):
            for va, vb in itertools.product(src[na], src[nb]):
                d = dict(base)
                d[na], d[nb] = va, vb
                for case in emit(*build(d)):
                    yield case
    # next hops, IPv4 and IPv6
    r = _evpn_route(2, rd0, esi0, etag0, mac0, ip4, [10])
    for nexthop in ('0.0.0.1', '255.255.255.255') + NH6[:2]:
        yield fam, tuple(['dir=reach', _nh_cv(nexthop), 'type=2']), _reach(25, 70, nexthop, [r]), True
    # 2 and 3 routes per attribute: every ordered pair / rotating triples of route types 1-4
    one = dict((t, _evpn_route(t, RDS_FEW[t % 3], ESIS_FEW[t], ETAGS[t % 3], MACS[t % 3],
                               EVPN_IPS[1 + t % 3], [t, 16] if t == 2 else [t])) for t in (1, 2, 3, 4))
    for a, b in itertools.product((1, 2, 3, 4), repeat=2):
        for case in emit([one[a], one[b]], ['n=2', 'type=%d+%d' % (a, b)]):
            yield case
    for a, b, c in itertools.permutations((1, 2, 3, 4), 3):
        for case in emit([one[a], one[b], one[c]], ['n=many', 'type=%d+%d+%d' % (a, b, c)]):
            yield case
    # a route whose label field is a boundary value (0, 524288 = 0x800000 on the wire, all ones), with another route behind it:
    # a label scan that runs past the route's own octets shows only then
    for t in (1, 2):
        for stack in ([0], [524288], [2 ** 20 - 1]) + (([16, 0], [0, 0]) if t == 2 else ()):
            first = _evpn_route(t, RDS_FEW[1], ESIS_FEW[1], ETAGS[1], MACS[1], EVPN_IPS[0], stack)
            for b in (1, 2, 3, 4):
                for case in emit([first, one[b]], ['n=2', 'type=%d+%d' % (t, b), 'first-' + _stack_cv(stack)]):
                    yield case
    # route type 5 (RFC 9136), not in C07's list but decoded and constructed by yabgp
    gws = {4: ('0.0.0.0', '10.0.0.1'), 6: ('::', '2001:db8::1')}
    for ver, lengths in ((4, V4_EDGE_LENGTHS), (6, V6_EDGE_LENGTHS)):
        for p in prefix_pool(ver, lengths):
            for gw in gws[ver]:
                r = _evpn_route(5, RDS_FEW[0], 0, 1, None, None, [10], p.text, gw)
                for case in emit([r], ['type=5', 'ipver=%d' % ver] + p.cv()):
                    yield case
    for stack in EVPN_STACKS[:len(LABELS)]:
        for esi in (0, 1, 2 ** 72 - 1):
            for etag in ETAGS:
                r = _evpn_route(5, RDS_FEW[0], esi, etag, None, None, stack, '10.1.1.0/24', '10.0.0.1')
                cv = ['type=5', 'esi=' + ('0' if esi == 0 else 'nonzero'), 'etag=' + int_class(etag), _stack_cv(stack)]
                for case in emit([r], cv):
                    yield case


FS_OPS = ('=', '<', '>', '<=', '>=')
FS_VALUES = (0, 1, 255, 256, 65535, 65536, 2 ** 32 - 1)
FS_NUMERIC = (3, 4, 5, 6, 7, 8, 9, 10, 11)


def _fs_width(v):
    return 'w1' if v < 256 else 'w2' if v < 65536 else 'w4'


def _flowspec(tier):
    fam = 'flowspec'

    def emit(rules, cv, nh=''):
        yield fam, tuple(['dir=reach', 'nh=' + ('none' if not nh else 'v4')] + cv), _reach(1, 133, nh, rules), True
        yield fam, tuple(['dir=unreach'] + cv), _unreach(1, 133, rules), True

    def term(op, v):
        return '%s%d' % (op, v)

    # prefix components
    for comp in (1, 2):
        for p in prefix_pool(4):
            for case in emit([{comp: p.text}], ['comp=%d' % comp] + p.cv()):
                yield case
    # one numeric component, one term: components x operators x values
    for comp in FS_NUMERIC:
        for op in FS_OPS:
            for v in FS_VALUES:
                for case in emit([{comp: term(op, v)}], ['comp=%d' % comp, 'terms=1', 'op=' + op, 'val=' + _fs_width(v)]):
                    yield case
    # 2 and 3 '|'-joined terms
    pairs = list(itertools.product(itertools.product(FS_OPS, FS_VALUES), repeat=2))
    for comp in FS_NUMERIC:
        if tier == 'thorough' or comp == 5:
            chosen = pairs
        else:
            chosen = [((oa, 80), (ob, 8080)) for oa in FS_OPS for ob in FS_OPS] + \
                     [(('=', va), ('=', vb)) for va in FS_VALUES for vb in FS_VALUES]
        for (oa, va), (ob, vb) in chosen:
            text = term(oa, va) + '|' + term(ob, vb)
            cv = ['comp=%d' % comp, 'terms=2', 'op=%s+%s' % (oa, ob), 'val=%s+%s' % (_fs_width(va), _fs_width(vb))]
            for case in emit([{comp: text}], cv):
                yield case
        triples = itertools.product(FS_OPS, repeat=3) if (tier == 'thorough' or comp == 5) else [('=', '>=', '<')]
        for ops in triples:
            for vals in ((80, 8080, 70000), (0, 255, 256), (2 ** 32 - 1, 65535, 65536)):
                text = '|'.join(term(o, v) for o, v in zip(ops, vals))
                cv = ['comp=%d' % comp, 'terms=3', 'op=' + '+'.join(ops), 'val=' + '+'.join(_fs_width(v) for v in vals)]
                for case in emit([{comp: text}], cv):
                    yield case
    # '&' (AND) joins as the decoder prints them
    for comp in (FS_NUMERIC if tier == 'thorough' else (5, 10)):
        for text in ('>=254&<=300', '=254|>=254&<=300', '>0&<65536&<70000', '>=1&<=2|>=65535&<=65536'):
            for case in emit([{comp: text}], ['comp=%d' % comp, 'join=and', 'terms=%d' % (text.count('&') + text.count('|') + 1)]):
                yield case
    # 2 and 3 components per rule
    rep = {1: '192.88.3.0/24', 2: '192.89.0.0/17', 3: '=6|=17', 4: '=80', 5: '=8080|>=65535', 6: '<1024', 7: '=8',
           8: '=0', 9: '=2', 10: '>=254|<=65536', 11: '=40'}
    for k in (2, 3):
        for comps in itertools.combinations(sorted(rep), k):
            for case in emit([dict((c, rep[c]) for c in comps)], ['comps=' + '+'.join(map(str, comps))]):
                yield case
    for case in emit([dict(rep)], ['comps=all']):
        yield case
    # key order inside the rule dict must not matter (components are sorted by type on the wire)
    for case in emit([dict((c, rep[c]) for c in (6, 2, 5, 1))], ['comps=1+2+5+6', 'keyorder=unsorted']):
        yield case
    # 1, 2, 3 routes per attribute; next hop present
    rules = [{1: '192.88.%d.0/24' % i, 2: '192.89.%d.0/24' % i} for i in (3, 4, 5)] + [{5: '=80'}, {3: '=6', 5: '=443|=8443'}]
    for n in (1, 2, 3):
        for rs in itertools.permutations(rules, n):
            for case in emit(list(rs), ['n=' + n_class(n), 'comps=' + _join('.'.join(map(str, sorted(r))) for r in rs)]):
                yield case
    for nh in NH4:
        yield fam, ('dir=reach', 'nh=v4', 'comps=1+2'), _reach(1, 133, nh, [rules[0]]), True
    # a rule of 240 octets or more (2-octet length form)
    long_text = '|'.join('=%d' % (1000 + i) for i in range(100))
    for case in emit([{5: long_text}], ['comp=5', 'terms=100', 'rule=>=240']):
        yield case
    for case in emit([{5: long_text}, {6: '=80'}], ['n=2', 'rule=>=240']):
        yield case


def c07_cases(tier='quick'):
    gens = [_unicast6(tier), _labeled(tier, 4, False), _labeled(tier, 4, True), _labeled(tier, 6, False),
            _labeled(tier, 6, True), _evpn(tier), _flowspec(tier)]
    for g in gens:
        for case in g:
            yield case


# ------------------------------------------------------------------ C15 element pools
def element_pools():
    """Well-formed element encodings per list kind, covering every element width."""
    out = {}
    p4, p6 = prefix_pool(4), prefix_pool(6)
    out['ipv4_prefix'] = [upd.encode_prefix4(p.text) for p in p4]
    out['ipv4_prefix_addpath'] = [upd.encode_prefix_list([{'prefix': p.text, 'path_id': pid}], 4, True, None)
                                  for i, p in enumerate(p4) if i % 2 == 0 for pid in (0, 1, M32)][:180]
    e6 = [p for i, p in enumerate(p6) if i % 2 == 0]
    out['ipv6_prefix'] = [upd.encode_prefix6(p.text) for p in e6]
    out['ipv6_prefix_addpath'] = [upd.encode_prefix_list([{'prefix': p.text, 'path_id': pid}], 6, True, None)
                                  for p in prefix_pool(6, V6_EDGE_LENGTHS) for pid in (0, M32)]
    for ver, afi in ((4, 1), (6, 2)):
        lens = V4_EDGE_LENGTHS if ver == 4 else V6_EDGE_LENGTHS
        edge = [p for p in prefix_pool(ver, lens) if p.value != 0 or p.plen == 0]
        stacks = ([1], [0], [2 ** 20 - 1], [16, 3], [0, 0])
        out['ipv%d_lu' % ver] = [upd.encode_nlri(afi, 4, [{'prefix': p.text, 'label': s}]) for p in edge for s in stacks]
        # the same with the three traffic-class bits of every label entry set (RFC 8277: ignored on receipt)
        out['ipv%d_lu' % ver] += [upd.encode_nlri(afi, 4, [{'prefix': p.text, 'label': s}], opts={'label_tc': tc})
                                  for p in edge[::3] for s in stacks for tc in (7, 4)]
        out['ipv%d_lu_withdraw' % ver] = [upd.encode_nlri(afi, 4, [{'prefix': p.text}], True) for p in edge]
        rds = (RDS[4], RDS[13], RDS[22])
        out['vpnv%d' % ver] = [upd.encode_nlri(afi, 128, [{'prefix': p.text, 'label': s, 'rd': rd[1]}])
                               for p in edge for s in stacks[::2] + stacks[3:4] for rd in rds][:300]
        out['vpnv%d' % ver] += [upd.encode_nlri(afi, 128, [{'prefix': p.text, 'label': s, 'rd': rds[0][1]}], opts={'label_tc': 7})
                                for p in edge[::3] for s in stacks]
        out['vpnv%d_withdraw' % ver] = [upd.encode_nlri(afi, 128, [{'prefix': p.text, 'rd': rd[1]}], True)
                                        for p in edge for rd in rds]
    ev = []
    for t in (1, 2, 3, 4):
        for esi in (ESIS_FEW[:6] if t != 3 else ESIS_FEW[:1]):
            for ip in ([i for i in EVPN_IPS[:4] if t == 2 or i[1]] if t != 1 else EVPN_IPS[:1]):
                for stack in (([10], [0, 16]) if t == 2 else ([10],)):
                    ev.append(upd.encode_evpn_route(_evpn_route(t, RDS[13 if t % 2 else 4], esi, 100, MACS[0], ip, stack)))
    for prefix, gw in (('10.1.1.0/24', '10.0.0.1'), ('0.0.0.0/0', '0.0.0.0'), ('2001:db8::/32', '2001:db8::1'), ('::/0', '::')):
        ev.append(upd.encode_evpn_route(_evpn_route(5, RDS[22], 0, 1, None, None, [10], prefix, gw)))
    # route types the decoder has no branch for (RFC 9251 types 6-8, unassigned): framed by their length octet like any other
    for t in (6, 7, 8, 255):
        for ln in (0, 4, 10):
            ev.append(bytes([t, ln]) + bytes(range(1, ln + 1)))
    out['evpn'] = ev
    fs = [{c: p.text} for c in (1, 2) for p in prefix_pool(4, (0, 1, 8, 9, 24, 32))]
    fs += [{c: '%s%d' % (op, v)} for c in FS_NUMERIC + (12,) for op, v in (('=', 0), ('>=', 255), ('<', 256), ('>', 65536), ('<=', M32))]
    fs += [{5: '=80|=8080'}, {5: '=80|=8080|>=70000'}, {10: '=254|>=254&<=300'}, {3: '=6', 5: '=443', 9: '=2'},
           {1: '192.88.3.0/24', 2: '192.89.3.0/24'}, {5: '|'.join('=%d' % (1000 + i) for i in range(100))},
           {6: '|'.join('=%d' % (70000 + i) for i in range(48))}]
    out['flowspec'] = [upd.flowspec_rule(r) for r in fs]
    # the two-octet length form is allowed for short rules too (RFC 8955 4.1: "may" be used below 240): 0xf0 nn + body
    out['flowspec'] += [bytes([0xf0, e[0]]) + e[1:] for e in out['flowspec'][:12] if e[0] < 0xf0]
    import struct
    singles = [c[0] for c, cv in community_pool('quick') if cv[0] == 'n=1']
    out['community'] = _distinct(struct.pack('!I', upd.community_value(c)) for c in singles)
    out['ext_community'] = _distinct(upd.ext_community_bytes(item) for _, item in ext_kinds())
    # types no decoder has a name for (OSPF domain id 0x0005, OSPF route type 0x0306, an unassigned one): two values each,
    # so that a list holds the same unknown type twice
    out['ext_community'] += [bytes.fromhex(h) for h in ('0005000000010000', '00050000fde80007', '0306000000000101', '0306ffffffffff05',
                                                        '4a0b010203040506', '4a0bffffffffffff')]
    out['large_community'] = [struct.pack('!III', *upd._large(c[0])) for c, cv in large_pool('quick') if cv[0] == 'n=1']
    out['cluster_id'] = [ipaddress.IPv4Address(ip).packed for ip in IP4_BOUNDS + ('1.1.1.1', '2.2.2.2', '100.100.100.100')]
    for asn4 in (False, True):
        segs = []
        for (value, _cv) in aspath_pool(asn4, 'quick', 1):
            if len(value[0][1]) <= 64:
                segs.append(upd._aspath_value(value, asn4, None))
        out['aspath_seg4' if asn4 else 'aspath_seg2'] = segs
    return out


def _distinct(items):
    seen, out = set(), []
    for i in items:
        if i not in seen:
            seen.add(i)
            out.append(i)
    return out


def counts(tier):
    """{family: number of cases} for both generators (used by the self-test and for sizing)."""
    out = {}
    for gen in (c06_cases, c07_cases):
        for fam, _cv, _m, _a in gen(tier):
            key = gen.__name__[:3] + ':' + fam.split(':')[0]
            out[key] = out.get(key, 0) + 1
    return out
