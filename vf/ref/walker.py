"""Independent structural walker for BGP messages (DESIGN section 7, C08).

Written from the RFCs.  Imports nothing from yabgp and shares no code with its decoders.

    walk(message, asn4=None, add_path=False)        -> list[str]   (empty = structurally valid)
    walk_body(msg_type, body, asn4=None, add_path=False) -> list[str]   (same, without the header)
    walk_attributes(data, asn4=None, add_path=False)     -> list[str]   (a path-attribute container)
    walk_attr_value(code, value, asn4=None, add_path=False) -> list[str]   (one attribute value)
    walk_nlri(afi, safi, data, add_path=False, unreach=False) -> list[str] (an MP NLRI field)
    tags(problems) -> list[str]                      (the class tags of a problem list)

Every problem string is '<class tag>: <details>'.  The class tags are stable:

    hdr-short        fewer than 19 octets
    hdr-marker       marker is not 16 x 0xFF
    hdr-length       header length field != octets present
    hdr-range        header length field outside 19..4096
    hdr-type         message type not one of 1, 2, 3, 4, 5, 128
    msg-length       type-specific minimum / exact length violated
    upd-withdrawn-length   withdrawn routes length overruns the body
    upd-attr-length  total path attribute length overruns the body
    prefix-size      an RFC 4271 prefix (withdrawn / NLRI field) lacks octets for ceil(len/8)
    prefix-length    an RFC 4271 prefix length octet > 32
    attr-header      fewer octets left than an attribute header needs
    attr-overrun     attribute declares more octets than remain in the container
    attr-flags       flag bits do not match the RFC category of the type code / low nibble set
    attr-duplicate   the same attribute type appears twice
    ext-len-bit      the container only parses when one attribute's length width is read the other
                     way round than its extended-length bit says (diagnosis; see JUDGEMENT CALLS 2)
    attr-value-length  fixed-size or unit-size attribute value has the wrong size
    aspath           AS_PATH / AS4_PATH segments do not nest
    mp-reach         MP_REACH_NLRI / MP_UNREACH_NLRI fixed part truncated, reserved octet non-zero
    mp-nexthop       next-hop length not legal for the family
    mp-nlri          an NLRI inside MP_REACH / MP_UNREACH does not nest (any family)
    tlv-nesting      a TLV / sub-TLV (tunnel encapsulation, prefix-SID, BGP-LS, AIGP) over- or
                     under-runs its container
    tlv-length       a TLV / sub-TLV of known layout has a length the layout does not allow
    pmsi             PMSI_TUNNEL value inconsistent with its tunnel type
    open-optparam    OPEN optional parameters do not nest
    cap-length       a capability over-runs its parameter or has a length its code does not allow
    rr-orf           ROUTE-REFRESH longer than 23 octets whose ORF part does not nest
    more             (not a class) n further lines of one attribute container were suppressed

JUDGEMENT CALLS
===============
 1. Scope is *structure*: length fields, flag bits, the sizes implied by length octets.  Values
    are not judged (ORIGIN 3, hold time 1, AS 0, martian next hops, an AS_PATH segment with count
    0, an empty COMMUNITIES attribute, unsorted flowspec components are all accepted here even
    where RFC 7606 / 8955 call them malformed) - other checks (C06/C07/C09) own values.
 2. Extended-length bit.  On the wire "bit set <=> 2-octet length" holds by construction of the
    format, so it cannot be observed directly.  What can be observed is the desynchronisation it
    causes.  The walker first parses strictly as the bits say; if *any* problem results it retries
    with exactly one attribute's length width flipped, and if that alternative reading is
    completely clean it reports 'ext-len-bit' (first in the list) followed by the strict-reading
    problems.  A message is never called valid because of the alternative reading.
    RFC 4271 4.3 permits the extended length on short attributes: accepted.
 3. Flag categories (RFC 4271 4.3/5, and the defining RFC of each code): well-known 1,2,3,5,6;
    optional non-transitive 4,9,10,14,15,24,26,29,33; optional transitive 7,8,16,17,18,20,21,22,
    23,25,27,32,34,35,40,128.  BGP-LS (29) is optional NON-transitive (RFC 7752 3.3 / RFC 9552
    5.3), although the task text listed it with the transitive ones; yabgp's own test vector uses
    0x80.  For any other type code only the generic rules are applied: low nibble zero; a
    well-known attribute (O=0) must be transitive; Partial only with O=1,T=1.
 4. AS width.  With asn4=None, AS_PATH (2) is accepted when either the 2-octet or the 4-octet
    reading consumes the value exactly; AGGREGATOR (7) may be 6 or 8 octets.  AS4_PATH (17) and
    AS4_AGGREGATOR (18) are always the 4-octet forms.
 5. MP next-hop lengths accepted: IPv4 unicast/multicast/labeled 4, 16, 32 (RFC 8950); VPNv4 12,
    24, 48; IPv6 unicast/multicast/labeled 16, 32 (RFC 2545; an IPv4-mapped address is 16);
    VPNv6 24, 48; EVPN/VPLS 4, 16; SR-TE policy 4, 16, 32; BGP-LS 4, 16, 32 (SAFI 72: 12, 24);
    flowspec (SAFI 133/134): any length (RFC 8955 4: SHOULD be 0, MUST be ignored);
    RT-constrain 4, 16; unknown families: any.  A 4-octet next hop on an IPv6 family is reported.
 6. MP_REACH reserved octet must be 0 (RFC 4760 3: MUST on transmission).
 7. Labeled families.  In MP_REACH the label stack ends at the first label with the
    bottom-of-stack bit (RFC 8277 2.2/2.3: MUST be set on transmission).  In MP_UNREACH either
    that, or one 3-octet field of any value (RFC 8277 2.4 "compatibility" field, 0x800000 per
    RFC 3107) - whichever makes the bit count consistent.  The NLRI always occupies
    ceil(length/8) octets; what the labels decide is whether length - 24k (- 64 for an RD) is a
    legal prefix length for the family.
 8. EVPN (RFC 7432 7, RFC 9136 3.1): type 1 = 25 octets; type 2 = 33/36 (no IP), 37/40 (IPv4),
    49/52 (IPv6) with MAC length 48 and IP length in {0, 32, 128}; type 3 = 17/29 and type 4 =
    23/35 with IP length in {32, 128} (RFC 7432 gives "4 or 16 octets" for the originating
    router address: 0 is not a form); type 5 = 34 or 58 with prefix length <= 32 / <= 128.
    Other route types: only the length octet is checked.
 9. Flowspec (RFC 8955 4, RFC 8956 3).  NLRI length: one octet when the first octet < 0xF0, else
    two octets 0xFnnn; the 2-octet form is accepted for short NLRIs as well.  (A length >= 240
    written as a plain 16-bit number has first octet 0x00 or 0x01 and is read - as any receiver
    would - as a 1-octet length.)  Component order is not checked.  IPv4 prefix component:
    length <= 32, ceil(length/8) octets.  IPv6 prefix component: length <= 128, offset <= length,
    ceil((length - offset)/8) octets (RFC 8956 3.1; the superseded draft carried
    ceil(length/8) - offset/8, which differs for offsets that are not multiples of 8).  RFC 8956
    also demands offset < length unless both are 0; offset == length is sized here (0 pattern
    octets) and not rejected as such - values are not judged - so it is reported only when the
    octets present disagree with that size.
    Operator components: value size 1 << ((op >> 4) & 3); the list ends at the first operator
    with the end-of-list bit; a component whose list is not ended inside the NLRI is reported.
    Component types outside 1..12 (IPv4) / 1..13 (IPv6) cannot be sized and are reported.
    SAFI 134 (VPN flowspec): an 8-octet RD precedes the components.
10. SR-TE policy NLRI (SAFI 73): length octet 96 with AFI 1 and 192 with AFI 2, nothing else
    (draft-ietf-idr-segment-routing-te-policy / RFC 9830 2.1).  An IPv6 endpoint under AFI 1
    is therefore reported.
11. Tunnel encapsulation (23, RFC 9012 2/3): nesting is checked for every tunnel type, and in every
    tunnel type: sub-TLV types 0 and 255 (reserved in the registry, never legal to send; a 2-octet
    length read as <type 0, length> is the usual way to get there) are reported, 2 -> 2, 4 -> 8,
    8 -> 2, 9 -> 1, 10 -> non-zero multiple of 4; outside tunnel type 15 also 6 -> 6|10|22, 7 -> 1.
    Further layouts are checked only inside tunnel type 15 (SR policy), for sub-TLVs 12, 13, 14,
    15, 128 (with 9 and the segment types below), 129, 130, plus 6 and 7, which pre-standard
    drafts used for preference / binding SID: 6 accepts 6, 10, 22 (RFC 9012 egress endpoint with
    address family 0 / IPv4 / IPv6, or the old preference) and 7 accepts 1 (DS field), 2, 6, 18.
    Segment sub-TLV lengths: 1 -> 6; 2 -> 18; 3 -> 6|10; 4 -> 18|22; 5 -> 10|14; 6 -> 10|14;
    7 -> 42|46; 8 -> 34|38; 13 -> 18|26; others: nesting only.
12. PMSI tunnel (22, RFC 6514 5): identifier length by tunnel type: 0 -> 0; 1 -> 12|24;
    2, 7 -> an mLDP FEC element whose own lengths nest; 3, 4, 5 -> 8|32; 6 -> 4|16; >= 8 free.
13. OPEN: RFC 9072 extended optional parameters are accepted.  Known capability lengths:
    1 -> 4, 2 -> 0, 5 -> 6n, 6 -> 0, 9 -> 1, 64 -> 2 + 4n, 65 -> 4, 69 -> 4n, 70 -> 0, 71 -> 7n,
    128 -> 0; other codes: nesting only.  Optional parameters other than type 2: nesting only.
14. ROUTE-REFRESH: type 128 (pre-standard) must be 23 octets.  Type 5 must be >= 23; beyond 23 it
    is walked as RFC 5291 ORF (when-to-refresh, then one or more <type, 2-octet length, entries>)
    rather than rejected.
15. add_path applies the 4-octet path identifier to the IPv4 fields of the UPDATE body and to
    every MP NLRI of a prefix-like family (unicast, labeled, VPN, EVPN).  It may also be a
    container of (afi, safi) pairs; the UPDATE body is (1, 1).
16. When the header length is wrong the body actually present is still walked, so one defect
    can produce more than one line.  Walking stops inside a container at the first point where
    the cursor can no longer be trusted.  Inside one attribute container at most 6 lines are
    listed before the closing overrun / header line (a lost cursor reads garbage "attributes");
    the first line is the one that names the cause.
17. Inherent blind spots of any structural reading: a length that is off by a few octets is
    invisible when the octets that follow happen to form well-nested units again (e.g. a sub-TLV
    length + 1 followed by zeros that read as <type 0, length 0>, which is why reserved type 0 is
    reported; a label without bottom-of-stack followed by a prefix octet with its low bit set,
    which reads as a deeper label stack with a shorter prefix).  The walker reports what no
    legal reading explains; it cannot know which legal reading was meant.
"""

MARKER = b'\xff' * 16

# ------------------------------------------------------------------------------------------ helpers


def _u16(b, i):
    return (b[i] << 8) | b[i + 1]


def _u24(b, i):
    return (b[i] << 16) | (b[i + 1] << 8) | b[i + 2]


def tags(problems):
    return [p.split(': ', 1)[0] for p in problems]


def _ap(add_path, afi, safi):
    if isinstance(add_path, (bool, int)) or add_path is None:
        return bool(add_path)
    try:
        return (afi, safi) in add_path
    except TypeError:
        return bool(add_path)


# ------------------------------------------------------------------------------------------ message


def walk(message, asn4=None, add_path=False):
    """Walk one complete BGP message (header included)."""
    message = bytes(message)
    probs = []
    n = len(message)
    if n < 19:
        return ['hdr-short: %d octets, a header needs 19' % n]
    if message[:16] != MARKER:
        probs.append('hdr-marker: marker is %s' % message[:16].hex())
    length = _u16(message, 16)
    mtype = message[18]
    if length != n:
        probs.append('hdr-length: header says %d, message has %d octets' % (length, n))
    if length < 19 or length > 4096:
        probs.append('hdr-range: header length %d outside 19..4096' % length)
    probs.extend(walk_body(mtype, message[19:], asn4, add_path))
    return probs


def walk_body(mtype, body, asn4=None, add_path=False):
    body = bytes(body)
    if mtype == 1:
        return _walk_open(body)
    if mtype == 2:
        return _walk_update(body, asn4, add_path)
    if mtype == 3:
        if len(body) < 2:
            return ['msg-length: NOTIFICATION of %d octets, minimum 21' % (19 + len(body))]
        return []
    if mtype == 4:
        if body:
            return ['msg-length: KEEPALIVE of %d octets, must be 19' % (19 + len(body))]
        return []
    if mtype in (5, 128):
        return _walk_route_refresh(mtype, body)
    return ['hdr-type: unknown message type %d' % mtype]


# ------------------------------------------------------------------------------------------ ROUTE-REFRESH


def _walk_route_refresh(mtype, body):
    n = len(body)
    if n < 4:
        return ['msg-length: ROUTE-REFRESH (type %d) of %d octets, minimum 23' % (mtype, 19 + n)]
    if n == 4:
        return []
    if mtype == 128:
        return ['msg-length: ROUTE-REFRESH (type 128) of %d octets, must be 23' % (19 + n)]
    # RFC 5291: when-to-refresh (1), then ORFs: type (1), length (2), entries
    pos = 5
    if pos >= n:
        return ['rr-orf: ROUTE-REFRESH of %d octets carries a when-to-refresh octet but no ORF' % (19 + n)]
    while pos < n:
        if n - pos < 3:
            return ['rr-orf: %d octets left, an ORF header needs 3' % (n - pos)]
        ol = _u16(body, pos + 1)
        if pos + 3 + ol > n:
            return ['rr-orf: ORF type %d declares %d octets, %d remain' % (body[pos], ol, n - pos - 3)]
        pos += 3 + ol
    return []


# ------------------------------------------------------------------------------------------ OPEN

_CAP_RULES = {
    1: ('4', lambda l: l == 4),
    2: ('0', lambda l: l == 0),
    5: ('a multiple of 6', lambda l: l % 6 == 0),
    6: ('0', lambda l: l == 0),
    9: ('1', lambda l: l == 1),
    64: ('2 + 4n', lambda l: l >= 2 and (l - 2) % 4 == 0),
    65: ('4', lambda l: l == 4),
    69: ('a multiple of 4', lambda l: l % 4 == 0),
    70: ('0', lambda l: l == 0),
    71: ('a multiple of 7', lambda l: l % 7 == 0),
    128: ('0', lambda l: l == 0),
}


def _walk_caps(data, probs):
    pos, n = 0, len(data)
    while pos < n:
        if n - pos < 2:
            probs.append('cap-length: %d octet left in the capabilities parameter, a capability header needs 2'
                         % (n - pos))
            return
        code, cl = data[pos], data[pos + 1]
        if pos + 2 + cl > n:
            probs.append('cap-length: capability %d declares %d octets, %d remain in its parameter'
                         % (code, cl, n - pos - 2))
            return
        rule = _CAP_RULES.get(code)
        if rule is not None and not rule[1](cl):
            probs.append('cap-length: capability %d has length %d, must be %s' % (code, cl, rule[0]))
        pos += 2 + cl


def _walk_open(body):
    probs = []
    n = len(body)
    if n < 10:
        return ['msg-length: OPEN of %d octets, minimum 29' % (19 + n)]
    optlen = body[9]
    rest = body[10:]
    extended = False
    if optlen == 255 and len(rest) >= 3 and rest[0] == 255:
        # RFC 9072
        extended = True
        ext_len = _u16(rest, 1)
        rest = rest[3:]
        if ext_len != len(rest):
            probs.append('open-optparam: extended optional parameters length %d but %d octets follow'
                         % (ext_len, len(rest)))
    elif optlen != len(rest):
        probs.append('open-optparam: optional parameters length %d but %d octets follow' % (optlen, len(rest)))
        if optlen < len(rest):
            rest = rest[:optlen]
    hdr = 3 if extended else 2
    pos, m = 0, len(rest)
    while pos < m:
        if m - pos < hdr:
            probs.append('open-optparam: %d octet(s) left, an optional parameter header needs %d' % (m - pos, hdr))
            break
        ptype = rest[pos]
        plen = _u16(rest, pos + 1) if extended else rest[pos + 1]
        if pos + hdr + plen > m:
            probs.append('open-optparam: parameter type %d declares %d octets, %d remain'
                         % (ptype, plen, m - pos - hdr))
            if ptype == 2:
                _walk_caps(rest[pos + hdr:], probs)
            break
        if ptype == 2:
            _walk_caps(rest[pos + hdr:pos + hdr + plen], probs)
        pos += hdr + plen
    return probs


# ------------------------------------------------------------------------------------------ UPDATE


def _walk_prefixes(data, maxbits, add_path, where, probs, tag_size='prefix-size', tag_len='prefix-length'):
    """<length octet, ceil(length/8) octets>* consumed exactly."""
    pos, n = 0, len(data)
    while pos < n:
        if add_path:
            if n - pos < 5:
                probs.append('%s: %s: %d octet(s) left, a path identifier and a length octet need 5'
                             % (tag_size, where, n - pos))
                return
            pos += 4
        bits = data[pos]
        pos += 1
        if bits > maxbits:
            probs.append('%s: %s: prefix length %d exceeds %d' % (tag_len, where, bits, maxbits))
            return
        need = (bits + 7) >> 3
        if n - pos < need:
            probs.append('%s: %s: prefix /%d needs %d octet(s), %d remain' % (tag_size, where, bits, need, n - pos))
            return
        pos += need


def _walk_update(body, asn4, add_path):
    probs = []
    n = len(body)
    if n < 4:
        return ['msg-length: UPDATE of %d octets, minimum 23' % (19 + n)]
    wlen = _u16(body, 0)
    if 2 + wlen + 2 > n:
        return ['upd-withdrawn-length: withdrawn routes length %d, body has %d octets after it '
                '(2 more are needed for the attribute length)' % (wlen, n - 2)]
    alen = _u16(body, 2 + wlen)
    if 4 + wlen + alen > n:
        probs.append('upd-attr-length: total path attribute length %d, %d octets remain' % (alen, n - 4 - wlen))
        _walk_prefixes(body[2:2 + wlen], 32, _ap(add_path, 1, 1), 'withdrawn routes', probs)
        return probs
    ap = _ap(add_path, 1, 1)
    _walk_prefixes(body[2:2 + wlen], 32, ap, 'withdrawn routes', probs)
    probs.extend(walk_attributes(body[4 + wlen:4 + wlen + alen], asn4, add_path))
    _walk_prefixes(body[4 + wlen + alen:], 32, ap, 'NLRI', probs)
    return probs


# ------------------------------------------------------------------------------------------ attributes

_WELL_KNOWN = frozenset((1, 2, 3, 5, 6))
_OPT_NONTRANS = frozenset((4, 9, 10, 14, 15, 24, 26, 29, 33))
_OPT_TRANS = frozenset((7, 8, 16, 17, 18, 20, 21, 22, 23, 25, 27, 32, 34, 35, 40, 128))

_ATTR_NAME = {1: 'ORIGIN', 2: 'AS_PATH', 3: 'NEXT_HOP', 4: 'MULTI_EXIT_DISC', 5: 'LOCAL_PREF',
              6: 'ATOMIC_AGGREGATE', 7: 'AGGREGATOR', 8: 'COMMUNITIES', 9: 'ORIGINATOR_ID',
              10: 'CLUSTER_LIST', 14: 'MP_REACH_NLRI', 15: 'MP_UNREACH_NLRI', 16: 'EXTENDED_COMMUNITIES',
              17: 'AS4_PATH', 18: 'AS4_AGGREGATOR', 22: 'PMSI_TUNNEL', 23: 'TUNNEL_ENCAPSULATION',
              25: 'IPV6_EXTENDED_COMMUNITIES', 26: 'AIGP', 29: 'BGP-LS', 32: 'LARGE_COMMUNITIES',
              34: 'ONLY_TO_CUSTOMER', 40: 'PREFIX_SID'}


def _flag_problem(flags, code):
    o, t, p = flags & 0x80, flags & 0x40, flags & 0x20
    if flags & 0x0F:
        return 'attr-flags: attribute %d has flags 0x%02x: the low four bits must be zero' % (code, flags)
    if code in _WELL_KNOWN:
        if o or not t or p:
            return 'attr-flags: attribute %d (well-known: optional 0, transitive 1, partial 0) has flags 0x%02x' \
                   % (code, flags)
    elif code in _OPT_NONTRANS:
        if not o or t or p:
            return 'attr-flags: attribute %d (optional non-transitive: optional 1, transitive 0, partial 0) ' \
                   'has flags 0x%02x' % (code, flags)
    elif code in _OPT_TRANS:
        if not o or not t:
            return 'attr-flags: attribute %d (optional transitive: optional 1, transitive 1) has flags 0x%02x' \
                   % (code, flags)
    else:
        if not o and not t:
            return 'attr-flags: attribute %d has flags 0x%02x: a well-known attribute must be transitive' \
                   % (code, flags)
        if p and not (o and t):
            return 'attr-flags: attribute %d has flags 0x%02x: partial is only allowed on optional transitive' \
                   % (code, flags)
    return None


def _tokenize_attrs(data, flip_at=None):
    """Split an attribute container.  Returns (tokens, error): tokens = [(offset, flags, code, width,
    value)], error = None | problem string for the point where the cursor became untrustworthy.
    flip_at: offset of one attribute whose length width is read opposite to its extended-length bit."""
    toks = []
    pos, n = 0, len(data)
    while pos < n:
        if n - pos < 3:
            return toks, 'attr-header: %d octet(s) left at offset %d, an attribute header needs at least 3' \
                % (n - pos, pos)
        flags, code = data[pos], data[pos + 1]
        width = 2 if flags & 0x10 else 1
        if pos == flip_at:
            width = 3 - width
        if width == 2:
            if n - pos < 4:
                return toks, 'attr-header: %d octets left at offset %d, attribute %d with a 2-octet length ' \
                    'needs 4' % (n - pos, pos, code)
            alen = _u16(data, pos + 2)
        else:
            alen = data[pos + 2]
        start = pos + 2 + width
        if start + alen > n:
            return toks, 'attr-overrun: attribute %d declares %d octets, %d remain' % (code, alen, n - start)
        toks.append((pos, flags, code, width, data[start:start + alen]))
        pos = start + alen
    return toks, None


def _check_tokens(toks, asn4, add_path):
    probs = []
    seen = set()
    for _pos, flags, code, _width, value in toks:
        fp = _flag_problem(flags, code)
        if fp:
            probs.append(fp)
        if code in seen:
            probs.append('attr-duplicate: attribute %d appears more than once' % code)
        seen.add(code)
        probs.extend(walk_attr_value(code, value, asn4, add_path))
    return probs


_CASCADE_CAP = 6


def walk_attributes(data, asn4=None, add_path=False):
    """Walk a path-attribute container (the octets covered by Total Path Attribute Length)."""
    data = bytes(data)
    toks, err = _tokenize_attrs(data)
    probs = _check_tokens(toks, asn4, add_path)
    if len(probs) > _CASCADE_CAP:
        # a desynchronised cursor reads garbage "attributes"; keep the head, it names the cause
        probs = probs[:_CASCADE_CAP] + ['more: %d further problem(s) in this attribute container not listed'
                                        % (len(probs) - _CASCADE_CAP)]
    if err:
        probs.append(err)
    if not probs:
        return probs
    # diagnosis (JUDGEMENT CALLS 2): does flipping exactly one length width make everything clean?
    candidates = [t[0] for t in toks]
    if err:
        nxt = (toks[-1][0] + 2 + toks[-1][3] + len(toks[-1][4])) if toks else 0
        candidates.append(nxt)
    for off in candidates:
        if len(data) - off < 3:
            continue
        toks2, err2 = _tokenize_attrs(data, flip_at=off)
        if err2 or _check_tokens(toks2, asn4, add_path):
            continue
        flags, code = data[off], data[off + 1]
        if flags & 0x10:
            msg = 'ext-len-bit: attribute %d at offset %d has the extended-length bit (flags 0x%02x) but the ' \
                  'container only parses with a 1-octet length (%d)' % (code, off, flags, data[off + 2])
        else:
            msg = 'ext-len-bit: attribute %d at offset %d carries a 2-octet length (%d) without the ' \
                  'extended-length bit (flags 0x%02x)' % (code, off, _u16(data, off + 2), flags)
        return [msg] + probs
    return probs


# ------------------------------------------------------------------------------------------ attribute values


def _aspath_problem(value, width):
    pos, n = 0, len(value)
    while pos < n:
        if n - pos < 2:
            return '%d octet left at offset %d, a segment header needs 2' % (n - pos, pos)
        st, cnt = value[pos], value[pos + 1]
        if st < 1 or st > 4:
            return 'segment type %d at offset %d (must be 1..4)' % (st, pos)
        need = cnt * width
        if n - pos - 2 < need:
            return 'segment at offset %d declares %d AS numbers of %d octets, %d octets remain' \
                   % (pos, cnt, width, n - pos - 2)
        pos += 2 + need
    return None


def _fixed(code, value, sizes):
    if len(value) not in sizes:
        return ['attr-value-length: attribute %d (%s) value is %d octets, expected %s'
                % (code, _ATTR_NAME.get(code, '?'), len(value), ' or '.join(str(s) for s in sizes))]
    return []


def _multiple(code, value, unit):
    if len(value) % unit:
        return ['attr-value-length: attribute %d (%s) value is %d octets, not a multiple of %d'
                % (code, _ATTR_NAME.get(code, '?'), len(value), unit)]
    return []


def walk_attr_value(code, value, asn4=None, add_path=False):
    """Structure of one attribute value (the octets after the attribute length field)."""
    value = bytes(value)
    if code == 1:
        return _fixed(code, value, (1,))
    if code == 2:
        if asn4 is None:
            p2 = _aspath_problem(value, 2)
            if p2 is None:
                return []
            p4 = _aspath_problem(value, 4)
            if p4 is None:
                return []
            return ['aspath: AS_PATH fits neither AS width: 2-octet reading: %s; 4-octet reading: %s' % (p2, p4)]
        p = _aspath_problem(value, 4 if asn4 else 2)
        return ['aspath: AS_PATH (%d-octet AS numbers): %s' % (4 if asn4 else 2, p)] if p else []
    if code == 17:
        p = _aspath_problem(value, 4)
        return ['aspath: AS4_PATH: %s' % p] if p else []
    if code in (3, 4, 5, 9, 34):
        return _fixed(code, value, (4,))
    if code == 6:
        return _fixed(code, value, (0,))
    if code == 7:
        return _fixed(code, value, (6, 8) if asn4 is None else ((8,) if asn4 else (6,)))
    if code == 18:
        return _fixed(code, value, (8,))
    if code in (8, 10):
        return _multiple(code, value, 4)
    if code == 16:
        return _multiple(code, value, 8)
    if code == 25:
        return _multiple(code, value, 20)
    if code == 32:
        return _multiple(code, value, 12)
    if code == 14:
        return _walk_mp_reach(value, add_path)
    if code == 15:
        return _walk_mp_unreach(value, add_path)
    if code == 22:
        return _walk_pmsi(value)
    if code == 23:
        return _walk_tunnel_encap(value)
    if code == 26:
        return _walk_aigp(value)
    if code == 29:
        probs = []
        _walk_tlv16(value, 'BGP-LS attribute', probs)
        return probs
    if code == 40:
        return _walk_prefix_sid(value)
    return []


# ------------------------------------------------------------------------------------------ MP_REACH / MP_UNREACH

_NH_RULES = {
    (1, 1): (4, 16, 32), (1, 2): (4, 16, 32), (1, 4): (4, 16, 32),
    (1, 128): (12, 24, 48), (1, 129): (12, 24, 48),
    (2, 1): (16, 32), (2, 2): (16, 32), (2, 4): (16, 32),
    (2, 128): (24, 48), (2, 129): (24, 48),
    (25, 70): (4, 16), (25, 65): (4, 16),
    (1, 73): (4, 16, 32), (2, 73): (4, 16, 32),
    (16388, 71): (4, 16, 32), (16388, 72): (12, 24),
    (1, 132): (4, 16),
}


def _walk_mp_reach(value, add_path):
    n = len(value)
    if n < 5:
        return ['mp-reach: MP_REACH_NLRI value of %d octets, the fixed part needs 5' % n]
    afi, safi, nhl = _u16(value, 0), value[2], value[3]
    if 4 + nhl + 1 > n:
        return ['mp-reach: MP_REACH_NLRI (%d,%d) next-hop length %d, %d octets remain '
                '(one more is needed for the reserved octet)' % (afi, safi, nhl, n - 4)]
    probs = []
    legal = _NH_RULES.get((afi, safi))
    if legal is not None and nhl not in legal:
        probs.append('mp-nexthop: MP_REACH_NLRI (%d,%d) next-hop length %d, legal: %s'
                     % (afi, safi, nhl, ', '.join(str(x) for x in legal)))
    if value[4 + nhl] != 0:
        probs.append('mp-reach: MP_REACH_NLRI (%d,%d) reserved octet is 0x%02x' % (afi, safi, value[4 + nhl]))
    probs.extend(walk_nlri(afi, safi, value[5 + nhl:], add_path, unreach=False))
    return probs


def _walk_mp_unreach(value, add_path):
    n = len(value)
    if n < 3:
        return ['mp-reach: MP_UNREACH_NLRI value of %d octets, the fixed part needs 3' % n]
    afi, safi = _u16(value, 0), value[2]
    return walk_nlri(afi, safi, value[3:], add_path, unreach=True)


def walk_nlri(afi, safi, data, add_path=False, unreach=False):
    """An NLRI field of MP_REACH_NLRI / MP_UNREACH_NLRI for the family, consumed exactly."""
    data = bytes(data)
    probs = []
    ap = _ap(add_path, afi, safi)
    where = '%s (%d,%d)' % ('MP_UNREACH_NLRI' if unreach else 'MP_REACH_NLRI', afi, safi)
    maxbits = {1: 32, 2: 128}.get(afi)
    if safi in (1, 2) and maxbits:
        _walk_prefixes(data, maxbits, ap, where, probs, 'mp-nlri', 'mp-nlri')
    elif safi == 4 and maxbits:
        _walk_labeled(data, maxbits, 0, ap, unreach, where, probs)
    elif safi == 128 and maxbits:
        _walk_labeled(data, maxbits, 64, ap, unreach, where, probs)
    elif (afi, safi) == (25, 70):
        _walk_evpn(data, ap, where, probs)
    elif safi in (133, 134) and maxbits:
        _walk_flowspec(data, afi, safi == 134, where, probs)
    elif safi == 73 and maxbits:
        _walk_srte(data, afi, where, probs)
    elif afi == 16388 and safi in (71, 72):
        _walk_bgpls_nlri(data, safi == 72, where, probs)
    elif safi == 132 and afi == 1:
        _walk_prefixes(data, 96, ap, where, probs, 'mp-nlri', 'mp-nlri')
    return probs


def _label_counts(data, avail, unreach):
    """Candidate label-stack depths for the octets data[:avail] (see JUDGEMENT CALLS 7)."""
    cands = []
    k = 0
    while 3 * (k + 1) <= avail:
        lab = _u24(data, 3 * k)
        k += 1
        if lab & 1 or (unreach and k == 1 and lab in (0x800000, 0x000000)):
            cands.append(k)
            break
    if unreach and avail >= 3 and 1 not in cands:
        cands.append(1)
    return cands


def _walk_labeled(data, maxbits, fixed_bits, add_path, unreach, where, probs):
    pos, n = 0, len(data)
    what = 'VPN' if fixed_bits else 'labeled'
    while pos < n:
        if add_path:
            if n - pos < 5:
                probs.append('mp-nlri: %s: %d octet(s) left, a path identifier and a length octet need 5'
                             % (where, n - pos))
                return
            pos += 4
        bits = data[pos]
        pos += 1
        need = (bits + 7) >> 3
        if n - pos < need:
            probs.append('mp-nlri: %s: %s NLRI of %d bits needs %d octets, %d remain'
                         % (where, what, bits, need, n - pos))
            return
        if bits < 24 + fixed_bits:
            probs.append('mp-nlri: %s: %s NLRI length %d bits is less than the %d bits of its fixed fields'
                         % (where, what, bits, 24 + fixed_bits))
            return
        item = data[pos:pos + need]
        cands = _label_counts(item, need, unreach)
        ok = False
        for k in cands:
            pbits = bits - 24 * k - fixed_bits
            if 0 <= pbits <= maxbits:
                ok = True
                break
        if not ok:
            if not cands:
                probs.append('mp-nlri: %s: %s NLRI of %d bits: no label with the bottom-of-stack bit in its %d '
                             'octets (%s)' % (where, what, bits, need, item.hex()))
            else:
                k = cands[0]
                probs.append('mp-nlri: %s: %s NLRI of %d bits with %d label(s)%s leaves %d prefix bits '
                             '(legal 0..%d) (%s)' % (where, what, bits, k, ' and an RD' if fixed_bits else '',
                                                     bits - 24 * k - fixed_bits, maxbits, item.hex()))
            return
        pos += need


def _walk_evpn(data, add_path, where, probs):
    pos, n = 0, len(data)
    while pos < n:
        if add_path:
            if n - pos < 6:
                probs.append('mp-nlri: %s: %d octet(s) left, path identifier + route type + length need 6'
                             % (where, n - pos))
                return
            pos += 4
        if n - pos < 2:
            probs.append('mp-nlri: %s: %d octet left, an EVPN route needs type and length' % (where, n - pos))
            return
        rt, rl = data[pos], data[pos + 1]
        pos += 2
        if n - pos < rl:
            probs.append('mp-nlri: %s: EVPN route type %d length octet %d, %d octets remain' % (where, rt, rl, n - pos))
            return
        v = data[pos:pos + rl]
        p = _evpn_layout(rt, v)
        if p:
            probs.append('mp-nlri: %s: EVPN route type %d of %d octets: %s' % (where, rt, rl, p))
        pos += rl


def _evpn_layout(rt, v):
    n = len(v)
    if rt == 1:
        return None if n == 25 else 'the layout RD 8 + ESI 10 + tag 4 + label 3 is 25 octets'
    if rt == 2:
        if n < 30:
            return 'shorter than the 30 octets up to the IP length octet'
        if v[22] != 48:
            return 'MAC address length octet is %d, must be 48' % v[22]
        ipl = v[29]
        if ipl not in (0, 32, 128):
            return 'IP address length octet is %d, must be 0, 32 or 128' % ipl
        base = 30 + ipl // 8
        if n not in (base + 3, base + 6):
            return 'with IP length %d the route is %d or %d octets' % (ipl, base + 3, base + 6)
        return None
    if rt == 3:
        if n < 13:
            return 'shorter than the 13 octets up to the IP length octet'
        ipl = v[12]
        if ipl not in (32, 128):
            return 'IP address length octet is %d, must be 32 or 128' % ipl
        if n != 13 + ipl // 8:
            return 'with IP length %d the route is %d octets' % (ipl, 13 + ipl // 8)
        return None
    if rt == 4:
        if n < 19:
            return 'shorter than the 19 octets up to the IP length octet'
        ipl = v[18]
        if ipl not in (32, 128):
            return 'IP address length octet is %d, must be 32 or 128' % ipl
        if n != 19 + ipl // 8:
            return 'with IP length %d the route is %d octets' % (ipl, 19 + ipl // 8)
        return None
    if rt == 5:
        if n not in (34, 58):
            return 'the layout RD 8 + ESI 10 + tag 4 + length 1 + prefix 4|16 + gateway 4|16 + label 3 is 34 or 58'
        lim = 32 if n == 34 else 128
        if v[22] > lim:
            return 'IP prefix length octet is %d, the %d-octet form allows 0..%d' % (v[22], n, lim)
        return None
    return None


def _walk_flowspec(data, afi, vpn, where, probs):
    pos, n = 0, len(data)
    while pos < n:
        b0 = data[pos]
        if b0 >= 0xF0:
            if n - pos < 2:
                probs.append('mp-nlri: %s: flowspec 2-octet length truncated' % where)
                return
            fl = ((b0 & 0x0F) << 8) | data[pos + 1]
            pos += 2
        else:
            fl = b0
            pos += 1
        if n - pos < fl:
            probs.append('mp-nlri: %s: flowspec NLRI length %d, %d octets remain' % (where, fl, n - pos))
            return
        p = _flowspec_rule(data[pos:pos + fl], afi, vpn)
        if p:
            probs.append('mp-nlri: %s: flowspec NLRI of %d octets: %s' % (where, fl, p))
            return
        pos += fl


def _flowspec_rule(v, afi, vpn):
    pos, n = 0, len(v)
    if vpn:
        if n < 8:
            return 'shorter than its 8-octet route distinguisher'
        pos = 8
    maxtype = 12 if afi == 1 else 13
    while pos < n:
        ct = v[pos]
        pos += 1
        if ct < 1 or ct > maxtype:
            return 'component type %d at offset %d cannot be sized (known: 1..%d)' % (ct, pos - 1, maxtype)
        if ct in (1, 2):
            if afi == 1:
                if pos >= n:
                    return 'prefix component %d has no length octet' % ct
                bits = v[pos]
                pos += 1
                if bits > 32:
                    return 'prefix component %d length %d exceeds 32' % (ct, bits)
                need = (bits + 7) >> 3
            else:
                if n - pos < 2:
                    return 'prefix component %d lacks its length and offset octets' % ct
                bits, off = v[pos], v[pos + 1]
                pos += 2
                if bits > 128:
                    return 'prefix component %d length %d exceeds 128' % (ct, bits)
                if off > bits:
                    return 'prefix component %d offset %d exceeds its length %d' % (ct, off, bits)
                need = (bits - off + 7) >> 3
            if n - pos < need:
                return 'prefix component %d needs %d pattern octet(s), %d remain' % (ct, need, n - pos)
            pos += need
            continue
        while True:
            if pos >= n:
                return 'component %d: operator list not ended by an end-of-list bit inside the NLRI' % ct
            op = v[pos]
            size = 1 << ((op >> 4) & 3)
            pos += 1
            if n - pos < size:
                return 'component %d: operator 0x%02x needs a %d-octet value, %d remain' % (ct, op, size, n - pos)
            pos += size
            if op & 0x80:
                break
    return None


def _walk_srte(data, afi, where, probs):
    pos, n = 0, len(data)
    want = 96 if afi == 1 else 192
    while pos < n:
        bits = data[pos]
        pos += 1
        if bits != want:
            probs.append('mp-nlri: %s: SR policy NLRI length %d bits, must be %d for AFI %d '
                         '(distinguisher 4 + colour 4 + endpoint %d)' % (where, bits, want, afi, want // 8 - 8))
            return
        if n - pos < want // 8:
            probs.append('mp-nlri: %s: SR policy NLRI needs %d octets, %d remain' % (where, want // 8, n - pos))
            return
        pos += want // 8


def _walk_tlv16(data, where, probs, tag='tlv-nesting'):
    """<type 2, length 2, value>* consumed exactly; returns the list of (type, value) or None."""
    out = []
    pos, n = 0, len(data)
    while pos < n:
        if n - pos < 4:
            probs.append('%s: %s: %d octet(s) left, a TLV header needs 4' % (tag, where, n - pos))
            return None
        t, l = _u16(data, pos), _u16(data, pos + 2)
        if pos + 4 + l > n:
            probs.append('%s: %s: TLV type %d declares %d octets, %d remain' % (tag, where, t, l, n - pos - 4))
            return None
        out.append((t, data[pos + 4:pos + 4 + l]))
        pos += 4 + l
    return out


def _walk_bgpls_nlri(data, vpn, where, probs):
    items = _walk_tlv16(data, where + ' BGP-LS NLRI', probs, 'mp-nlri')
    if items is None:
        return
    for t, v in items:
        if vpn:
            if len(v) < 8:
                probs.append('mp-nlri: %s: BGP-LS VPN NLRI type %d shorter than its RD' % (where, t))
                continue
            v = v[8:]
        if t in (1, 2, 3, 4):
            if len(v) < 9:
                probs.append('mp-nlri: %s: BGP-LS NLRI type %d of %d octets, protocol-ID + identifier need 9'
                             % (where, t, len(v)))
                continue
            _walk_tlv16(v[9:], where + ' BGP-LS NLRI type %d descriptors' % t, probs, 'mp-nlri')


# ------------------------------------------------------------------------------------------ PMSI (22)


def _walk_pmsi(value):
    n = len(value)
    if n < 5:
        return ['pmsi: PMSI_TUNNEL value of %d octets, flags + type + label need 5' % n]
    tt = value[1]
    idl = n - 5
    if tt == 0:
        ok, want = idl == 0, '0'
    elif tt == 1:
        ok, want = idl in (12, 24), '12 or 24'
    elif tt in (3, 4, 5):
        ok, want = idl in (8, 32), '8 or 32'
    elif tt == 6:
        ok, want = idl in (4, 16), '4 or 16'
    elif tt in (2, 7):
        want = 'an mLDP FEC element: type 1, family 2, address length 1, address, opaque length 2, opaque value'
        ident = value[5:]
        ok = idl >= 6
        if ok:
            al = ident[3]
            ok = 4 + al + 2 <= idl and 4 + al + 2 + _u16(ident, 4 + al) == idl
    else:
        return []
    if not ok:
        return ['pmsi: PMSI_TUNNEL tunnel type %d with a %d-octet tunnel identifier, expected %s' % (tt, idl, want)]
    return []


# ------------------------------------------------------------------------------------------ tunnel encapsulation (23)

_SEG_LEN = {1: (6,), 2: (18,), 3: (6, 10), 4: (18, 22), 5: (10, 14), 6: (10, 14), 7: (42, 46), 8: (34, 38),
            13: (18, 26)}
_SRP_LEN = {12: (6,), 13: (2, 6, 18), 14: (3,), 15: (2,), 6: (6, 10, 22), 7: (1, 2, 6, 18)}
# RFC 9012 3: sub-TLVs whose size does not depend on the tunnel type (checked in every tunnel type)
_SUB_LEN = {2: (2,), 4: (8,), 8: (2,), 9: (1,)}
_SUB_LEN_OTHER = {6: (6, 10, 22), 7: (1,)}   # outside tunnel type 15


def _walk_subtlvs(data, where, probs):
    """RFC 9012 sub-TLVs: type 1, length 1 (type < 128) or 2 (type >= 128).  Returns [(type, value)] or None."""
    out = []
    pos, n = 0, len(data)
    while pos < n:
        t = data[pos]
        hdr = 2 if t < 128 else 3
        if n - pos < hdr:
            probs.append('tlv-nesting: %s: %d octet(s) left, sub-TLV type %d needs a %d-octet header'
                         % (where, n - pos, t, hdr))
            return None
        l = data[pos + 1] if t < 128 else _u16(data, pos + 1)
        if pos + hdr + l > n:
            probs.append('tlv-nesting: %s: sub-TLV type %d declares %d octets, %d remain'
                         % (where, t, l, n - pos - hdr))
            return None
        out.append((t, data[pos + hdr:pos + hdr + l]))
        pos += hdr + l
    return out


def _walk_segment_list(v, where, probs):
    if len(v) < 1:
        probs.append('tlv-length: %s: segment list sub-TLV is empty, the reserved octet is missing' % where)
        return
    pos, n = 1, len(v)
    while pos < n:
        if n - pos < 2:
            probs.append('tlv-nesting: %s: segment list: %d octet left, a sub-TLV header needs 2' % (where, n - pos))
            return
        t, l = v[pos], v[pos + 1]
        if pos + 2 + l > n:
            probs.append('tlv-nesting: %s: segment list: sub-TLV type %d declares %d octets, %d remain'
                         % (where, t, l, n - pos - 2))
            return
        if t == 9:
            if l != 6:
                probs.append('tlv-length: %s: weight sub-TLV length %d, must be 6' % (where, l))
        elif t in _SEG_LEN and l not in _SEG_LEN[t]:
            probs.append('tlv-length: %s: segment sub-TLV type %d length %d, legal: %s'
                         % (where, t, l, ', '.join(str(x) for x in _SEG_LEN[t])))
        pos += 2 + l


def _walk_tunnel_encap(value):
    probs = []
    tunnels = _walk_tlv16(value, 'TUNNEL_ENCAPSULATION', probs)
    if tunnels is None:
        return probs
    for tt, tv in tunnels:
        where = 'TUNNEL_ENCAPSULATION tunnel type %d' % tt
        subs = _walk_subtlvs(tv, where, probs)
        if subs is None:
            continue
        for st, sv in subs:
            if st in (0, 255):
                probs.append('tlv-nesting: %s: sub-TLV type %d is reserved (RFC 9012 registry); the cursor is most '
                             'likely inside another sub-TLV' % (where, st))
            elif st in _SUB_LEN and len(sv) not in _SUB_LEN[st]:
                probs.append('tlv-length: %s: sub-TLV type %d length %d, legal: %s'
                             % (where, st, len(sv), ', '.join(str(x) for x in _SUB_LEN[st])))
            elif st == 10 and (len(sv) == 0 or len(sv) % 4):
                probs.append('tlv-length: %s: MPLS label stack sub-TLV length %d, must be a non-zero multiple of 4'
                             % (where, len(sv)))
            elif tt != 15 and st in _SUB_LEN_OTHER and len(sv) not in _SUB_LEN_OTHER[st]:
                probs.append('tlv-length: %s: sub-TLV type %d length %d, legal: %s'
                             % (where, st, len(sv), ', '.join(str(x) for x in _SUB_LEN_OTHER[st])))
        if tt != 15:
            continue
        for st, sv in subs:
            if st in _SRP_LEN:
                if len(sv) not in _SRP_LEN[st]:
                    probs.append('tlv-length: %s: sub-TLV type %d length %d, legal: %s'
                                 % (where, st, len(sv), ', '.join(str(x) for x in _SRP_LEN[st])))
            elif st == 128:
                _walk_segment_list(sv, where, probs)
            elif st in (129, 130):
                if len(sv) < 1:
                    probs.append('tlv-length: %s: sub-TLV type %d is empty, the reserved octet is missing'
                                 % (where, st))
    return probs


# ------------------------------------------------------------------------------------------ AIGP (26), prefix-SID (40)


def _walk_aigp(value):
    # RFC 7311: TLVs of type 1, length 2 where the length covers type and length
    pos, n = 0, len(value)
    while pos < n:
        if n - pos < 3:
            return ['tlv-nesting: AIGP: %d octet(s) left, a TLV header needs 3' % (n - pos)]
        l = _u16(value, pos + 1)
        if l < 3 or pos + l > n:
            return ['tlv-nesting: AIGP: TLV type %d declares a total of %d octets, %d remain'
                    % (value[pos], l, n - pos)]
        if value[pos] == 1 and l != 11:
            return ['tlv-length: AIGP: AIGP TLV total length %d, must be 11' % l]
        pos += l
    return []


def _walk_prefix_sid(value):
    # RFC 8669: TLVs of type 1, length 2, value
    probs = []
    pos, n = 0, len(value)
    while pos < n:
        if n - pos < 3:
            probs.append('tlv-nesting: PREFIX_SID: %d octet(s) left, a TLV header needs 3' % (n - pos))
            return probs
        t, l = value[pos], _u16(value, pos + 1)
        if pos + 3 + l > n:
            probs.append('tlv-nesting: PREFIX_SID: TLV type %d declares %d octets, %d remain' % (t, l, n - pos - 3))
            return probs
        if t == 1 and l != 7:
            probs.append('tlv-length: PREFIX_SID: label-index TLV length %d, must be 7' % l)
        elif t == 3 and (l < 2 or (l - 2) % 6):
            probs.append('tlv-length: PREFIX_SID: originator SRGB TLV length %d, must be 2 + 6n' % l)
        pos += 3 + l
    return probs
