"""RFC 4271 framing, OPEN / NOTIFICATION / KEEPALIVE / ROUTE-REFRESH reference codec.
Independent of yabgp (DESIGN section 2)."""
import struct

MARKER = b'\xff' * 16
OPEN, UPDATE, NOTIFICATION, KEEPALIVE, ROUTE_REFRESH, CISCO_RR = 1, 2, 3, 4, 5, 128
KNOWN_TYPES = (1, 2, 3, 4, 5, 128)
TYPE_NAME = {1: 'OPEN', 2: 'UPDATE', 3: 'NOTIFICATION', 4: 'KEEPALIVE', 5: 'ROUTE-REFRESH',
             128: 'ROUTE-REFRESH-CISCO'}
MIN_LEN = {1: 29, 2: 23, 3: 21, 4: 19, 5: 23, 128: 23}


def frame(msg_type, body=b'', length=None, marker=MARKER):
    if length is None:
        length = 19 + len(body)
    return marker + struct.pack('!HB', length, msg_type) + body


def deframe(stream):
    """Reference deframer. Returns (frames, error, rest): frames = [(type, body)],
    error = None | (subcode, data) for the first header violation (1 marker, 2 length, 3 type),
    rest = unconsumed tail (incomplete frame) when there is no error."""
    frames = []
    pos = 0
    n = len(stream)
    while n - pos >= 19:
        if stream[pos:pos + 16] != MARKER:
            return frames, (1, b''), b''
        length, t = struct.unpack('!HB', stream[pos + 16:pos + 19])
        if length < 19 or length > 4096:
            return frames, (2, struct.pack('!H', length)), b''
        if t not in KNOWN_TYPES:
            # RFC 4271 6.1: the type is checked from the header alone, but an implementation may
            # wait for the whole frame; callers decide (DESIGN C04 "timing latitude")
            if n - pos < length:
                return frames, ('3-pending', bytes([t])), stream[pos:]
            return frames, (3, bytes([t])), b''
        if n - pos < length:
            break
        frames.append((t, stream[pos + 19:pos + length]))
        pos += length
    return frames, None, stream[pos:]


# ---------------------------------------------------------------- capabilities / OPEN
CAP_MP, CAP_RR, CAP_EXT_NH, CAP_GR, CAP_AS4, CAP_ADDPATH, CAP_ERR, CAP_LLGR, CAP_RR_OLD = \
    1, 2, 5, 64, 65, 69, 70, 71, 128


def cap(code, value=b''):
    return struct.pack('!BB', code, len(value)) + value


def cap_mp(afi, safi):
    return cap(CAP_MP, struct.pack('!HBB', afi, 0, safi))


def cap_as4(asn):
    return cap(CAP_AS4, struct.pack('!I', asn))


def cap_addpath(entries):
    return cap(CAP_ADDPATH, b''.join(struct.pack('!HBB', a, s, d) for a, s, d in entries))


def cap_gr(flags_time=0, entries=()):
    return cap(CAP_GR, struct.pack('!H', flags_time) + b''.join(struct.pack('!HBB', a, s, f) for a, s, f in entries))


def cap_ext_nh(entries):
    return cap(CAP_EXT_NH, b''.join(struct.pack('!HHH', a, s, n) for a, s, n in entries))


def cap_llgr(entries):
    return cap(CAP_LLGR, b''.join(struct.pack('!HBB', a, s, f) + struct.pack('!I', t)[1:] for a, s, f, t in entries))


def opt_params(caps, packaging='one_each'):
    """caps: list of encoded capabilities. packaging: 'one_each' | 'all_in_one' | 'mixed'."""
    if not caps:
        return b''
    if packaging == 'one_each':
        groups = [[c] for c in caps]
    elif packaging == 'all_in_one':
        groups = [list(caps)]
    else:
        groups = [list(caps[:2])] + [[c] for c in caps[2:]]
    out = b''
    for g in groups:
        v = b''.join(g)
        out += struct.pack('!BB', 2, len(v)) + v
    return out


def open_body(asn2, hold, bgp_id, optp=b'', version=4):
    return struct.pack('!BHHIB', version, asn2, hold, bgp_id, len(optp)) + optp


def open_msg(asn, hold, bgp_id, caps=None, version=4, packaging='one_each', as4=True):
    """A peer OPEN for true AS `asn`. caps: list of encoded capabilities *excluding* AS4."""
    caps = list(caps or [])
    if as4:
        caps.append(cap_as4(asn))
    asn2 = asn if asn <= 65535 else 23456
    return frame(OPEN, open_body(asn2, hold, bgp_id, opt_params(caps, packaging), version))


def parse_open(body):
    """Decode an OPEN body into a plain dict; raises ValueError when lengths do not nest."""
    if len(body) < 10:
        raise ValueError('OPEN shorter than 10 octets')
    version, asn2, hold, bgp_id, oplen = struct.unpack('!BHHIB', body[:10])
    rest = body[10:]
    if oplen != len(rest):
        raise ValueError('optional parameter length %d != %d' % (oplen, len(rest)))
    caps = []
    while rest:
        if len(rest) < 2:
            raise ValueError('truncated optional parameter')
        pt, pl = rest[0], rest[1]
        pv = rest[2:2 + pl]
        if len(pv) != pl:
            raise ValueError('optional parameter overruns')
        rest = rest[2 + pl:]
        if pt != 2:
            caps.append(('param', pt, pv))
            continue
        while pv:
            if len(pv) < 2:
                raise ValueError('truncated capability')
            cc, cl = pv[0], pv[1]
            cv = pv[2:2 + cl]
            if len(cv) != cl:
                raise ValueError('capability overruns')
            pv = pv[2 + cl:]
            caps.append((cc, cv))
    asn = asn2
    for c in caps:
        if c[0] == CAP_AS4 and len(c[1]) == 4:
            asn = struct.unpack('!I', c[1])[0]
    return {'version': version, 'asn2': asn2, 'asn': asn, 'hold': hold, 'bgp_id': bgp_id, 'caps': caps}


def notification(code, sub, data=b''):
    return frame(NOTIFICATION, struct.pack('!BB', code, sub) + data)


def parse_notification(body):
    if len(body) < 2:
        raise ValueError('NOTIFICATION shorter than 2 octets')
    return body[0], body[1], body[2:]


def keepalive():
    return frame(KEEPALIVE)


def route_refresh(afi, safi, res=0, msg_type=ROUTE_REFRESH):
    return frame(msg_type, struct.pack('!HBB', afi, res, safi))


def abstract(msg_type, body):
    """Abstract tuple for a message the agent wrote: ('OPEN',), ('KA',), ('NOTIF', c, s), ..."""
    if msg_type == OPEN:
        return ('OPEN',)
    if msg_type == KEEPALIVE:
        return ('KA',)
    if msg_type == NOTIFICATION:
        if len(body) >= 2:
            return ('NOTIF', body[0], body[1])
        return ('NOTIF', None, None)
    if msg_type == UPDATE:
        return ('UPDATE',)
    if msg_type in (ROUTE_REFRESH, CISCO_RR):
        return ('RR', msg_type)
    return ('UNKNOWN', msg_type)


def abstract_writes(data):
    """Deframe bytes the agent wrote in one write() call; malformed output is reported as such."""
    frames, err, rest = deframe(data)
    out = [abstract(t, b) for t, b in frames]
    if err is not None or rest:
        out.append(('MALFORMED-OUTPUT', data.hex()))
    return out


def deframe_strict(stream):
    """Reference deframer with the per-type length rules of RFC 4271 6.1 (OPEN >= 29, UPDATE >= 23,
    NOTIFICATION >= 21, KEEPALIVE == 19). Same return convention as deframe()."""
    frames = []
    pos = 0
    n = len(stream)
    while n - pos >= 19:
        if stream[pos:pos + 16] != MARKER:
            return frames, (1, b''), b''
        length, t = struct.unpack('!HB', stream[pos + 16:pos + 19])
        bad = length < 19 or length > 4096
        if t == OPEN and length < 29 or t == UPDATE and length < 23 or t == NOTIFICATION and length < 21 \
                or t == KEEPALIVE and length != 19:
            bad = True
        if bad:
            return frames, (2, struct.pack('!H', length)), b''
        if t not in KNOWN_TYPES:
            if n - pos < length:
                return frames, ('3-pending', bytes([t])), stream[pos:]
            return frames, (3, bytes([t])), b''
        if n - pos < length:
            break
        frames.append((t, stream[pos + 19:pos + length]))
        pos += length
    return frames, None, stream[pos:]


# ---------------------------------------------------------------- UPDATE, neutral structural decode
def parse_prefixes(data, add_path=False, maxlen=32):
    out = []
    pos = 0
    while pos < len(data):
        pid = None
        if add_path:
            if pos + 4 > len(data):
                raise ValueError('truncated path id')
            pid = struct.unpack('!I', data[pos:pos + 4])[0]
            pos += 4
        if pos >= len(data):
            raise ValueError('truncated prefix')
        plen = data[pos]
        if plen > maxlen:
            raise ValueError('prefix length %d' % plen)
        n = (plen + 7) // 8
        raw = data[pos + 1:pos + 1 + n]
        if len(raw) != n:
            raise ValueError('prefix overruns')
        pos += 1 + n
        out.append((plen, raw) if pid is None else (plen, raw, pid))
    return out


def parse_update(body, add_path=False):
    """(withdrawn, attrs, nlri): withdrawn/nlri = [(bitlen, raw octets)], attrs = [(flags, code, value)]"""
    if len(body) < 4:
        raise ValueError('UPDATE shorter than 4 octets')
    wl = struct.unpack('!H', body[:2])[0]
    if 2 + wl + 2 > len(body):
        raise ValueError('withdrawn length overruns')
    wd = body[2:2 + wl]
    al = struct.unpack('!H', body[2 + wl:4 + wl])[0]
    if 4 + wl + al > len(body):
        raise ValueError('attribute length overruns')
    ad = body[4 + wl:4 + wl + al]
    nl = body[4 + wl + al:]
    attrs = []
    pos = 0
    while pos < len(ad):
        if pos + 3 > len(ad):
            raise ValueError('truncated attribute header')
        flags, code = ad[pos], ad[pos + 1]
        if flags & 0x10:
            if pos + 4 > len(ad):
                raise ValueError('truncated attribute header')
            ln = struct.unpack('!H', ad[pos + 2:pos + 4])[0]
            pos += 4
        else:
            ln = ad[pos + 2]
            pos += 3
        val = ad[pos:pos + ln]
        if len(val) != ln:
            raise ValueError('attribute %d overruns' % code)
        pos += ln
        attrs.append((flags, code, val))
    return parse_prefixes(wd, add_path), attrs, parse_prefixes(nl, add_path)


def prefix_text(plen, raw):
    b = (raw + b'\x00\x00\x00\x00')[:4]
    return '%d.%d.%d.%d/%d' % (b[0], b[1], b[2], b[3], plen)
