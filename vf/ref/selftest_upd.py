"""Self-test of the reference UPDATE codec (vf/ref/upd.py) and the pools (vf/ref/pools.py).
    /venv/bin/python /verif/vf/ref/selftest_upd.py [--tier quick|thorough] [--sample N]
(--sample N round-trips every N-th pool case only; the default 1 takes about a minute on quick)
(a) the encoder against the (value, bytes) pairs of yabgp's unit tests, copied here as literals
    (this file imports nothing from yabgp); (b) encode -> decode_update == expected on every case of
the quick pools, plus the legal-variant switches; (c) exit status 1 on any mismatch."""
import os
import struct
import sys
import time

sys.path.insert(0, os.path.dirname(os.path.dirname(os.path.dirname(os.path.abspath(__file__)))))
from vf.ref import upd, pools  # noqa: E402

FAILS = []
CHECKS = [0]


def check(name, got, want):
    CHECKS[0] += 1
    if got != want:
        FAILS.append(name)
        if len(FAILS) <= 40:
            g = got.hex() if isinstance(got, (bytes, bytearray)) else repr(got)
            w = want.hex() if isinstance(want, (bytes, bytearray)) else repr(want)
            print('MISMATCH %s\n   got  %s\n   want %s' % (name, g[:600], w[:600]))


# ---------------------------------------------------------------------------------------------
# (a) vectors from /repo/yabgp/tests/unit/message (file named in each block)
# ---------------------------------------------------------------------------------------------
def vectors_attributes():
    A = upd.encode_attr
    # test_origin.py
    for v in (0, 1, 2):
        check('origin %d' % v, A(1, v, False), b'\x40\x01\x01' + bytes([v]))
    # test_aspath.py
    check('aspath 2-octet', A(2, [(2, [3257, 31027, 34848, 21465])], False), b'@\x02\n\x02\x04\x0c\xb9y3\x88 S\xd9')
    check('aspath 4-octet', A(2, [(2, [3257, 31027, 34848, 21465])], True),
          b'@\x02\x12\x02\x04\x00\x00\x0c\xb9\x00\x00y3\x00\x00\x88 \x00\x00S\xd9')
    check('aspath seq+set', A(2, [(2, [1001, 1002]), (1, [1003, 1004])], False),
          b'@\x02\x0c\x02\x02\x03\xe9\x03\xea\x01\x02\x03\xeb\x03\xec')
    check('aspath confed', A(2, [(4, [1001, 1002]), (3, [1003, 1004])], False),
          b'@\x02\x0c\x04\x02\x03\xe9\x03\xea\x03\x02\x03\xeb\x03\xec')
    check('aspath empty', A(2, [], False), b'@\x02\x00')
    # test_nexthop.py, test_med.py, test_localpref.py, test_atomicaggregate.py
    check('nexthop', A(3, '10.10.10.1', False), b'\x40\x03\x04\x0a\x0a\x0a\x01')
    check('nexthop 0', A(3, '0.0.0.0', False), b'\x40\x03\x04\x00\x00\x00\x00')
    check('med', A(4, 100, False), b'\x80\x04\x04\x00\x00\x00d')
    check('localpref', A(5, 100, False), b'\x40\x05\x04\x00\x00\x00\x64')
    check('atomic', A(6, '', False), b'\x40\x06\x00')
    check('atomic b""', A(6, b'', False), b'\x40\x06\x00')
    # test_aggregator.py
    check('aggregator 2', A(7, (28885, '62.231.255.121'), False), b'\xc0\x07\x06\x70\xd5\x3e\xe7\xff\x79')
    check('aggregator 4', A(7, (28885, '62.231.255.121'), True)[3:], b'\x00\x00\x70\xd5\x3e\xe7\xff\x79')
    check('as4 aggregator', A(18, (28885, '62.231.255.121'), False), b'\xc0\x12\x08\x00\x00\x70\xd5\x3e\xe7\xff\x79')
    check('as4 path', A(17, [(2, [3257])], False), b'\xc0\x11\x06\x02\x01\x00\x00\x0c\xb9')
    # test_community.py
    check('community 1', A(8, ['NO_EXPORT'], False), b'\xc0\x08\x04\xff\xff\xff\x01')
    check('community 2', A(8, ['NO_EXPORT', '4837:9929'], False), b'\xc0\x08\x08\xff\xff\xff\x01\x12\xe5&\xc9')
    check('community 3', A(8, ['4837:1239', '4837:9929'], False), b'\xc0\x08\x08\x12\xe5\x04\xd7\x12\xe5&\xc9')
    check('community 4', A(8, ['4837:1239', 'bLACKHOLE'], False), b'\xc0\x08\x08\x12\xe5\x04\xd7\xff\xff\x02\x9a')
    check('community text', upd.expected_attr(8, ['65535:65281', '4837:9929', 'blackhole'], False),
          ['NO_EXPORT', '4837:9929', 'BLACKHOLE'])
    # test_originatorid.py, test_clusterlist.py
    check('originator', A(9, '192.168.1.1', False), b'\x80\x09\x04\xc0\xa8\x01\x01')
    check('cluster', A(10, ['1.1.1.1', '2.2.2.2', '3.3.3.3'], False),
          b'\x80\n\x0c\x01\x01\x01\x01\x02\x02\x02\x02\x03\x03\x03\x03')
    # test_large_community.py: yabgp's flags are 0xe0 (Partial set); the reference emits 0xc0 (SHAPE DECISION 5)
    lc = A(32, ['196621:3:5', '196621:4:1'], False)
    check('large value', lc[1:], b'\x20\x18\x00\x03\x00\x0d\x00\x00\x00\x03\x00\x00\x00\x05'
                                 b'\x00\x03\x00\x0d\x00\x00\x00\x04\x00\x00\x00\x01')
    check('large flags', lc[0], 0xc0)
    # test_extcommunity.py
    E = lambda items: A(16, items, False)   # noqa: E731
    check('ec rt0', E([(0x0002, '100:12')]), b'\xc0\x10\x08\x00\x02\x00\x64\x00\x00\x00\x0c')
    check('ec rt1', E([(0x0102, '10.10.10.10:12')]), b'\xc0\x10\x08\x01\x02\x0a\x0a\x0a\x0a\x00\x0c')
    check('ec rt2', E([(0x0202, '65537:12')]), b'\xc0\x10\x08\x02\x02\x00\x01\x00\x01\x00\x0c')
    check('ec ro0', E([(0x0003, '100:12')]), b'\xc0\x10\x08\x00\x03\x00\x64\x00\x00\x00\x0c')
    check('ec ro1', E([(0x0103, '10.10.10.10:12')]), b'\xc0\x10\x08\x01\x03\x0a\x0a\x0a\x0a\x00\x0c')
    check('ec ro2', E([(0x0203, '65537:12')]), b'\xc0\x10\x08\x02\x03\x00\x01\x00\x01\x00\x0c')
    check('ec redirect-vrf', E([[0x8008, '4837:100']]), b'\xc0\x10\x08\x80\x08\x12\xe5\x00\x00\x00d')
    check('ec redirect-nh', E([[0x0800, '0.0.0.0', 0]]), b'\xc0\x10\x08\x08\x00\x00\x00\x00\x00\x00\x00')
    check('ec traffic-rate', E([[0x8006, '100:6250000']]), b'\xc0\x10\x08\x80\x06\x00dJ\xbe\xbc ')
    check('ec encap', E([[0x030c, 8]])[3:], b'\x03\x0c\x00\x00\x00\x00\x00\x08')
    check('ec color', E([[0x030b, 10]])[3:], b'\x03\x0b\x00\x00\x00\x00\x00\x0a')
    check('ec es-import', E([[0x0602, '00-11-22-33-44-55']])[3:], b'\x06\x02\x00\x11\x22\x33\x44\x55')
    check('ec esi-label', E([[0x0601, 1, 20]])[3:], b'\x06\x01\x01\x00\x00\x00\x01\x41')
    check('ec mac-mobility', E([[0x0600, 1, 500]])[3:], b'\x06\x00\x01\x00\x00\x00\x01\xf4')
    check('ec router-mac', E([[1539, '74-A0-2F-DE-FE-FB']])[3:], b'\x06\x03\x74\xa0\x2f\xde\xfe\xfb')
    texts = [('route-target:100:12', b'\x00\x02\x00\x64\x00\x00\x00\x0c'),
             ('route-target:10.10.10.10:12', b'\x01\x02\x0a\x0a\x0a\x0a\x00\x0c'),
             ('route-target:65537:12', b'\x02\x02\x00\x01\x00\x01\x00\x0c'),
             ('route-origin:100:12', b'\x00\x03\x00\x64\x00\x00\x00\x0c'),
             ('route-origin:10.10.10.10:12', b'\x01\x03\x0a\x0a\x0a\x0a\x00\x0c'),
             ('route-origin:65537:12', b'\x02\x03\x00\x01\x00\x01\x00\x0c'),
             ('redirect-vrf:4837:100', b'\x80\x08\x12\xe5\x00\x00\x00d'),
             ('redirect-nexthop:0.0.0.0:0', b'\x08\x00\x00\x00\x00\x00\x00\x00'),
             ('traffic-rate:100:6250000', b'\x80\x06\x00dJ\xbe\xbc '),
             ('encapsulation:8', b'\x03\x0c\x00\x00\x00\x00\x00\x08'),
             ('color:10', b'\x03\x0b\x00\x00\x00\x00\x00\x0a'),
             ('es-import:00-11-22-33-44-55', b'\x06\x02\x00\x11\x22\x33\x44\x55'),
             ('esi-label:1:20', b'\x06\x01\x01\x00\x00\x00\x01\x41'),
             ('mac-mobility:1:500', b'\x06\x00\x01\x00\x00\x00\x01\xf4'),
             ('router-mac:74-A0-2F-DE-FE-FB', b'\x06\x03\x74\xa0\x2f\xde\xfe\xfb'),
             ('traffic-action:S:1,T:0', b'\x80\x07\x00\x00\x00\x00\x00\x02'),
             ('traffic-marking-dscp:40', b'\x80\x09\x00\x00\x00\x00\x00\x28'),
             ('color-01:10', b'\x03\x0b\x40\x00\x00\x00\x00\x0a'),
             ('dmzlink-bw:100:12', b'\x40\x04\x00\x64\x00\x00\x00\x0c')]
    for text, raw in texts:
        check('ec from text ' + text, upd.ext_community_from_text(text), raw)
        check('ec to text ' + text, upd.ext_community_to_text(raw), text)
        check('ec item text ' + text, upd.ext_community_text(upd.ext_community_item_from_text(text)), text)


def vectors_nlri():
    # test_mpls_vpn.py
    check('labels [20]', upd.encode_labels([20]), b'\x00\x01\x41')
    check('labels [17,19]', upd.encode_labels([17, 19]), b'\x00\x01\x10\x00\x01\x31')
    check('rd type0', upd.encode_rd('65002:1'), b'\x00\x00\xfd\xea\x00\x00\x00\x01')
    check('rd type1', upd.encode_rd('172.17.0.3:2'), b'\x00\x01\xac\x11\x00\x03\x00\x02')
    check('rd type2', upd.encode_rd('65536:2'), b'\x00\x02\x00\x01\x00\x00\x00\x02')
    for raw in (b'\x00\x00\xfd\xea\x00\x00\x00\x01', b'\x00\x01\xac\x11\x00\x03\x00\x02', b'\x00\x02\x00\x01\x00\x00\x00\x02'):
        check('rd round trip', upd.encode_rd(upd.rd_text(raw)), raw)
    N = upd.encode_nlri
    # test_ipv6_unicast.py
    check('v6 nlri 1', N(2, 1, ['2001:db8:1:2::/64', '2001:db8:1:1::/64', '2001:db8:1:3::/64']),
          b'\x40\x20\x01\x0D\xB8\x00\x01\x00\x02\x40\x20\x01\x0D\xB8\x00\x01\x00\x01\x40\x20\x01\x0D\xB8\x00\x01\x00\x03')
    v6b = b'\x80\x20\x01\x32\x32\x00\x00\x00\x00\x00\x00\x00\x00\x00\x00\x00\x01\x40\x20\x01\x32' \
          b'\x32\x00\x01\x00\x00\x7f\x20\x01\x48\x37\x16\x32\x00\x00\x00\x00\x00\x00\x00\x00\x00\x02'
    check('v6 nlri 2', N(2, 1, ['2001:3232::1/128', '2001:3232:1::/64', '2001:4837:1632::2/127']), v6b)
    check('v6 nlri 3', N(2, 1, ['326c:ce92:25ea:365e:4d71:5945:2200:0/112']),
          b'\x70\x32\x6c\xce\x92\x25\xea\x36\x5e\x4d\x71\x59\x45\x22\x00')
    check('v6 nlri add-path', N(2, 1, [{'path_id': 1001, 'prefix': '2001:db8::/64'}], False, True),
          b'\x00\x00\x03\xe9\x40\x20\x01\x0d\xb8\x00\x00\x00\x00')
    check('v6 nlri decode', upd.decode_nlri(2, 1, v6b, False), ['2001:3232::1/128', '2001:3232:1::/64', '2001:4837:1632::2/127'])
    # test_nlri.py (VPNv6 prefix octets)
    check('v6 prefix octets', upd.encode_prefix6('2010:0:12:4::/64')[1:], b'\x20\x10\x00\x00\x00\x12\x00\x04')
    # test_ipv4_mpls_vpn.py
    check('vpnv4 1', N(1, 128, [{'label': [20], 'rd': '65002:1', 'prefix': '23.0.0.0/30'}]),
          b'\x76\x00\x01\x41\x00\x00\xfd\xea\x00\x00\x00\x01\x17\x00\x00\x00')
    check('vpnv4 2', N(1, 128, [{'label': [25], 'rd': '100:100', 'prefix': '170.0.0.0/32'}]),
          b'\x78\x00\x01\x91\x00\x00\x00\x64\x00\x00\x00\x64\xaa\x00\x00\x00')
    check('vpnv4 add-path', N(1, 128, [{'path_id': 100, 'label': [25], 'rd': '100:100', 'prefix': '170.0.0.0/32'}], False, True),
          b'\x00\x00\x00\x64\x78\x00\x01\x91\x00\x00\x00\x64\x00\x00\x00\x64\xaa\x00\x00\x00')
    # test_ipv6_mpls_vpn.py
    vpn6 = [{'label': [54], 'rd': '100:12', 'prefix': '2010:0:12:4::/64'}, {'label': [55], 'rd': '100:12', 'prefix': '2010:1:12::/64'}]
    check('vpnv6', N(2, 128, vpn6),
          b'\x98\x00\x03\x61\x00\x00\x00\x64\x00\x00\x00\x0c\x20\x10\x00\x00\x00\x12\x00\x04'
          b'\x98\x00\x03\x71\x00\x00\x00\x64\x00\x00\x00\x0c\x20\x10\x00\x01\x00\x12\x00\x00')
    vpn6w = b'\x98\x80\x00\x00\x00\x00\x00\x64\x00\x00\x00\x0c\x20\x10\x00\x00\x00\x12\x00' \
            b'\x04\x98\x80\x00\x00\x00\x00\x00\x64\x00\x00\x00\x0c\x20\x10\x00\x01\x00\x12\x00\x00'
    check('vpnv6 withdraw', N(2, 128, [{'rd': '100:12', 'prefix': '2010:0:12:4::/64'}, {'rd': '100:12', 'prefix': '2010:1:12::/64'}], True), vpn6w)
    check('vpnv6 withdraw decode', upd.decode_nlri(2, 128, vpn6w, True),
          [{'label': [524288], 'rd': '100:12', 'prefix': '2010:0:12:4::/64'},
           {'label': [524288], 'rd': '100:12', 'prefix': '2010:1:12::/64'}])
    check('vpnv6 add-path', N(2, 128, [dict(vpn6[0], path_id=100)], False, True),
          b'\x00\x00\x00\x64\x98\x00\x03\x61\x00\x00\x00\x64\x00\x00\x00\x0c\x20\x10\x00\x00\x00\x12\x00\x04')
    # labeled_unicast/test_ipv4_labeled_unicast.py, test_ipv6_labeled_unicast.py
    check('lu4', N(1, 4, [{'prefix': '34.1.41.0/24', 'label': [321]}, {'prefix': '34.1.42.0/24', 'label': [322]}]),
          b'\x30\x00\x14\x11\x22\x01\x29\x30\x00\x14\x21\x22\x01\x2a')
    check('lu4 multi', N(1, 4, [{'prefix': '34.1.41.0/24', 'label': [321, 322]}, {'prefix': '34.1.42.0/24', 'label': [321, 322]}]),
          b'\x48\x00\x14\x10\x00\x14\x21\x22\x01\x29\x48\x00\x14\x10\x00\x14\x21\x22\x01\x2a')
    check('lu4 add-path', N(1, 4, [{'path_id': 1, 'prefix': '5.5.5.5/32', 'label': [3]}], False, True),
          b'\x00\x00\x00\x01\x38\x00\x00\x31\x05\x05\x05\x05')
    lu6 = [{'label': [91], 'prefix': '2001:2121::1/128'}, {'label': [92], 'prefix': '2001:2121:1::/64'},
           {'label': [93], 'prefix': '2001:4837:1821::2/127'}]
    lu6b = b'\x98\x00\x05\xb1\x20\x01\x21\x21\x00\x00\x00\x00\x00\x00\x00\x00\x00\x00\x00\x01\x58\x00\x05\xc1\x20\x01\x21\x21\x00\x01' \
           b'\x00\x00\x97\x00\x05\xd1\x20\x01\x48\x37\x18\x21\x00\x00\x00\x00\x00\x00\x00\x00\x00\x02'
    check('lu6', N(2, 4, lu6), lu6b)
    check('lu6 decode', upd.decode_nlri(2, 4, lu6b, False), [dict(prefix=r['prefix'], label=r['label']) for r in lu6])
    check('lu6 add-path', N(2, 4, [{'path_id': 3, 'label': [2], 'prefix': '5::5/128'}], False, True),
          b'\x00\x00\x00\x03\x98\x00\x00\x21\x00\x05\x00\x00\x00\x00\x00\x00\x00\x00\x00\x00\x00\x00\x00\x05')
    # test_evpn.py
    esis = [({'type': 0, 'value': 0}, b'\x00\x00\x00\x00\x00\x00\x00\x00\x00\x00'),
            ({'type': 1, 'value': {'ce_mac_addr': '4C-1F-CC-EC-17-73', 'ce_port_key': 2609}}, b'\x01\x4c\x1f\xcc\xec\x17\x73\x0a\x31\x00'),
            ({'type': 2, 'value': {'rb_mac_addr': '4C-1F-CC-EC-17-73', 'rb_priority': 2609}}, b'\x02\x4c\x1f\xcc\xec\x17\x73\x0a\x31\x00'),
            ({'type': 3, 'value': {'sys_mac_addr': '4C-1F-CC-EC-17-73', 'ld_value': 667904}}, b'\x03\x4c\x1f\xcc\xec\x17\x73\x0a\x31\x00'),
            ({'type': 4, 'value': {'router_id': 1277152492, 'ld_value': 393415217}}, b'\x04\x4c\x1f\xcc\xec\x17\x73\x0a\x31\x00'),
            ({'type': 5, 'value': {'as_num': 52460, 'ld_value': 393415217}}, b'\x05\x00\x00\xcc\xec\x17\x73\x0a\x31\x00')]
    for esi, raw in esis:
        check('esi %d' % esi['type'], upd.encode_esi(esi), raw)
        check('esi %d decode' % esi['type'], upd.esi_value(raw), esi)
        check('esi %d expected' % esi['type'], upd.expected_esi(esi), esi)
    t1 = {'type': 1, 'value': {'rd': '1.1.1.1:32867', 'esi': {'type': 0, 'value': 0}, 'eth_tag_id': 100, 'label': [10]}}
    t1b = b'\x01\x19\x00\x01\x01\x01\x01\x01\x80\x63\x00\x00\x00\x00\x00\x00\x00\x00\x00\x00\x00\x00\x00\x64\x00\x00\xa1'
    check('evpn 1', upd.encode_evpn_route(t1), t1b)
    t2 = {'type': 2, 'value': {'rd': '172.17.0.3:2', 'mac': '00-11-22-33-44-55', 'eth_tag_id': 108,
                               'esi': {'type': 0, 'value': 0}, 'ip': '11.11.11.1', 'label': [0]}}
    # yabgp's construct vector ends 00 00 00 (label 0 without the low bit), its MP_REACH parse vector 00 00 01;
    # RFC 7432 fixes only the high-order 20 bits.  The reference sets the low bit (SHAPE DECISION 13).
    t2b = b'\x02\x25\x00\x01\xac\x11\x00\x03\x00\x02\x00\x00\x00\x00\x00\x00\x00\x00\x00\x00' \
          b'\x00\x00\x00\x6c\x30\x00\x11\x22\x33\x44\x55\x20\x0b\x0b\x0b\x01\x00\x00'
    check('evpn 2 (all but the last octet)', upd.encode_evpn_route(t2)[:-1], t2b)
    check('evpn 2 last octet', upd.encode_evpn_route(t2)[-1] & 0xf0, 0)
    t3 = {'type': 3, 'value': {'rd': '172.16.0.1:5904', 'eth_tag_id': 100, 'ip': '192.168.0.1'}}
    t3b = b'\x03\x11\x00\x01\xac\x10\x00\x01\x17\x10\x00\x00\x00\x64\x20\xc0\xa8\x00\x01'
    check('evpn 3', upd.encode_evpn_route(t3), t3b)
    t4 = {'type': 4, 'value': {'rd': '172.16.0.1:5904', 'esi': {'type': 0, 'value': 0}, 'ip': '192.168.0.1'}}
    t4b = b'\x04\x17\x00\x01\xac\x10\x00\x01\x17\x10\x00\x00\x00\x00\x00\x00\x00\x00\x00\x00\x20\xc0\xa8\x00\x01'
    check('evpn 4', upd.encode_evpn_route(t4), t4b)
    t5 = {'type': 5, 'value': {'esi': 0, 'eth_tag_id': 1, 'gateway': '1.1.1.1', 'label': [10], 'prefix': '1.1.1.0/24', 'rd': '65536:2'}}
    t5b = b'\x05\x22\x00\x02\x00\x01\x00\x00\x00\x02\x00\x00\x00\x00\x00\x00\x00\x00\x00\x00' \
          b'\x00\x00\x00\x01\x18\x01\x01\x01\x00\x01\x01\x01\x01\x00\x00\xa1'
    check('evpn 5 v4', upd.encode_evpn_route(t5), t5b)
    t56 = {'type': 5, 'value': {'esi': 0, 'eth_tag_id': 1, 'gateway': '2001:3232::1', 'label': [10],
                                'prefix': '2001:3232::1/64', 'rd': '65536:2'}}
    t56b = b'\x05\x3a\x00\x02\x00\x01\x00\x00\x00\x02\x00\x00\x00\x00\x00\x00\x00\x00\x00\x00\x00\x00\x00\x01\x40' \
           b'\x20\x01\x32\x32\x00\x00\x00\x00\x00\x00\x00\x00\x00\x00\x00\x01' \
           b'\x20\x01\x32\x32\x00\x00\x00\x00\x00\x00\x00\x00\x00\x00\x00\x01\x00\x00\xa1'
    check('evpn 5 v6', upd.encode_evpn_route(t56), t56b)
    want5 = {'type': 5, 'value': dict(t56['value'], esi={'type': 0, 'value': 0})}
    check('evpn 5 expected', upd.expected_evpn_route(t56), want5)
    check('evpn decode', upd.decode_nlri(25, 70, t1b + t3b + t4b + t5b + t56b, False),
          [t1, t3, t4, {'type': 5, 'value': dict(t5['value'], esi={'type': 0, 'value': 0})}, want5])
    # test_ipv4_flowspec.py
    check('fs ops', upd.flowspec_ops('=80|=8080|=8083'), b'\x01\x50\x11\x1f\x90\x91\x1f\x93')
    check('fs rule ports', upd.flowspec_rule({5: '=80|=8080|=8081|=8082|=8083'}),
          b'\x0f\x05\x01\x50\x11\x1f\x90\x11\x1f\x91\x11\x1f\x92\x91\x1f\x93')
    check('fs rule prefixes', upd.flowspec_rule({1: '192.85.2.0/24', 2: '192.85.1.0/24'}), b'\x0a\x01\x18\xc0\x55\x02\x02\x18\xc0\x55\x01')
    check('fs prefix /19', upd.flowspec_rule({1: '184.157.224.0/19'})[2:], b'\x13\xb8\x9d\xe0')
    big = {1: '2.2.2.0/24', 2: '3.3.0.0/16', 3: '=0|=47|=88|=1|=2|=89|=103', 5: '=8082|=8083',
           6: '=80|=8080|=8081|=8082|=8083', 7: '=2|=3|=5|=6', 8: '=2', 9: '=40', 10: '=254|>=254&<=300', 11: '=40|=48', 12: '=1'}
    bigb = b'\x01\x18\x02\x02\x02\x02\x10\x03\x03\x03\x01\x00\x01\x2f\x01\x58' \
           b'\x01\x01\x01\x02\x01\x59\x81\x67\x05\x11\x1f\x92\x91\x1f\x93\x06\x01' \
           b'\x50\x11\x1f\x90\x11\x1f\x91\x11\x1f\x92\x91\x1f\x93\x07\x01\x02\x01' \
           b'\x03\x01\x05\x81\x06\x08\x81\x02\x09\x81\x28\x0a\x01\xfe\x03\xfe\xd5' \
           b'\x01\x2c\x0b\x01\x28\x81\x30\x0c\x81\x01'
    check('fs big rule', upd.flowspec_rule(big), bytes([len(bigb)]) + bigb)
    check('fs big rule decode', upd.decode_nlri(1, 133, bytes([len(bigb)]) + bigb, False), [big])
    check('fs big rule expected', upd.expected_flowspec_rule(big), big)


def vectors_mp():
    A = upd.encode_attr
    # test_mpreachnlri.py
    vpn4 = {'afi_safi': (1, 128), 'nexthop': {'rd': '0:0', 'str': '2.2.2.2'},
            'nlri': [{'label': [25], 'rd': '100:100', 'prefix': '170.0.0.0/32'}]}
    vpn4v = b'\x00\x01\x80\x0c\x00\x00\x00\x00\x00\x00\x00\x00\x02\x02\x02\x02' \
            b'\x00\x78\x00\x01\x91\x00\x00\x00\x64\x00\x00\x00\x64\xaa\x00\x00\x00'
    check('mp vpnv4 short', A(14, vpn4, False), b'\x80\x0e\x21' + vpn4v)
    check('mp vpnv4 ext', A(14, vpn4, False, True), b'\x90\x0e\x00\x21' + vpn4v)
    vpn6 = {'afi_safi': (2, 128), 'nexthop': {'rd': '0:0', 'str': '::ffff:172.16.4.12'},
            'nlri': [{'label': [54], 'rd': '100:12', 'prefix': '2010:0:12:4::/64'},
                     {'label': [55], 'rd': '100:12', 'prefix': '2010:1:12::/64'}]}
    vpn6v = b'\x00\x02\x80\x18\x00\x00\x00\x00\x00\x00\x00\x00\x00\x00\x00\x00' \
            b'\x00\x00\x00\x00\x00\x00\xff\xff\xac\x10\x04\x0c\x00\x98\x00\x03\x61\x00\x00' \
            b'\x00\x64\x00\x00\x00\x0c\x20\x10\x00\x00\x00\x12\x00\x04\x98\x00\x03\x71\x00' \
            b'\x00\x00\x64\x00\x00\x00\x0c\x20\x10\x00\x01\x00\x12\x00\x00'
    check('mp vpnv6 short', A(14, vpn6, False), b'\x80\x0e\x45' + vpn6v)
    check('mp vpnv6 ext', A(14, vpn6, False, True), b'\x90\x0e\x00\x45' + vpn6v)
    check('mp vpnv6 expected', upd.expected_attr(14, vpn6, False), vpn6)
    u6 = {'afi_safi': (2, 1), 'nexthop': '2001:3232::1', 'nlri': ['2001:3232::1/128', '2001:3232:1::/64', '2001:4837:1632::2/127']}
    u6v = b"\x00\x02\x01\x10\x20\x01\x32\x32\x00\x00\x00\x00\x00\x00\x00\x00\x00\x00\x00" \
          b"\x01\x00\x80\x20\x01\x32\x32\x00\x00\x00\x00\x00\x00\x00\x00\x00\x00\x00\x01" \
          b"\x40\x20\x01\x32\x32\x00\x01\x00\x00\x7f\x20\x01\x48\x37\x16\x32\x00\x00\x00" \
          b"\x00\x00\x00\x00\x00\x00\x02"
    check('mp ipv6', upd.attr_value(14, u6, False), u6v)
    u6l = {'afi_safi': (2, 1), 'linklocal_nexthop': 'fe80::c002:bff:fe7e:0', 'nexthop': '2001:db8::2',
           'nlri': ['2001:db8:2:2::/64', '2001:db8:2:1::/64', '2001:db8:2::/64']}
    u6lv = b"\x00\x02\x01\x20\x20\x01\x0d\xb8\x00\x00\x00\x00\x00\x00\x00\x00\x00\x00\x00" \
           b"\x02\xfe\x80\x00\x00\x00\x00\x00\x00\xc0\x02\x0b\xff\xfe\x7e\x00\x00\x00\x40" \
           b"\x20\x01\x0d\xb8\x00\x02\x00\x02\x40\x20\x01\x0d\xb8\x00\x02\x00\x01\x40\x20" \
           b"\x01\x0d\xb8\x00\x02\x00\x00"
    check('mp ipv6 link-local', upd.attr_value(14, u6l, False), u6lv)
    check('mp ipv6 link-local expected', upd.expected_attr(14, u6l, False), u6l)
    check('mp ipv6 link-local decode', upd._dec_attr(14, u6lv, False, False), u6l)
    ap = {'afi_safi': (1, 1), 'nexthop': '10.24.37.55', 'nlri': [{'prefix': '5.5.5.5/32', 'path_id': 2}]}
    check('mp ipv4 add-path', upd.attr_value(14, ap, False, True), b'\x00\x01\x01\x04\n\x18%7\x00\x00\x00\x00\x02 \x05\x05\x05\x05')
    fs2 = {'afi_safi': (1, 133), 'nexthop': '', 'nlri': [{1: '192.88.3.0/24', 2: '192.89.3.0/24'}, {1: '192.88.4.0/24', 2: '192.89.4.0/24'}]}
    check('mp flowspec 2 rules', upd.attr_value(14, fs2, False),
          b'\x00\x01\x85\x00\x00\x0a\x01\x18\xc0\x58\x03\x02\x18\xc0\x59\x03\x0a\x01\x18\xc0\x58\x04\x02\x18\xc0\x59\x04')
    check('mp flowspec expected', upd.expected_attr(14, fs2, False), fs2)
    fs1 = {'afi_safi': (1, 133), 'nexthop': '', 'nlri': [{1: '192.85.2.0/24', 2: '192.85.1.0/24'}]}
    check('mp flowspec ext', A(14, fs1, False, True), b'\x90\x0e\x00\x10\x00\x01\x85\x00\x00\x0a\x01\x18\xc0\x55\x02\x02\x18\xc0\x55\x01')
    ev2 = {'afi_safi': (25, 70), 'nexthop': '172.17.0.3',
           'nlri': [{'type': 2, 'value': {'eth_tag_id': 108, 'ip': '11.11.11.1', 'label': [0], 'rd': '172.17.0.3:2',
                                          'mac': '00-11-22-33-44-55', 'esi': {'type': 0, 'value': 0}}}]}
    ev2b = b'\x80\x0e\x30\x00\x19\x46\x04\xac\x11\x00\x03\x00\x02\x25\x00\x01\xac\x11' \
           b'\x00\x03\x00\x02\x00\x00\x00\x00\x00\x00\x00\x00\x00\x00\x00\x00\x00\x6c' \
           b'\x30\x00\x11\x22\x33\x44\x55\x20\x0b\x0b\x0b\x01\x00\x00\x01'
    check('mp evpn type 2 (parse vector)', A(14, ev2, False), ev2b)
    check('mp evpn expected', upd.expected_attr(14, ev2, False), ev2)
    check('mp evpn decode', upd._dec_attr(14, ev2b[3:], False, False), ev2)
    # test_mpunreachnlri.py
    w4 = {'afi_safi': (1, 128), 'withdraw': [{'label': [524288], 'rd': '2:2', 'prefix': '192.168.201.0/24'}]}
    w4b = b'\x80\x0f\x12\x00\x01\x80\x70\x80\x00\x00\x00\x00\x00\x02\x00\x00\x00\x02\xc0\xa8\xc9'
    check('unreach vpnv4', A(15, w4, False), w4b)
    check('unreach vpnv4 expected', upd.expected_attr(15, w4, False), w4)
    check('unreach vpnv4 decode', upd._dec_attr(15, w4b[3:], False, False), w4)
    check('unreach ipv6', upd.attr_value(15, {'afi_safi': (2, 1), 'withdraw': ['2001:4837::20/128']}, False),
          b"\x00\x02\x01\x80\x20\x01\x48\x37\x00\x00\x00\x00\x00\x00\x00\x00\x00\x00\x00\x20")
    check('unreach flowspec', upd.attr_value(15, {'afi_safi': (1, 133), 'withdraw': [{1: '192.85.2.0/24', 2: '192.85.1.0/24'}]}, False),
          b'\x00\x01\x85\x0a\x01\x18\xc0\x55\x02\x02\x18\xc0\x55\x01')
    check('unreach ipv4 add-path', upd.attr_value(15, {'afi_safi': (1, 1), 'withdraw': [{'prefix': '5.5.5.5/32', 'path_id': 2}]}, False, True),
          b'\x00\x01\x01\x00\x00\x00\x02 \x05\x05\x05\x05')


def vectors_update():
    # test_update.py
    check('prefix list', upd.encode_prefix_list(['184.157.224.0/19', '69.179.221.0/24', '69.179.220.0/24', '209.102.178.0/24',
                                                 '66.112.100.0/22', '208.54.194.0/24'], 4, False, None),
          b'\x13\xb8\x9d\xe0\x18E\xb3\xdd\x18E\xb3\xdc\x18\xd1f\xb2\x16Bpd\x18\xd06\xc2')
    check('prefix list add-path', upd.encode_prefix_list([{'path_id': 1, 'prefix': '99.99.99.99/32'}], 4, True, None),
          b'\x00\x00\x00\x01\x20\x63\x63\x63\x63')
    attr = {1: 0, 2: [(2, [1, 2, 3])], 3: '172.16.1.14', 4: 0, 5: 100, 9: '172.16.1.14', 10: ['2.2.2.2', '100.100.100.100']}
    blob = b'@\x01\x01\x00@\x02\x08\x02\x03\x00\x01\x00\x02\x00\x03@\x03\x04\xac\x10\x01\x0e\x80\x04\x04' \
           b'\x00\x00\x00\x00@\x05\x04\x00\x00\x00d\x80\t\x04\xac\x10\x01\x0e\x80\n\x08\x02\x02\x02\x02dddd'
    check('attribute blob', upd.encode_body({'attr': attr})[4:], blob)
    m2 = {'attr': {1: 2, 2: [(2, [30]), (1, [10, 20])], 3: '10.0.0.9', 4: 0, 7: (30, '10.0.0.9')}, 'nlri': ['172.16.0.0/21']}
    b2 = b'\x00\x00\x00\x28\x40\x01\x01\x02\x40\x02\x0a\x02\x01\x00\x1e\x01\x02\x00\x0a\x00\x14\x40\x03\x04' \
         b'\x0a\x00\x00\x09\x80\x04\x04\x00\x00\x00\x00\xc0\x07\x06\x00\x1e\x0a\x00\x00\x09\x15\xac\x10\x00'
    check('update 2-octet AS', upd.encode_body(m2, False), b2)
    b4 = b'\x00\x00\x00\x30\x40\x01\x01\x02\x40\x02\x10\x02\x01\x00\x00\x00\x1e\x01\x02\x00\x00\x00\x0a\x00' \
         b'\x00\x00\x14\x40\x03\x04\x0a\x00\x00\x09\x80\x04\x04\x00\x00\x00\x00\xc0\x07\x08\x00\x00\x00' \
         b'\x1e\x0a\x00\x00\x09\x15\xac\x10\x00'
    check('update 4-octet AS', upd.encode_body(m2, True), b4)
    for body, asn4 in ((b2, False), (b4, True)):
        d = upd.decode_update(body, asn4)
        check('update decode', (d['attr'], d['nlri'], d['withdraw']), (m2['attr'], m2['nlri'], []))
    map_ = {'attr': {1: 0, 2: [(2, [64511])], 3: '10.0.14.1', 4: 0, 5: 100, 9: '10.0.15.1', 10: ['10.0.34.4']},
            'nlri': [{'path_id': 1, 'prefix': '5.5.5.5/32'}, {'path_id': 1, 'prefix': '192.168.1.5/32'}]}
    bap = b'\x00\x00\x00\x30\x40\x01\x01\x00\x40\x02\x06\x02\x01\x00\x00\xfb\xff\x40\x03\x04\x0a\x00\x0e' \
          b'\x01\x80\x04\x04\x00\x00\x00\x00\x40\x05\x04\x00\x00\x00\x64\x80\x0a\x04\x0a\x00\x22' \
          b'\x04\x80\x09\x04\x0a\x00\x0f\x01\x00\x00\x00\x01\x20\x05\x05\x05\x05\x00\x00\x00\x01\x20\xc0\xa8\x01\x05'
    check('update add-path', upd.encode_body(map_, True, True, {'order': [1, 2, 3, 4, 5, 10, 9]}), bap)
    check('update add-path default id', upd.encode_body(dict(map_, nlri=['5.5.5.5/32', '192.168.1.5/32']), True, True,
                                                        {'order': [1, 2, 3, 4, 5, 10, 9], 'path_id': 1}), bap)
    check('withdraw add-path', upd.encode_body({'withdraw': [{'path_id': 1, 'prefix': '99.99.99.99/32'}]}, True, True),
          b'\x00\x09\x00\x00\x00\x01\x20\x63\x63\x63\x63\x00\x00')
    m6 = {'attr': {1: 0, 2: [], 4: 0, 5: 100, 14: {'afi_safi': (2, 1), 'nexthop': '::ffff:172.31.34.170', 'nlri': ['2001::1/128']}}}
    b6 = b'\xff\xff\xff\xff\xff\xff\xff\xff\xff\xff\xff\xff\xff\xff\xff\xff' \
         b'\x00\x55\x02\x00\x00\x00\x3e\x80\x0e\x26\x00\x02\x01\x10\x00\x00' \
         b'\x00\x00\x00\x00\x00\x00\x00\x00\xff\xff\xac\x1f\x22\xaa\x00\x80' \
         b'\x20\x01\x00\x00\x00\x00\x00\x00\x00\x00\x00\x00\x00\x00\x00\x01' \
         b'\x40\x01\x01\x00\x40\x02\x00\x80\x04\x04\x00\x00\x00\x00\x40\x05\x04\x00\x00\x00\x64'
    check('update ipv6 (with header)', upd.encode_update(m6, True, False, {'order': [14, 1, 2, 4, 5]}), b6)
    check('update ipv6 expected', upd.expected(m6, True)['attr'], m6['attr'])
    check('update ipv6 decode', upd.decode_update(b6[19:], True)['attr'], m6['attr'])
    mv = {'attr': {1: 2, 2: [], 4: 0, 5: 100, 9: '192.168.1.6', 10: ['192.168.1.1', '192.168.1.2', '192.168.1.3', '192.168.1.4'],
                   14: {'afi_safi': (1, 128), 'nexthop': {'rd': '0:0', 'str': '192.168.1.6'},
                        'nlri': [{'label': [29], 'rd': '2:2', 'prefix': '192.168.201.0/24'}]}, 16: [[2, '2:2']]}}
    bv = b'\xff\xff\xff\xff\xff\xff\xff\xff\xff\xff\xff\xff\xff\xff\xff\xff\x00' \
         b'\x74\x02\x00\x00\x00\x5d\x40\x01\x01\x02\x40\x02\x00\x80\x04\x04\x00' \
         b'\x00\x00\x00\x40\x05\x04\x00\x00\x00\x64\xc0\x10\x08\x00\x02\x00\x02' \
         b'\x00\x00\x00\x02\x80\x0a\x10\xc0\xa8\x01\x01\xc0\xa8\x01\x02\xc0\xa8' \
         b'\x01\x03\xc0\xa8\x01\x04\x80\x09\x04\xc0\xa8\x01\x06\x80\x0e\x20\x00' \
         b'\x01\x80\x0c\x00\x00\x00\x00\x00\x00\x00\x00\xc0\xa8\x01\x06\x00\x70' \
         b'\x00\x01\xd1\x00\x00\x00\x02\x00\x00\x00\x02\xc0\xa8\xc9'
    check('update vpnv4 (with header)', upd.encode_update(mv, True, False, {'order': [1, 2, 4, 5, 16, 10, 9, 14]}), bv)
    check('update vpnv4 expected 16', upd.expected(mv, True)['attr'][16], ['route-target:2:2'])


# ---------------------------------------------------------------------------------------------
# literal checks in the areas where yabgp is known to deviate (the reference must be RFC-exact)
# ---------------------------------------------------------------------------------------------
def rfc_points():
    check('/0 v4', upd.encode_prefix4('0.0.0.0/0'), b'\x00')
    check('/0 v6', upd.encode_prefix6('::/0'), b'\x00')
    check('/1 v4', upd.encode_prefix4('128.0.0.0/1'), b'\x01\x80')
    check('/33 v6', upd.encode_prefix6('2001:db8:8000::/33'), b'\x21\x20\x01\x0d\xb8\x80')
    check('/9 v6 below 2^32 text', upd._canon_prefix('::/9', 6), '::/9')
    check('trailing bits', upd.encode_prefix4('10.128.0.0/9', True), b'\x09\x0a\xff')
    check('host bits dropped', upd.encode_prefix4('10.255.255.255/9'), b'\x09\x0a\x80')
    tb = {'withdraw': ['10.128.0.0/9'], 'attr': {14: {'afi_safi': (1, 4), 'nexthop': '1.1.1.1',
                                                     'nlri': [{'prefix': '10.128.0.0/9', 'label': [1]}]}}}
    check('trailing bits, plain lists only', upd.encode_body(tb, False, False, {'trailing_bits': 'ipv4-unicast'}).hex(),
          '0003090aff0012800e0f000104040101010100210000110a80')
    check('trailing bits, all v4', upd.encode_body(tb, False, False, {'trailing_bits': 'v4'}).hex(),
          '0003090aff0012800e0f000104040101010100210000110aff')
    for plen in range(129):
        check('v6 octet count %d' % plen, len(upd.encode_prefix6('::/%d' % plen)), 1 + (plen + 7) // 8)
    for plen in range(33):
        check('v4 octet count %d' % plen, len(upd.encode_prefix4('0.0.0.0/%d' % plen)), 1 + (plen + 7) // 8)
    check('label 0', upd.encode_labels([0]), b'\x00\x00\x01')
    check('label max', upd.encode_labels([2 ** 20 - 1]), b'\xff\xff\xf1')
    check('label stack 0,0', upd.encode_labels([0, 0]), b'\x00\x00\x00\x00\x00\x01')
    check('label 2^19', upd.encode_labels([2 ** 19]), b'\x80\x00\x01')
    check('withdraw label lu', upd.encode_nlri(1, 4, [{'prefix': '10.0.0.0/8', 'label': [5]}], True), b'\x20\x80\x00\x00\x0a')
    check('ipv6 < 2^32 text', upd.ip6_text(bytes(15) + b'\x01'), '::1')
    check('ipv6 < 2^32 text b', upd.ip6_text(bytes(12) + b'\x01\x02\x03\x04'), '::102:304')
    check('ipv6 mapped text', upd.ip6_text(bytes(10) + b'\xff\xff\x01\x02\x03\x04'), '::ffff:1.2.3.4')
    check('canon_text', [upd.canon_text(s) for s in ('::1.2.3.4', '2001:DB8:0:0::1/64', 'route-target:1:2', '1:2:3', '0:0', '10.0.0.1')],
          ['::102:304', '2001:db8::1/64', 'route-target:1:2', '1:2:3', '0:0', '10.0.0.1'])
    check('large >= 2^31', upd.expected_attr(32, ['4294967295:2147483648:0'], False), ['4294967295:2147483648:0'])
    check('large bytes', upd.attr_value(32, ['4294967295:2147483648:0'], False), b'\xff\xff\xff\xff\x80\x00\x00\x00\x00\x00\x00\x00')
    check('esi t3 padded', upd.encode_esi({'type': 3, 'value': {'sys_mac_addr': '00-00-00-00-00-01', 'ld_value': 1}}),
          b'\x03\x00\x00\x00\x00\x00\x01\x00\x00\x01')
    check('esi t0 max', upd.encode_esi({'type': 0, 'value': 2 ** 72 - 1}), b'\x00' + b'\xff' * 9)
    check('well-known names', [upd.community_text(upd.community_value(n)) for n in pools.WK_NAMES], list(pools.WK_NAMES))
    check('well-known count', len(pools.WK_NAMES), 11)
    # attribute length forms
    v255 = [(2, [1] * 126)]                      # 2 + 252 = 254 octets
    v256 = [(2, [1] * 127)]                      # 256 octets
    a = upd.encode_attr(2, v255, False)
    check('aspath 254 short form', (a[0], a[2], len(a)), (0x40, 254, 257))
    a = upd.encode_attr(2, v256, False)
    check('aspath 256 extended form', (a[0], a[2:4], len(a)), (0x50, b'\x01\x00', 260))
    a = upd.encode_attr(2, v255, False, True)
    check('forced extended form', (a[0], a[2:4]), (0x50, b'\x00\xfe'))
    a = upd.encode_attr(8, ['1:1'] * 64, False)
    check('communities 256 octets', (a[0], a[2:4]), (0xd0, b'\x01\x00'))
    # flowspec long rule
    r = upd.flowspec_rule({5: '|'.join('=%d' % (1000 + i) for i in range(100))})
    check('flowspec 2-octet length', (r[:2], len(r)), (b'\xf1\x2d', 2 + 1 + 300))
    check('flowspec value widths', upd.flowspec_ops('=255|=256|=65535|=65536|=4294967295|=4294967296'),
          b'\x01\xff\x11\x01\x00\x11\xff\xff\x21\x00\x01\x00\x00\x21\xff\xff\xff\xff\xb1\x00\x00\x00\x01\x00\x00\x00\x00')
    check('flowspec ops', [upd.flowspec_ops(t)[0] for t in ('=1', '<1', '>1', '<=1', '>=1', '><1')], [0x81, 0x84, 0x82, 0x85, 0x83, 0x86])
    check('flowspec component order', upd.flowspec_rule({6: '=1', 2: '10.0.0.0/8', 5: '=2'}), b'\x09\x02\x08\x0a\x05\x81\x02\x06\x81\x01')
    # withdraw + attributes + NLRI in one message
    m = {'attr': {1: 0, 2: [], 3: '10.0.0.1'}, 'nlri': ['10.0.0.0/8'], 'withdraw': ['20.0.0.0/8']}
    check('withdraw and announce', upd.encode_body(m), b'\x00\x02\x08\x14\x00\x0e@\x01\x01\x00@\x02\x00@\x03\x04\x0a\x00\x00\x01\x08\x0a')
    check('end-of-rib', upd.encode_update({}), b'\xff' * 16 + b'\x00\x17\x02\x00\x00\x00\x00')
    # in_range
    bad = [({'attr': {2: [(2, [65536])]}}, False), ({'attr': {7: (65536, '1.1.1.1')}}, False), ({'attr': {4: 2 ** 32}}, False),
           ({'attr': {5: -1}}, False), ({'attr': {1: 3}}, False), ({'nlri': ['10.0.0.0/33']}, False), ({'attr': {8: ['65536:1']}}, False),
           ({'attr': {32: ['4294967296:0:0']}}, False), ({'attr': {2: [(5, [1])]}}, False), ({'attr': {2: [(2, [1] * 256)]}}, False),
           ({'attr': {14: {'afi_safi': (1, 4), 'nexthop': '1.1.1.1', 'nlri': [{'prefix': '1.0.0.0/8', 'label': [2 ** 20]}]}}}, True),
           ({'attr': {14: {'afi_safi': (1, 128), 'nexthop': {'rd': '0:0', 'str': '1.1.1.1'},
                           'nlri': [{'prefix': '1.0.0.0/8', 'label': [1], 'rd': '65536:65536'}]}}}, True),
           ({'attr': {14: {'afi_safi': (2, 1), 'nexthop': '::1', 'nlri': ['::/129']}}}, True),
           ({'attr': {16: [[0x0002, '65536:1']]}}, True), ({'attr': {16: [[0x8009, 64]]}}, True),
           ({'nlri': ['10.0.0.%d/32' % (i % 256) for i in range(900)]}, False), ({'attr': {6: 'x'}}, False),
           ({'attr': {3: '::1'}}, False), ({'nlri': [{'prefix': '1.1.1.1/32', 'path_id': 1}]}, False)]
    for msg, asn4 in bad:
        ok, why = upd.in_range(msg, asn4)
        check('out of range %r' % (sorted(msg.get('attr', msg)),), (ok, bool(why)), (False, True))
    good = [({'attr': {2: [(2, [65535])]}}, False), ({'attr': {2: [(2, [2 ** 32 - 1])]}}, True), ({'attr': {17: [(2, [2 ** 32 - 1])]}}, False),
            ({'attr': {4: 2 ** 32 - 1}}, False), ({'attr': {2: [(2, [1] * 255)] * 3}}, True), ({}, False)]
    for msg, asn4 in good:
        check('in range %r' % (msg,), upd.in_range(msg, asn4), (True, ''))


# ---------------------------------------------------------------------------------------------
# (b) encode -> independent decode == expected, on every pool case; variant switches on a sample
# ---------------------------------------------------------------------------------------------
def structural(body):
    """A third, minimal walk: the lengths nest exactly (independent of decode_update)."""
    wl = struct.unpack('!H', body[:2])[0]
    al = struct.unpack('!H', body[2 + wl:4 + wl])[0]
    if 4 + wl + al > len(body):
        return False
    p, end = 4 + wl, 4 + wl + al
    while p < end:
        flags = body[p]
        if flags & 0x10:
            n = struct.unpack('!H', body[p + 2:p + 4])[0]
            p += 4 + n
        else:
            p += 3 + body[p + 2]
    return p == end


def triple(d):
    return d['attr'], d['nlri'], d['withdraw']


def roundtrip(name, msg, asn4, add_path=False, opts=None):
    try:
        body = upd.encode_body(msg, asn4, add_path, opts)
    except upd.OutOfRange as e:
        if opts and 'exceeds 4096' in str(e):
            return None             # a variant switch made a big message too big: not a case
        if '256' in name.split('seglen=')[-1].split('|')[0] or '600' in name.split('seglen=')[-1].split('|')[0]:
            return None             # deliberately beyond the one-octet segment count: the pools hold them as must-be-refused cases
        check(name + ' in_range: %s' % e, False, True)
        return None
    check(name + ' structure', structural(body), True)
    try:
        got = triple(upd.decode_update(body, asn4, add_path))
    except upd.Malformed as e:
        check(name + ' decode raised %s' % e, False, True)
        return body
    want = triple(upd.expected(msg, asn4, add_path, opts))
    check(name + ' round trip', got, want)
    return body


def all_codes(msg):
    return sorted(msg.get('attr') or {})


def pool_roundtrips(tier, sample=1):
    n = 0
    fams = {}
    t0 = time.time()
    for gen in (pools.c06_cases, pools.c07_cases):
        prev_key = None
        for fam, cv, msg, asn4 in gen(tier):
            n += 1
            if n % sample:
                continue
            fams[fam.split(':')[0]] = fams.get(fam.split(':')[0], 0) + 1
            name = '%s %s %r' % (fam, '|'.join(cv), asn4)
            if not isinstance(cv, tuple) or not all(isinstance(c, str) for c in cv) or not isinstance(fam, str):
                check(name + ' case shape', False, True)
            base = roundtrip(name, msg, asn4)
            if base is None:
                continue
            # variants: on the first case of every (family, class-vector) key and on every 17th case
            key = (fam, cv)
            if key == prev_key and n % 17:
                continue
            prev_key = key
            codes = all_codes(msg)
            for label, add_path, opts in (
                    ('ext_len', False, {'ext_len': set(codes)}),
                    ('trailing', False, {'trailing_bits': True}),
                    ('reverse', False, {'order': codes[::-1]}),
                    ('split1', False, {'split_aspath': 1}),
                    ('split100', False, {'split_aspath': 100}),
                    ('add-path', True, {'path_id': 7}),
                    ('all', True, {'ext_len': set(codes), 'trailing_bits': True, 'order': codes[::-1], 'split_aspath': 64, 'path_id': M32})):
                if label.startswith('split') and not any(len(s[1]) > int(label[5:]) for c in (2, 17) for s in (msg.get('attr') or {}).get(c, [])):
                    continue
                if label in ('split1', 'all') and sum(len(s[1]) for s in (msg.get('attr') or {}).get(2, [])) > 500:
                    continue        # would not fit 4096 octets once every AS has its own segment header
                body = roundtrip(name + ' +' + label, msg, asn4, add_path, opts)
                if body is not None and label in ('ext_len', 'reverse', 'trailing') and len(body) < len(base):
                    check(name + ' +' + label + ' shorter than plain', len(body), len(base))
    print('pools %s: %d cases in %.1f s; families: %s' % (tier, n, time.time() - t0, ', '.join('%s=%d' % kv for kv in sorted(fams.items()))))
    return n


M32 = 2 ** 32 - 1


def element_pool_checks():
    ep = pools.element_pools()
    kinds = {'ipv4_prefix': (1, 1, False, False), 'ipv4_prefix_addpath': (1, 1, False, True), 'ipv6_prefix': (2, 1, False, False),
             'ipv6_prefix_addpath': (2, 1, False, True), 'ipv4_lu': (1, 4, False, False), 'ipv6_lu': (2, 4, False, False),
             'ipv4_lu_withdraw': (1, 4, True, False), 'ipv6_lu_withdraw': (2, 4, True, False), 'vpnv4': (1, 128, False, False),
             'vpnv6': (2, 128, False, False), 'vpnv4_withdraw': (1, 128, True, False), 'vpnv6_withdraw': (2, 128, True, False),
             'evpn': (25, 70, False, False), 'flowspec': (1, 133, False, False)}
    for kind, (afi, safi, wd, ap) in sorted(kinds.items()):
        elems = ep[kind]
        if kind == 'evpn':
            elems = [e for e in elems if e[0] in (1, 2, 3, 4, 5)]     # the pool also holds route types the reference has no decoder for
        check(kind + ' pool size', 20 <= len(elems) <= 900, True)
        check(kind + ' distinct', len(set(elems)), len(elems))
        for i, e in enumerate(elems):
            one = upd.decode_nlri(afi, safi, e, wd, ap)
            check('%s element %d decodes to one element' % (kind, i), len(one), 1)
            nxt = elems[(i + 1) % len(elems)]
            two = upd.decode_nlri(afi, safi, e + nxt, wd, ap)
            check('%s element %d composes' % (kind, i), two, one + upd.decode_nlri(afi, safi, nxt, wd, ap))
    widths = {'community': 4, 'ext_community': 8, 'large_community': 12, 'cluster_id': 4}
    for kind, w in widths.items():
        check(kind + ' widths', set(len(e) for e in ep[kind]), {w})
        check(kind + ' distinct', len(set(ep[kind])), len(ep[kind]))
    for kind, asn4 in (('aspath_seg2', False), ('aspath_seg4', True)):
        for e in ep[kind]:
            check(kind + ' element', len(upd._dec_aspath(e, asn4)), 1)
    lens = set(e[0] for e in ep['ipv4_prefix'])
    check('ipv4 every length', lens, set(range(33)))
    check('ipv6 every length', set(e[0] for e in ep['ipv6_prefix']), set(range(129)))
    check('flowspec long rule present', any(e[0] >= 0xf0 for e in ep['flowspec']), True)
    check('evpn types', set(e[0] for e in ep['evpn']) >= {1, 2, 3, 4, 5}, True)
    print('element pools: ' + ', '.join('%s=%d' % (k, len(v)) for k, v in sorted(ep.items())))


def determinism():
    a = [(f, cv, repr(m), a4) for f, cv, m, a4 in pools.c07_cases('quick')][:5000]
    b = [(f, cv, repr(m), a4) for f, cv, m, a4 in pools.c07_cases('quick')][:5000]
    check('pools deterministic', a == b, True)


def main():
    tier, sample = 'quick', 1
    if '--tier' in sys.argv:
        tier = sys.argv[sys.argv.index('--tier') + 1]
    if '--sample' in sys.argv:
        sample = max(1, int(sys.argv[sys.argv.index('--sample') + 1]))
    vectors_attributes()
    vectors_nlri()
    vectors_mp()
    vectors_update()
    nvec = CHECKS[0]
    rfc_points()
    element_pool_checks()
    determinism()
    n = pool_roundtrips(tier, sample)
    if tier == 'quick':
        check('quick tier size within 100-150 k', 100000 <= n <= 150000, True)
    if FAILS:
        print('selftest_upd FAILED: %d of %d checks (%d from unit-test vectors)' % (len(FAILS), CHECKS[0], nvec))
        sys.exit(1)
    print('selftest_upd ok: %d checks (%d from unit-test vectors), %d pool cases' % (CHECKS[0], nvec, n))


if __name__ == '__main__':
    main()
