"""C01 - the session FSM follows the RFC 4271 profile for every event order (DESIGN 7 C01, App. A)."""
from .. import explore, report, world as W, spec_fsm as S, findings
from ..alphabet import session_messages, classify
from .c12 import generic_replay

PROP = 'C01'


def abstract_event(w, ev):
    k = ev[0]
    if k == 'TICK':
        return (S.TIMER_EVENT.get(w.last_info.get('callee'), 'T_OTHER:%s' % w.last_info.get('callee')),)
    if k == 'CONN_REFUSED':
        return ('CONN_FAIL',)
    if k in ('PEER_CLOSE', 'PEER_RESET'):
        return ('PEER_CLOSE',)
    if k == 'RX':
        return classify(ev[2])
    return (k,)


def exchange_flags(t):
    """what has been exchanged on transport t, from the wire only"""
    sc = explore.Script({})
    return sc.exchanged(t)


class Monitor(explore.BaseMonitor):
    track_stats = False

    def __init__(self, cfg, w):
        self.dead = False
        self.ref = S.RefFSM(w.cfg['hold'])
        self.resyncs = 0
        self.valid_peer_open = False    # on the current connection
        self.peer_ka = False

    def pre(self, w, ev):
        self.live_before = w.live()
        self.key_before = w.key()
        self.cur_before = [c.cid for c in w.sim.connectors if c.state == 'connected' and c.transport.connected]

    def _world_state(self, w):
        """state the *world* implies (used to re-synchronise after a known finding)"""
        if w.connecting():
            return S.CONNECT
        rd = w.readable()
        if rd:
            a_open, a_ka, p_open, p_ka = exchange_flags(rd[-1].transport)
            if a_open and a_ka and self.valid_peer_open and self.peer_ka:
                return S.ESTABLISHED
            if a_open and a_ka and self.valid_peer_open:
                return S.OPENCONFIRM
            if a_open:
                return S.OPENSENT
            return S.CONNECT
        return S.IDLE

    def post(self, w, ev, obs, aobs):
        v = []
        ref = self.ref
        aev = abstract_event(w, ev)
        reported = w.reported_state()
        if self.live_before > 1 or w.live() > 1:
            # outside the single-connection regime: C12's business; do not judge, do not extend
            self.dead = True
            return v
        writes = [e[2:] for e in aobs if e[0] == 'write']
        wtids = [e[1] for e in obs if e[0] == 'write']
        # the OPEN action of every session is the same message (RFC 4271 4.2: the configured values, never a hold time of 1 or 2)
        for e in obs:
            if e[0] == 'write' and isinstance(e[2], (bytes, bytearray)) and len(e[2]) >= 29 and e[2][18] == 1:
                first = getattr(self, 'first_open', None)
                if first is None:
                    self.first_open = bytes(e[2][:e[2][16] * 256 + e[2][17]])
                elif bytes(e[2][:len(first)]) != first:
                    v.append(('C01|%s|%s|the OPEN sent differs from the OPEN of this agent\'s first session' % (ref.label(), aev[0]),
                              {'first': first.hex(), 'now': bytes(e[2]).hex()}))
        closes = [e[1] for e in obs if e[0] == 'lose']
        connects = [e for e in obs if e[0] == 'connect']
        excs = [e for e in aobs if e[0] == 'exc']
        est_cb = sum(1 for e in aobs if e[0] == 'cb' and e[1] == 'on_established')
        label = ref.label()
        evname = aev[0] + (str(aev[1]) if aev[0] == 'HDR' else '')
        # bookkeeping of what the peer has validly sent on the current connection
        if aev[0] == 'CONN_OK':
            self.valid_peer_open = False
            self.peer_ka = False
        try:
            allowed = ref.allowed(aev)
        except KeyError as e:
            raise explore.HarnessError(str(e))
        chosen = None
        for o in allowed:
            if o.matches(writes, closes, connects, reported):
                chosen = o
                break
        if excs:
            v.append(('C01|%s|%s|exception escaped: %s' % (label, evname, excs[0][1]), {'obs': aobs}))
        if chosen is None:
            ow = ','.join('%s%s' % (x[0], '(%s,%s)' % (x[1], x[2]) if x[0] == 'NOTIF' else '') for x in writes) or '-'
            desc = '%s close=%d connect=%d ->%s' % (ow, bool(closes), bool(connects), reported)
            key = 'C01|%s|%s|observed %s' % (label, evname, desc)
            v.append((key, {'allowed': [o.show() for o in allowed], 'observed': desc}))
            if findings.match(PROP, key) is not None:
                # known finding: re-synchronise to the state the world implies, keep exploring
                if aev[0] == 'OPEN' and self._world_state_after_open(w):
                    self.valid_peer_open = True
                self.resyncs += 1
                ref.st = self._world_state(w)
                if aev[0] == 'OP_STOP':
                    ref.stopped = True
                if aev[0] == 'OP_START' and connects:
                    ref.stopped = False
                if ref.st in (S.IDLE, S.CONNECT):
                    ref.H = None
            else:
                self.dead = True
            return v
        # clause (iii): a "nothing" row leaves the canonical key unchanged (apart from time)
        if chosen.name == 'NOP' and ev[0] not in ('TICK', 'CLOSE_DONE', 'WAIT') and aev[0] not in ('KA', 'UPD', 'UPD_MALFORMED', 'RR'):
            if w.key() != self.key_before:
                kb, ka = self.key_before, w.key()
                diff = [i for i, (a, b) in enumerate(zip(kb, ka)) if a != b]
                names = ['state', 'allow_auto', 'hold_time', 'keepalive_time', 'timers', 'conns', 'no_proto', 'no_estab',
                         'connected', 'local_caps', 'remote_caps', 'peer_id', 'bgp_id', 'mq_empty', 'connector_ref', 'extra']
                key = 'C01|%s|%s|ignored event changed internal state: %s' % (label, evname, ','.join(names[i] for i in diff))
                v.append((key, {'before': [kb[i] for i in diff], 'after': [ka[i] for i in diff]}))
                if findings.match(PROP, key) is None:
                    self.dead = True
                    return v
        ref.take(chosen, aev)
        if chosen.name == 'open-ok':
            self.valid_peer_open = True
        if chosen.name == 'established':
            self.peer_ka = True
        # what the session negotiated stays what it is for as long as the session lasts (nothing that happens to another, older
        # connection of the peering may touch it)
        if ref.st in (S.OPENCONFIRM, S.ESTABLISHED) and ref.H is not None and reported in ('OPENCONFIRM', 'ESTABLISHED'):
            if w.fsm.hold_time != ref.H or (ref.H and abs(w.fsm.keep_alive_time - ref.H / 3.0) > 1e-6):
                v.append(('C01|%s|%s|hold / keepalive time of the running session is not the negotiated one' % (label, evname),
                          {'negotiated_hold': ref.H, 'fsm_hold_time': w.fsm.hold_time, 'fsm_keep_alive_time': w.fsm.keep_alive_time}))
        # clause (i): Established only after OPEN+KA both ways on the current connection
        if reported == 'ESTABLISHED':
            rd = w.readable()
            ok = False
            if rd:
                a_open, a_ka, p_open, p_ka = exchange_flags(rd[-1].transport)
                ok = a_open and a_ka and self.valid_peer_open and (self.peer_ka or chosen.name == 'established')
            if not ok:
                v.append(('C01|%s|%s|Established without OPEN+KEEPALIVE both ways' % (label, evname), None))
                self.dead = True
        if est_cb and chosen.name != 'established':
            v.append(('C01|%s|%s|on_established reported outside OpenConfirm+KEEPALIVE' % (label, evname), None))
        if chosen.name == 'established' and est_cb != 1:
            v.append(('C01|%s|%s|on_established reported %d times' % (label, evname, est_cb), None))
        # clause (ii): every NOTIFICATION is followed by a close of that transport and state Idle
        for wr, tid in zip(writes, wtids):
            if wr[0] == 'NOTIF' and (tid not in closes or reported != 'IDLE'):
                v.append(('C01|%s|%s|NOTIFICATION not followed by close+Idle' % (label, evname), None))
        # writes must go to the current connection
        for wr, tid in zip(writes, wtids):
            if self.cur_before and tid not in self.cur_before and ev[0] != 'CONN_OK':
                v.append(('C01|%s|%s|write to a connection that is not the current one' % (label, evname), None))
        if any(x[0] == 'MALFORMED-OUTPUT' for x in writes):
            v.append(('C01|%s|%s|malformed bytes written' % (label, evname), None))
        return v

    def _world_state_after_open(self, w):
        return w.reported_state() in ('OPENCONFIRM',)

    def key(self):
        return self.ref.key() + (self.valid_peer_open, self.peer_ka)


class Harness(explore.BaseHarness):
    prop = PROP
    Monitor = Monitor
    messages = session_messages(full=True, holds=(90, 0, 3))

    def rx_alphabet(self, w, mon):
        return list(self.messages)

    def extend(self, w, mon):
        return w.live() <= 1

    def menu(self, w, mon):
        if w.live() > 1:
            return []
        return explore.BaseHarness.menu(self, w, mon)

    def make_script(self, cfg, **kw):
        return explore.Script(cfg, **kw)


CONFIGS = {
    'quick': [{}, {'retry': 40, 'hold': 9, 'idle_hold': 5}],
    'thorough': [{}, {'retry': 40, 'hold': 9, 'idle_hold': 5}],
}
DEPTH = {'quick': 6, 'thorough': 10}
DEVK = {'quick': 1, 'thorough': 2}
ESTABLISHED = (('TICK', 0), ('CONN_OK', 0), ('RX', 0, 'OPEN_OK'), ('RX', 0, 'KA'))
FROM_EST = {'quick': 4, 'thorough': 7}
DEV_KINDS = ('coop', 'lateclose', 'silent', 'refuse')
HOSTILE_PHASE = None     # C18 plugs in its hostile single-message phase
QUICK_DEV = (2, 10)      # quick tier: k deviations within the first n steps
THOROUGH_DEV = (2, 20)   # thorough: the full menu makes unbounded k=2 a multi-hour run (~1 M executions per script)


def run(tier, seed, prop=PROP, harness=None):
    tm = report.Timer()
    h = harness or Harness()
    col = report.Collector(prop)
    res = explore.BFSResult()
    dev = []
    for cfg in CONFIGS[tier]:
        explore.bfs(h, cfg, DEPTH[tier], col, seed=seed, result=res, merge_all=(tier == 'thorough'))
        # and from a non-initial state: everything within FROM_EST events of a freshly Established session
        explore.bfs(h, cfg, FROM_EST[tier], col, seed=seed, result=res, merge_all=(tier == 'thorough'), start=ESTABLISHED)
        for kind in DEV_KINDS:
            kk, win = QUICK_DEV if tier == 'quick' else THOROUGH_DEV
            st = explore.deviations(h, cfg, kk, 45, col, script_kw={'kind': kind}, window=win)
            dev.append({'cfg': cfg, 'script': kind, 'executions': st['executions'], 'events': st['events'], 'k': st['k'], 'window': st['window']})
    hostile = None
    if HOSTILE_PHASE is not None and prop == 'C18':
        hostile = HOSTILE_PHASE(tier, seed, col)
    explore.close_pool()
    n_new, n_known, summary = col.finish('e1-history')
    cov = {
        'states': res.states, 'transitions': res.transitions,
        'hostile_single_message_deliveries': hostile[0] if hostile else 0, 'hostile_frames': hostile[1] if hostile else 0,
        'traces_validated_against_impl': res.transitions + sum(d['executions'] for d in dev) + (hostile[0] if hostile else 0),
        'samples': res.samples, 'max_depth': res.max_depth, 'closed': res.closed,
        'depth_cap_hit': res.depth_cap_hit, 'distinct_observation_classes': len(res.obs_classes),
        'merges': res.merges, 'merges_checked': res.merges_checked, 'merges_refuted_and_undone': res.refinements[:5], 'n_merges_refuted': len(res.refinements), 'diverged_transitions': res.diverged,
        'cut_transitions': res.cut, 'not_extended_states': res.not_extended,
        'configs': CONFIGS[tier], 'alphabet': list(h.messages), 'deviation_bounded': dev, 'violation_keys': summary,
        'explanation': 'reference RFC 4271 FSM (vf/spec_fsm.py) stepped in lock-step with the real objects on every '
                       'transition; BFS depth %d from the start and depth %d from a freshly Established session, single-connection regime + <= %d deviations from the script'
                       % (DEPTH[tier], FROM_EST[tier], DEVK[tier]),
    }
    report.write_evidence(prop, tier, seed, 'model_checking', cov, report.ASSUMPTIONS_E1, tm.wall(), n_new)
    return 1 if n_new else 0


def replay(path):
    return generic_replay(path, Harness())
