"""C05 - each session's OPEN and its acceptance policy depend only on configuration (DESIGN 7, C05).
Enumerates configurations x histories of earlier sessions x peer OPEN variants, each executed as a
scripted run of the real objects; the agent's bytes are decoded by the reference decoder only."""
import itertools
import struct

from .. import explore, report, world as W
from ..ref import wire
from ..alphabet import attr, update_body, PEER_ID

PROP = 'C05'
AS_VALUES = (1, 65535, 65536, 4200000000)
HOLD_CFG = (0, 3, 90, 180)
AFI = {'ipv4': (1, 1), 'ipv6': (2, 1), 'vpnv4': (1, 128), 'flowspec': (1, 133)}
EPS = 1e-6


def variants():
    v0 = {}
    v1 = {'route_refresh': False, 'cisco_route_refresh': False, 'enhanced_route_refresh': False,
          'add_path': 'ipv4_both', 'afi_safi': ['ipv4', 'ipv6', 'flowspec']}
    return [v0, v1]


def configs(tier):
    out = []
    for la, ra, h, fb, vi in itertools.product(AS_VALUES, AS_VALUES, HOLD_CFG, (True, False), (0, 1)):
        c = {'local_as': la, 'remote_as': ra, 'hold': h, 'four_bytes_as': fb}
        c.update(variants()[vi])
        c['_vi'] = vi
        out.append(c)
    if tier == 'quick':
        # pairwise-style thinning: keep every (local, remote) pair, rotate the other dimensions
        keep = []
        for i, (la, ra) in enumerate(itertools.product(AS_VALUES, AS_VALUES)):
            for j in range(3):
                h = HOLD_CFG[(i + j) % 4]
                fb = bool((i + j) % 2)
                vi = (i // 2 + j) % 2
                c = {'local_as': la, 'remote_as': ra, 'hold': h, 'four_bytes_as': fb}
                c.update(variants()[vi])
                c['_vi'] = vi
                keep.append(c)
        out = keep
    return out


def expected_caps(c):
    """capability codes (with values) the configuration allows the agent to advertise"""
    exp = set()
    afis = c.get('afi_safi', ['ipv4'])
    for a in afis:
        exp.add((1, struct.pack('!HBB', AFI[a][0], 0, AFI[a][1])))
    if c.get('cisco_route_refresh', True):
        exp.add((128, b''))
    if c.get('route_refresh', True):
        exp.add((2, b''))
    if c['four_bytes_as'] or c['local_as'] > 65535:
        exp.add((65, struct.pack('!I', c['local_as'])))
    if c.get('add_path'):
        exp.add((69, struct.pack('!HBB', 1, 1, 3)))
    if c.get('enhanced_route_refresh', True):
        exp.add((70, b''))
    if 'vpnv4' in afis:
        exp.add((5, b''.join(struct.pack('!HHH', a, s, 2) for a, s in ((1, 1), (1, 2), (1, 128)))))
    return exp


def peer_open(c, version=4, as_mode='right', hold=90, caps='full'):
    ra = c['remote_as']
    base = []
    if caps == 'full':
        base = [wire.cap_mp(1, 1), wire.cap(2), wire.cap(128), wire.cap(70)]
    true_as = ra
    cap65 = None
    if as_mode == 'right':
        asn2 = ra if ra <= 65535 else 23456
        cap65 = ra
    elif as_mode == 'right-no-cap65':
        asn2 = ra if ra <= 65535 else 23456
        true_as = asn2
    elif as_mode == 'plus1':
        true_as = ra + 1 if ra < 0xFFFFFFFF else ra - 1
        asn2 = true_as if true_as <= 65535 else 23456
        cap65 = true_as
    elif as_mode == 'minus1':
        true_as = ra - 1 if ra > 1 else ra + 1
        asn2 = true_as if true_as <= 65535 else 23456
        cap65 = true_as
    elif as_mode == 'trans-right':
        asn2, cap65 = 23456, ra
    elif as_mode == 'trans-wrong':
        true_as = ra + 1 if ra < 0xFFFFFFFF else ra - 1
        asn2, cap65 = 23456, true_as
    elif as_mode == 'trans-no-cap65':
        asn2, true_as = 23456, 23456
    elif as_mode == 'field-wrong-cap-right':
        # 2-octet field carries another AS, the 4-octet capability the right one: the capability wins
        asn2, cap65 = (ra % 65535) + 1 if ra <= 65535 else 64512, ra
        if asn2 == ra:
            asn2 = 64512
    else:
        raise ValueError(as_mode)
    cl = list(base)
    if caps == 'none':
        cl = []
    if cap65 is not None and caps != 'none':
        cl.append(wire.cap_as4(cap65))
    if caps == 'none' and cap65 is not None:
        # no optional parameters at all: the true AS is what the 2-octet field says
        true_as = asn2
        cap65 = None
    body = wire.open_body(asn2, hold, PEER_ID, wire.opt_params(cl), version)
    return wire.frame(wire.OPEN, body), {'version': version, 'true_as': true_as, 'hold': hold, 'cap65': cap65 is not None}


AS_MODES = ('right', 'right-no-cap65', 'plus1', 'minus1', 'trans-right', 'trans-wrong', 'trans-no-cap65',
            'field-wrong-cap-right')
PEER_HOLDS = (0, 1, 2, 3, 90, 65535)


def aspath_update(asns, as4):
    seg = struct.pack('!BB', 2, len(asns)) + b''.join(struct.pack('!I' if as4 else '!H', a) for a in asns)
    attrs = attr(0x40, 1, b'\x00') + attr(0x40, 2, seg) + attr(0x40, 3, b'\x0a\x00\x00\x02')
    return wire.frame(wire.UPDATE, update_body(b'', attrs, b'\x18\x0a\x01\x02'))


class Driver(object):
    def __init__(self, c):
        self.c = c
        cfg = {k: v for k, v in c.items() if not k.startswith('_')}
        self.w = W.AgentWorld(cfg)
        self.events = []
        self.opens = []       # OPEN bodies the agent sent, one per session

    def step(self, ev):
        self.events.append(ev)
        return self.w.step(ev)

    def to_opensent(self):
        w = self.w
        for _ in range(40):
            if w.disconnecting():
                self.step(('CLOSE_DONE', w.live_list().index(w.disconnecting()[0])))
            elif w.connecting():
                obs = self.step(('CONN_OK', w.live_list().index(w.connecting()[0])))
                t = w.readable()[-1].transport if w.readable() else None
                body = None
                if t is not None:
                    for _, d in t.writes:
                        fr, err, rest = wire.deframe(d)
                        for ty, b in fr:
                            if ty == wire.OPEN:
                                body = b
                self.opens.append(body)
                return obs
            elif w.readable():
                # a history session left the connection open (e.g. its OPEN was ignored): the peer drops it
                self.step(('PEER_CLOSE', w.live_list().index(w.readable()[0])))
            elif w.due():
                self.step(('TICK', 0))
            else:
                return None
        return None

    def rx(self, data):
        return self.step(('RX', 0, data))

    def cur(self):
        rd = self.w.readable()
        return rd[-1] if rd else None

    # ---- history sessions
    def session(self, kind):
        c = self.c
        if self.to_opensent() is None or self.cur() is None:
            return False
        ok = lambda **kw: peer_open(c, **kw)[0]     # noqa
        if kind == 'acc_drop':
            self.rx(ok()); self.rx(wire.keepalive()); self.step(('PEER_CLOSE', 0))
        elif kind == 'rej_as':
            self.rx(ok(as_mode='plus1'))
        elif kind == 'rej_h1':
            self.rx(ok(hold=1))
        elif kind == 'poor':
            self.rx(ok(caps='none', as_mode='right-no-cap65') if c['remote_as'] <= 65535 else ok(caps='full'))
            if self.cur():
                self.rx(wire.keepalive())
            if self.cur():
                self.step(('PEER_CLOSE', 0))
        elif kind == 'h0':
            self.rx(ok(hold=0)); self.rx(wire.keepalive()); self.step(('PEER_CLOSE', 0))
        elif kind == 'second_open':
            self.rx(ok(hold=30)); self.rx(wire.keepalive()); self.rx(ok(hold=3, caps='none') if c['remote_as'] <= 65535 else ok(hold=3))
        elif kind == 'stop_start':
            self.rx(ok(hold=30)); self.rx(wire.keepalive()); self.step(('OP_STOP',)); self.step(('OP_START',))
        elif kind == 'notif_ver':
            self.rx(ok(hold=45)); self.rx(wire.notification(2, 1))
        elif kind == 'refused':
            pass
        else:
            raise ValueError(kind)
        return True


HIST_KINDS = ('acc_drop', 'rej_as', 'rej_h1', 'poor', 'h0', 'second_open', 'stop_start', 'notif_ver')


def check_open(c, body, first_body, label):
    v = []
    if body is None:
        return [('C05|i|no OPEN sent on a new connection|%s' % label, None)]
    try:
        o = wire.parse_open(body)
    except ValueError as e:
        return [('C05|i|agent OPEN does not parse: %s|%s' % (e, label), {'open': body.hex()})]
    la = c['local_as']
    if o['version'] != 4:
        v.append(('C05|i|OPEN version %d|%s' % (o['version'], label), None))
    if o['asn2'] != (la if la <= 65535 else 23456):
        v.append(('C05|i|OPEN My-AS field %d for local AS class %s|%s' % (o['asn2'], 'big' if la > 65535 else 'small', label), {'open': body.hex()}))
    caps = set((x[0], x[1]) for x in o['caps'])
    c65 = [x for x in caps if x[0] == 65]
    if la > 65535 and (len(c65) != 1 or struct.unpack('!I', c65[0][1])[0] != la):
        v.append(('C05|i|local AS > 65535 not carried in capability 65|%s' % label, {'open': body.hex()}))
    if c65 and struct.unpack('!I', c65[0][1])[0] != la:
        v.append(('C05|i|capability 65 carries another AS|%s' % label, {'open': body.hex()}))
    if o['hold'] != c['hold']:
        v.append(('C05|i|OPEN hold time differs from the configured one|%s' % label, {'sent': o['hold'], 'configured': c['hold']}))
    extra = caps - expected_caps(c)
    if extra:
        v.append(('C05|i|OPEN advertises capabilities outside the configured set: %s|%s' % (sorted(x[0] for x in extra), label), None))
    if first_body is not None and body != first_body:
        try:
            f = wire.parse_open(first_body)
            diff = [k for k in o if o[k] != f[k]]
        except ValueError:
            diff = ['?']
        v.append(('C05|i|OPEN differs from the first session\'s OPEN in %s|%s' % (','.join(diff), label),
                  {'first': first_body.hex(), 'now': body.hex()}))
    return v


def observe(c, hist, pv, with_updates=True):
    """Run history sessions, then the observed session with peer OPEN variant pv. Returns violations."""
    d = Driver(c)
    v = []
    for k in hist:
        d.session(k)
    obs = d.to_opensent()
    hl = 'after[%s]' % ','.join(hist) if hist else 'first-session'
    if obs is None or d.cur() is None:
        return [('C05|no new session after history|%s' % hl, {'events': d.events})], d
    first = d.opens[0]
    for i, b in enumerate(d.opens[1:-1], 1):
        pass
    v += check_open(c, d.opens[-1], first if len(d.opens) > 1 else None, hl)
    msg, meta = peer_open(c, **pv)
    t = d.cur().transport
    nwrites = len(t.writes)
    w = d.w
    d.rx(msg)
    new = [m for _, b in t.writes[nwrites:] for m in wire.abstract_writes(b)]
    accept = meta['version'] == 4 and meta['true_as'] == c['remote_as'] and meta['hold'] not in (1, 2)
    pl = 'peer(ver=%d,as=%s,hold=%s)' % (pv.get('version', 4), pv.get('as_mode', 'right'),
                                         {0: '0', 1: '1', 2: '2'}.get(pv.get('hold', 90), 'ok'))
    if accept:
        if new != [('KA',)] or w.reported_state() != 'OPENCONFIRM':
            v.append(('C05|ii|acceptable OPEN not accepted: %s|%s' % (pl, 'cfg(hold%s)' % ('=0' if c['hold'] == 0 else '>0')),
                {'reply': new, 'state': w.reported_state(), 'hist': hist}))
            return v, d
    else:
        subs = set()
        if meta['version'] != 4:
            subs = {1}
        else:
            if meta['true_as'] != c['remote_as']:
                subs.add(2)
            if meta['hold'] in (1, 2):
                subs.add(6)
        good = (len(new) == 1 and new[0][0] == 'NOTIF' and new[0][1] == 2 and new[0][2] in subs
                and w.reported_state() == 'IDLE')
        if not good:
            v.append(('C05|ii|unacceptable OPEN not rejected with NOTIFICATION(2,%s): %s|%s' % (
                '|'.join(map(str, sorted(subs))), pl, 'cfg(hold%s)' % ('=0' if c['hold'] == 0 else '>0')),
                {'reply': new, 'state': w.reported_state(), 'hist': hist}))
        return v, d
    # (iii) session hold time = min(configured, proposed), read from the timers the agent arms
    H = min(c['hold'], meta['hold'])
    armed = dict((dc.name, dc.time - w.sim.now) for dc in w.sim.calls)
    hold_t = armed.get('hold_time_event')
    ka_t = armed.get('keep_alive_time_event')
    if H == 0:
        if hold_t is not None or ka_t is not None:
            v.append(('C05|iii|negotiated hold 0 but timers armed|%s' % hl, {'armed': armed}))
    else:
        if hold_t is None or abs(hold_t - H) > EPS or ka_t is None or abs(ka_t - H / 3.0) > EPS:
            v.append(('C05|iii|session hold time is not min(configured, proposed)|%s' % hl,
                      {'armed': armed, 'configured': c['hold'], 'proposed': meta['hold']}))
    if not with_updates:
        return v, d
    # (iv) AS numbers are read 4-octet exactly when both sides advertised capability 65 in this session
    d.rx(wire.keepalive())
    if w.reported_state() != 'ESTABLISHED':
        v.append(('C05|ii|KEEPALIVE after an accepted OPEN did not establish|%s' % hl, None))
        return v, d
    try:
        agent65 = any(x[0] == 65 for x in wire.parse_open(d.opens[-1])['caps'])
    except Exception:   # noqa
        agent65 = False
    both = agent65 and meta['cap65']
    path = [c['remote_as'] if (both or c['remote_as'] <= 65535) else 23456, 64999, 65535]
    if both:
        path.append(4200000001)
    obs = d.rx(aspath_update(path, as4=both))
    got = None
    cbs = [e for e in obs if e[0] == 'cb']
    for e in cbs:
        if e[1] == 'update_received':
            a = dict(dict(e[2]).get('attr', ()))
            got = a.get('2')
    want = ((2, tuple(path)),)
    if got != want:
        v.append(('C05|iv|AS_PATH misread: agent cap65=%s peer cap65=%s encoded %s-octet|%s' % (agent65, meta['cap65'], 4 if both else 2, 'later-session' if hist else 'first-session'),
                  {'want': want, 'got': got, 'callbacks': [x[1] for x in cbs]}))
    return v, d


def task(args):
    c, jobs = args
    out = []
    n = 0
    classes = set()
    for hist, pv in jobs:
        try:
            v, d = observe(c, hist, pv)
        except W.ReplayDivergence as e:
            v, d = [('C05|driver divergence %s' % e, None)], None
        n += 1
        classes.add((tuple(hist), tuple(sorted(pv.items())), c['local_as'] > 65535, c['remote_as'] > 65535, c['four_bytes_as']))
        for k, det in v:
            out.append((k, {'cfg': c, 'hist': list(hist), 'peer_open': pv}, det))
    return n, out, classes


def histories(maxlen):
    hs = [()]
    for n in range(1, maxlen + 1):
        hs += list(itertools.product(HIST_KINDS, repeat=n))
    return hs


def run(tier, seed):
    tm = report.Timer()
    col = report.Collector(PROP)
    cfgs = configs(tier)
    hs = histories(2)
    std = [{}, {'as_mode': 'plus1'}, {'hold': 1}, {'hold': 65535}]
    allv = [{'version': ver, 'as_mode': am, 'hold': h, 'caps': cp}
            for ver in (3, 4, 5) for am in AS_MODES for h in PEER_HOLDS for cp in ('full', 'none')]
    if tier == 'quick':
        allv = [x for i, x in enumerate(allv) if x['version'] == 4 or i % 7 == 0]
    tasks = []
    for c in cfgs:
        ja = [(h, pv) for h in hs for pv in (std if (tier == 'thorough' or len(h) < 2) else std[:1])]
        jb = [(h, pv) for h in ((), ('acc_drop',)) for pv in allv]
        jobs = ja + jb
        for i in range(0, len(jobs), 150):
            tasks.append((c, jobs[i:i + 150]))
    results = explore.pmap(task, tasks, chunk=1)
    explore.close_pool()
    total = 0
    allcls = set()
    for n, out, k in results:
        total += n
        allcls |= set((c[0], c[1]) for c in k)
        for key, wit, det in out:
            col.add(key, wit, det)
    ncls = len(allcls)
    n_new, n_known, summary = col.finish('c05-scenario')
    cov = {
        'evaluations': total, 'distinct_nontrivial': ncls,
        'states': total, 'transitions': total, 'traces_validated_against_impl': total,
        'rule': 'configurations: local AS x remote AS over %s x configured hold %s x four_bytes_as x 2 capability variants (%d configs); '
                'per config: every history of <= 2 earlier sessions over %s followed by an observed session (standard / wrong-AS / hold-1 / '
                'hold-65535 peer OPEN), plus every peer OPEN variant (version x 8 AS encodings x hold %s x caps full/none) after no history '
                'and after one accepted session; each executed on the real objects; distinct_nontrivial = distinct (history, peer OPEN variant) pairs'
                % (list(AS_VALUES), list(HOLD_CFG), len(cfgs), list(HIST_KINDS), list(PEER_HOLDS)),
        'samples': [{'cfg': t[0], 'history': list(j[0]), 'peer_open': j[1]} for t in report.pick(tasks, seed, 3) for j in report.pick(t[1], seed, 1)],
        'configs': len(cfgs), 'histories': len(hs), 'peer_open_variants': len(allv), 'exhaustive': True,
        'violation_keys': summary,
    }
    report.write_evidence(PROP, tier, seed, 'model_checking', cov, report.ASSUMPTIONS_E1, tm.wall(), n_new)
    return 1 if n_new else 0


def replay(path):
    import json
    d = json.load(open(path))
    wit = d['witness']
    a, da = observe(wit['cfg'], tuple(wit['hist']), wit['peer_open'])
    b, db = observe(wit['cfg'], tuple(wit['hist']), wit['peer_open'])
    if repr(a) != repr(b):
        print('HARNESS-ERROR: replay is not deterministic')
        return 2
    print('cfg:', wit['cfg'])
    print('history:', wit['hist'], 'peer OPEN variant:', wit['peer_open'])
    for e in da.events:
        print('  ', e if not (e[0] == 'RX' and isinstance(e[2], bytes)) else ('RX', e[1], e[2].hex()))
    print('agent OPENs per session:', [x.hex() if x else None for x in da.opens])
    for k, det in a:
        print(k, det)
    return 1 if d['key'] in [k for k, _ in a] else 0
