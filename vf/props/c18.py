"""C18 - message statistics equal what actually crossed the wire (DESIGN 7, C18)."""
from .. import explore, report, world as W
from ..ref import wire
from ..alphabet import session_messages, simple_update
from .c12 import generic_replay
from . import c01

PROP = 'C18'
NAMES = {1: 'Opens', 2: 'Updates', 3: 'Notifications', 4: 'Keepalives', 5: 'RouteRefresh', 128: 'RouteRefresh'}
ZERO = {'Opens': 0, 'Notifications': 0, 'Updates': 0, 'Keepalives': 0, 'RouteRefresh': 0}


def counted(t):
    sent = dict(ZERO)
    recv = dict(ZERO)
    for _, d in t.writes:
        fr, err, rest = wire.deframe(d)
        for ty, body in fr:
            if ty in NAMES:
                sent[NAMES[ty]] += 1
    stream = b''.join(d for _, d in t.rx)
    fr, err, rest = wire.deframe(stream)
    for ty, body in fr:
        if ty in NAMES and 19 + len(body) >= wire.MIN_LEN[ty]:
            recv[NAMES[ty]] += 1
    return sent, recv


class Monitor(explore.BaseMonitor):
    def __init__(self, cfg, w):
        self.dead = False
        self.deltas = ()

    def post(self, w, ev, obs, aobs):
        v = []
        p = w.fsm.protocol
        if p is None or p.transport is None:
            self.deltas = ()
            return v
        if w.live() > 1:
            self.dead = True
            return v
        sent, recv = counted(p.transport)
        st, body = w.rest('GET', '/v1/peer/<ip>/statistic')
        if st != 200:
            v.append(('C18|statistic endpoint answered %s' % st, None))
            self.dead = True
            return v
        body = dict((k, dict(x)) for k, x in body)
        d = []
        for side, want, got in (('send', sent, body.get('send', {})), ('receive', recv, body.get('receive', {}))):
            for k in sorted(ZERO):
                if got.get(k) != want[k]:
                    d.append((side, k, got.get(k, 0) - want[k]))
        if p.msg_sent_stat != body.get('send') or p.msg_recv_stat != body.get('receive'):
            v.append(('C18|REST statistic differs from the protocol counters', None))
        if tuple(d) != self.deltas:
            for side, k, delta in d:
                if (side, k, delta) not in self.deltas:
                    cls = ('RX:' + ev[2]) if ev[0] == 'RX' else ('REST:' + ev[1]) if ev[0] == 'REST' else ('MQ:' + ev[1]) if ev[0] == 'MQ' else c01.abstract_event(w, ev)[0]
                    v.append(('C18|%s %s off by %+d|first at %s' % (side, k, delta, cls),
                              {'reported': body, 'counted': {'send': sent, 'receive': recv}}))
        self.deltas = tuple(d)
        return v

    def key(self):
        return self.deltas


def max_update():
    import struct
    from ..alphabet import attr, update_body
    fixed = attr(0x40, 1, b'\x00') + attr(0x40, 2, struct.pack('!BBI', 2, 1, 65001)) + attr(0x40, 3, b'\x0a\x00\x00\x01')
    padlen = 4096 - 19 - 4 - len(fixed) - 4 - 4
    f = wire.frame(wire.UPDATE, update_body(b'', fixed + struct.pack('!BBH', 0xD0, 99, padlen) + bytes(padlen), b'\x18\x0a\x01\x01'))
    assert len(f) == 4096
    return f


def requests():
    upd = simple_update(65001)
    return {
        '@send_update': ('POST', '/v1/peer/<ip>/send/update',
                         {'attr': {'1': 0, '2': [[2, [65001]]], '3': '10.0.0.1'}, 'nlri': ['10.9.0.0/16']}),
        '@send_withdraw': ('POST', '/v1/peer/<ip>/send/update', {'withdraw': ['10.9.0.0/16']}),
        '@send_rr': ('POST', '/v1/peer/<ip>/send/route-refresh', {'afi': 1, 'safi': 1}),
        '@send_bin': ('POST', '/v1/peer/<ip>/send/bin_update', {'binary_data': upd.hex()}),
        '@send_bin2': ('POST', '/v1/peer/<ip>/send/bin_update', {'binary_data': (upd + upd).hex()}),
        # End-of-RIB (the shortest UPDATE, 23 octets) alone and between two UPDATEs
        '@send_bin_eor': ('POST', '/v1/peer/<ip>/send/bin_update', {'binary_data': wire.frame(wire.UPDATE, b'\x00\x00\x00\x00').hex()}),
        '@send_bin_eor3': ('POST', '/v1/peer/<ip>/send/bin_update',
                           {'binary_data': (upd + wire.frame(wire.UPDATE, b'\x00\x00\x00\x00') + upd).hex()}),
        # a maximum-size (4096 octets) UPDATE between two small ones
        '@send_bin_max': ('POST', '/v1/peer/<ip>/send/bin_update', {'binary_data': (upd + max_update() + upd).hex()}),
        # more prefixes than one 4096-octet UPDATE holds: one message, several messages or a refusal - counted as written
        '@send_huge': ('POST', '/v1/peer/<ip>/send/update',
                       {'attr': {'1': 0, '2': [[2, [65001]]], '3': '10.0.0.1'}, 'nlri': ['10.%d.%d.1/32' % (i // 256, i % 256) for i in range(1200)]}),
        # an update the agent cannot encode (prefix without a length): must be refused and not counted
        '@send_unencodable': ('POST', '/v1/peer/<ip>/send/update',
                              {'attr': {'1': 0, '2': [[2, [65001]]], '3': '10.0.0.1'}, 'nlri': ['10.9.9.9']}),
    }


def queued():
    good = {'attr': {1: 0, 2: [(2, [65001])], 3: '10.0.0.1'}, 'nlri': ['10.7.0.0/16'], 'withdraw': []}
    bad = {'attr': {1: 0, 2: [(2, [65001])], 3: '10.0.0.1'}, 'nlri': ['10.9.9.9'], 'withdraw': []}
    return {'@mq:good_update': {'type': 'update', 'msg': good}, '@mq:bad_update': {'type': 'update', 'msg': bad},
            '@mq:notification': {'type': 'notification', 'msg': {'error': 6, 'sub_error': 4, 'data': b''}},
            # items the application got wrong: whatever the agent does with them, the KEEPALIVE that triggered the flush was received
            '@mq:notification_no_subcode': {'type': 'notification', 'msg': {'error': 6}},
            '@mq:unknown_type': {'type': 'keepalive', 'msg': None}}


class Harness(c01.Harness):
    prop = PROP
    Monitor = Monitor

    def __init__(self):
        self.messages = dict(session_messages(full=True, holds=(90,)))
        self.messages['RR_LONG'] = wire.frame(wire.ROUTE_REFRESH, b'\x00\x01\x00\x01\x00')
        # a refresh for a family that is not configured locally (the peer may have announced it) is a message received all the same
        self.messages['RR_V6'] = wire.route_refresh(2, 1)
        self.messages['RR_VPN_OLD'] = wire.route_refresh(1, 128, 0, 128)
        self.messages['NOTIF_SHORT'] = wire.frame(wire.NOTIFICATION, b'\x06')
        self.messages['UPD_SHORT'] = wire.frame(wire.UPDATE, b'\x00\x00')
        self.messages['OPEN_SHORT'] = wire.frame(wire.OPEN, b'\x04\x00')
        self.messages['KA_LONG'] = wire.frame(wire.KEEPALIVE, b'\x00')
        self.requests = requests()
        self.messages.update(self.requests)
        self.queued = queued()
        self.messages.update(self.queued)

    def rx_alphabet(self, w, mon):
        return [k for k in self.messages if not k.startswith('@')]

    def menu(self, w, mon):
        evs = c01.Harness.menu(self, w, mon)
        if w.live() <= 1 and w.fsm.protocol is not None:
            evs = evs + [('REST', k[1:]) for k in self.requests]
            if w.handler.inter_mq.empty():
                evs = evs + [('MQ', k[4:]) for k in self.queued]
        return evs


CONFIGS = {'quick': [{}], 'thorough': [{}, {'retry': 40, 'hold': 9, 'idle_hold': 5}]}
DEPTH = {'quick': 5, 'thorough': 7}
DEVK = {'quick': 1, 'thorough': 2}


def hostile_task(args):
    """C10's hostile frames, one per fresh session, counters compared with the wire afterwards"""
    from . import c10
    state, items = args
    out = []
    n = 0
    for label, frame in items:
        n += 1
        w = W.replay(c10.CFG.get(state, {}), c10.STATES[state], c10.M)
        if not w.readable():
            continue
        w.step(('RX', 0, frame))
        p = w.fsm.protocol
        sent, recv = counted(p.transport)
        for side, want, got in (('send', sent, p.msg_sent_stat), ('receive', recv, p.msg_recv_stat)):
            for k in sorted(ZERO):
                if got.get(k) != want[k]:
                    out.append(('C18|hostile|%s %s off by %+d|%s in %s' % (side, k, got.get(k, 0) - want[k], label, state),
                                {'frame': frame.hex(), 'state': state, 'reported': {'send': dict(p.msg_sent_stat), 'receive': dict(p.msg_recv_stat)},
                                 'counted': {'send': sent, 'receive': recv}}))
    return n, out


def hostile_phase(tier, seed, col):
    from . import c10
    from .. import seeds
    corpus = seeds.unit_test_bytes()
    items = []
    seen = set()
    for s_ in corpus + [c10.M[k][19:] for k in ('OPEN_OK', 'UPD', 'NOTIF_CEASE', 'RR')]:
        for lab, f in c10.frames_for(s_, 'all'):
            if f not in seen:
                seen.add(f)
                items.append((lab, f))
    for s_ in [x for x in corpus if len(x) <= (24 if tier == 'quick' else 64)]:
        for m in seeds.mutations(s_):
            for lab, f in c10.frames_for(m, 'bodies'):
                if f not in seen:
                    seen.add(f)
                    items.append((lab + '-mutated', f))
    for st_ in (0, 1, 2, 3, 255):
        items.append(('route-refresh-subtype-%d' % st_, wire.route_refresh(1, 1, st_)))
        items.append(('route-refresh-128-subtype-%d' % st_, wire.route_refresh(1, 1, st_, 128)))
    tasks = [(st, items[i:i + 400]) for st in ('opensent', 'openconfirm', 'established') for i in range(0, len(items), 400)]
    # the capability-rich session: the reference messages and the ROUTE-REFRESH subtypes only (the corpus adds nothing there)
    rich = [it for it in items if it[0].startswith('route-refresh') or len(it[1]) <= 64][:600]
    tasks += [('established-rich', rich[i:i + 300]) for i in range(0, len(rich), 300)]
    total = 0
    for n, out in explore.pmap(hostile_task, tasks, chunk=1):
        total += n
        for k, det in out:
            col.add(k, {'cfg': {}, 'history': [], 'hostile': det['frame'], 'state': det['state']}, det)
    # the worker thread of a REST send is held between its answer and its reactor.callFromThread: every window (vf/deferred.py)
    from .. import deferred
    dts = deferred.tasks(PROP, tier)
    for t, (n, viol, cl) in zip(dts, explore.pmap(deferred.task, dts, chunk=1)):
        total += n
        for k, det in viol:
            col.add(k, {'cfg': det['cfg'], 'history': det['history'], 'deferred': True}, det)
    # a REST send inside its worker thread x one event of the reactor thread, every schedule with one preemption (vf/threads.py)
    from .. import concurrent
    cts = concurrent.tasks(PROP, tier)
    for t, (n, viol, cl) in zip(cts, explore.pmap(concurrent.task3, cts, chunk=1)):
        total += n
        for k, det in viol:
            col.add(k, {x: det[x] for x in det if x in ('specs', 'start', 'cuts', 'label', 'bound', 'cold')}, det)
    return total, len(items)


def run(tier, seed):
    c01.HOSTILE_PHASE = hostile_phase
    c01.CONFIGS, c01.DEPTH, c01.DEVK = CONFIGS, DEPTH, DEVK
    c01.DEV_KINDS, c01.QUICK_DEV, c01.THOROUGH_DEV = ('coop', 'lateclose'), (1, None), (2, 8)      # the statistics menu is 3x larger than C01's
    return c01.run(tier, seed, prop=PROP, harness=Harness())


def replay(path):
    import json
    d = json.load(open(path))
    w = d['witness']
    if '|threads|' in d['key']:
        from .. import concurrent
        return concurrent.cli_replay(PROP, d)
    if w.get('deferred'):
        from .. import deferred
        a, b = report.fresh(deferred.replay, PROP, w), report.fresh(deferred.replay, PROP, w)
        if repr(a) != repr(b):
            print('HARNESS-ERROR: replay is not deterministic')
            return 2
        print('events after Established:', w['history'])
        for k, det in a:
            print(k, json.dumps(det, default=str)[:600])
        return 1 if any(d['key'].startswith(k + '|') for k, _ in a) else 0
    if 'hostile' in w:
        label = d['key'].split('|')[-1].rsplit(' in ', 1)[0]
        t = (w['state'], [(label, bytes.fromhex(w['hostile']))])
        a, b = hostile_task(t), hostile_task(t)
        if repr(a) != repr(b):
            print('HARNESS-ERROR: replay is not deterministic')
            return 2
        print('state', w['state'], 'frame', w['hostile'][:600])
        for k, det in a[1]:
            print(k, json.dumps({x: det[x] for x in ('reported', 'counted')}))
        return 1 if d['key'] in [k for k, _ in a[1]] else 0
    return generic_replay(path, Harness())
