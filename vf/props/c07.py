"""C07 - multiprotocol NLRI round trip for every family both encoded and decoded (DESIGN 7, C07)."""
from . import c06

PROP = 'C07'


def run(tier, seed):
    return c06.run_pool(PROP, 'c07', tier, seed,
                        'per family (IPv6 unicast, IPv4/IPv6 labeled unicast, VPNv4/VPNv6, EVPN types 1-5, IPv4 flowspec): every prefix length x '
                        'address pool, labels {0,1,3,15,16,2^20-1} with stacks of 1-2, RD types 0/1/2 at field boundaries, ESI types 0-5, MAC/IP '
                        'presence combinations, next hops (IPv4, IPv6 global, global + link-local, VPN next hop), flowspec components 1-11 x '
                        'operators x 1/2/4-octet boundary values, 1-3 routes per attribute, MP_REACH and MP_UNREACH; Update.construct -> '
                        'Update.parse must return exactly the reference\'s expected decoded form. distinct_nontrivial = distinct (family, '
                        'class vector, outcome)', c06.ASSUME)


def replay(path):
    return c06.replay(path, PROP)
