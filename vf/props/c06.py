"""C06 - UPDATE encode/decode round trip for IPv4 unicast and the standard attributes (DESIGN 7, C06).
C07 (multiprotocol families) reuses this module with its own pool."""
from .. import explore, report, codec
from ..ref import upd, pools

PROP = 'C06'


def flowspec_rule_of(length):
    """a flowspec rule {5: '=a|=b|...'} whose encoded body is exactly `length` octets (1 type octet, then 3-octet terms
    for values >= 256 and 2-octet terms for values < 256)"""
    rest = length - 1
    y = 0
    while (rest - 2 * y) % 3:
        y += 1
    x = (rest - 2 * y) // 3
    terms = ['=%d' % (1000 + i) for i in range(x)] + ['=%d' % (10 + i) for i in range(y)]
    return {5: '|'.join(terms)}


def boundary_cases():
    """supplement to the reference pools: flowspec rules whose body length sits exactly on the 1-/2-octet NLRI length
    boundary (239..242) and on the 255/256 boundary, alone, first and last in the attribute, MP_REACH and MP_UNREACH"""
    small = {3: '=6'}
    for ln in (238, 239, 240, 241, 242, 254, 255, 256, 257):
        r = flowspec_rule_of(ln)
        for pos, rules in (('alone', [r]), ('first', [r, small]), ('last', [small, r])):
            cv = ('rule-octets=%d' % ln, 'pos=%s' % pos)
            yield ('flowspec', ('dir=reach',) + cv, {'attr': {1: 0, 2: [(2, [64512])], 14: {'afi_safi': (1, 133), 'nexthop': '', 'nlri': rules}}}, True)
            yield ('flowspec', ('dir=unreach',) + cv, {'attr': {15: {'afi_safi': (1, 133), 'withdraw': rules}}}, True)


_reps = {}


def family_representatives(tier):
    """the first and the last MP_REACH and MP_UNREACH case of every C07 family"""
    if tier not in _reps:
        first, last = {}, {}
        for fam, cv, msg, asn4 in pools.c07_cases(tier):
            if not asn4 or fam == 'ipv4-unicast-mp':
                continue
            d = 14 if 14 in msg['attr'] else 15 if 15 in msg['attr'] else None
            if d is None or (14 in msg['attr'] and 15 in msg['attr']):
                continue
            first.setdefault((fam, d), msg)
            last[(fam, d)] = msg
        _reps[tier] = [(k, m) for k, m in sorted(first.items())] + [(k, m) for k, m in sorted(last.items()) if m is not first[k]]
    return _reps[tier]


def combination_cases(tier):
    """message shapes the per-family pools do not have: MP_REACH and MP_UNREACH in one UPDATE (same and different families), and
    either of them next to IPv4 withdrawn routes / IPv4 NLRI"""
    import copy
    reps = family_representatives(tier)
    reach = [(k, m) for k, m in reps if k[1] == 14]
    unreach = [(k, m) for k, m in reps if k[1] == 15]
    for (kr, mr) in reach:
        for (ku, mu) in unreach:
            attr = copy.deepcopy(mr['attr'])
            attr[15] = copy.deepcopy(mu['attr'][15])
            yield ('combo', ('reach=' + kr[0], 'unreach=' + ku[0]), {'attr': attr}, True)
    for (k, m) in reps:
        attr = copy.deepcopy(m['attr'])
        yield ('combo', ('mp=%s/%d' % k, 'ipv4=withdraw'), {'attr': attr, 'withdraw': ['10.1.0.0/16', '0.0.0.0/0']}, True)
        if k[1] == 14:
            attr = copy.deepcopy(m['attr'])
            attr[3] = '10.0.0.9'
            yield ('combo', ('mp=%s/%d' % k, 'ipv4=nlri+withdraw'), {'attr': attr, 'nlri': ['192.0.2.0/25'], 'withdraw': ['10.1.0.0/16']}, True)


_maxsize = []


def max_size_cases():
    """UPDATEs of exactly 4092..4096 octets (and the largest attribute-only / withdraw-only ones): filled with distinct /32, /24,
    /16 and /8 prefixes until the reference encoder says the message has the wanted size"""
    if _maxsize:
        return _maxsize
    base = {1: 0, 2: [(2, [64512, 65001])], 3: '10.0.0.9'}
    host = ['10.%d.%d.%d/32' % (1 + i // 65536, (i // 256) % 256, i % 256) for i in range(900)]
    filler = ['172.16.%d.0/24' % i for i in range(4)] + ['172.%d.0.0/16' % (20 + i) for i in range(4)] + ['%d.0.0.0/8' % (100 + i) for i in range(4)]
    for where in ('nlri', 'withdraw'):
        for total in (4092, 4093, 4094, 4095, 4096):
            msg = {'attr': dict(base)} if where == 'nlri' else {}
            lst = []
            msg[where] = lst
            for p in host:
                lst.append(p)
                if len(upd.encode_update(msg, True, False, None)) > total - 5:
                    break
            need = total - len(upd.encode_update(msg, True, False, None))
            # 5 = 4 + 1, 4 + ... : express the remainder with /24 (4 octets), /16 (3), /8 (2)
            for size, pool_ in ((4, filler[0:4]), (3, filler[4:8]), (2, filler[8:12])):
                for p in pool_:
                    if need - size >= 0 and need - size != 1:
                        lst.append(p)
                        need -= size
            if need == 0 and len(upd.encode_update(msg, True, False, None)) == total:
                _maxsize.append(('ipv4-unicast', ('size=%d' % total, 'where=' + where), msg, True))
    return _maxsize


def cases_of(which, tier):
    if which == 'c06':
        import itertools
        return itertools.chain(pools.c06_cases(tier), max_size_cases())
    import itertools
    return itertools.chain(pools.c07_cases(tier), boundary_cases(), combination_cases(tier))


def task(args):
    prop, which, lo, hi, tier = args
    gen = cases_of(which, tier)
    out = []
    classes = set()
    n = 0
    for fam, cv, msg, asn4 in codec.sliced(gen, lo, hi):
        if which == 'c07' and fam == 'ipv4-unicast-mp':
            continue          # IPv4 unicast inside MP_REACH is not one of the families the statement of C07 lists
        n += 1
        sym, det = codec.roundtrip(msg, asn4, upd)
        classes.add((fam, tuple(cv), asn4, sym or det))
        if sym:
            d = {'family': fam, 'class_vector': list(cv), 'msg': msg, 'asn4': asn4}
            d.update(det or {})
            out.append(('%s|%s|%s|asn4=%s|%s' % (prop, fam, '/'.join(cv), asn4, sym), d))
    return n, out, classes


def task_session(args):
    """the same path through BGP.send_update -> transport -> a second agent's dataReceived -> handler.update_received"""
    import copy
    from .. import world as W, budget
    from ..alphabet import session_messages
    from ..ref import wire
    prop, which, lo, hi, tier = args
    M = session_messages()
    est = [('TICK', 0), ('CONN_OK', 0), ('RX', 0, 'OPEN_OK'), ('RX', 0, 'KA')]
    out = []
    classes = set()
    n = 0
    for fam, cv, msg, asn4 in codec.sliced(cases_of(which, tier), lo, hi):
        if fam == 'ipv4-unicast-mp' or (not asn4 and fam != 'ipv4-unicast'):
            continue          # the session is a 4-octet-AS one; the prefix-shape cases (pool width "2-octet") are valid in it too
        ok, why = upd.in_range(msg, True)
        if not ok or not (msg.get('attr') or msg.get('withdraw')):
            continue
        n += 1
        a = W.replay({}, est, M)
        t = a.readable()[0].transport
        before = len(t.writes)
        st, res, steps = budget.run(400000, lambda: (a.fsm.protocol.send_update(copy.deepcopy(msg)), a.sim.drain_threads()))
        wrote = [d for _, d in t.writes[before:]]
        if st != 'ok' or not res[0] or len(wrote) != 1:
            classes.add((fam, 'send refused'))
            continue                      # a refused send is C16's business; nothing crossed the wire
        b = W.replay({'rib': fam == 'combo' or bool(n % 2)}, est, M)      # the receiver alternately with and without RIB maintenance (CONF.bgp.rib)
        got = []
        b.handler.update_received = lambda peer, ts, m: got.append(copy.deepcopy(m))
        errs = []
        b.handler.on_update_error = lambda peer, ts, m: errs.append(m)
        b.step(('RX', 0, wrote[0]))
        want = codec.norm(upd.expected(msg, True))
        if errs or len(got) != 1:
            out.append(('%s|session-path|%s|%s|receiver reported %s' % (prop, fam, '/'.join(cv), 'on_update_error' if errs else '%d updates' % len(got)),
                        {'family': fam, 'class_vector': list(cv), 'msg': msg, 'asn4': True, 'hex': wrote[0].hex()[:400]}))
            continue
        have = codec.norm({k: got[0].get(k) for k in ('attr', 'nlri', 'withdraw')})
        d = codec.first_diff(want, have)
        classes.add((fam, 'delivered', d))
        if d:
            out.append(('%s|session-path|%s|%s|diff:%s' % (prop, fam, '/'.join(cv), d),
                        {'family': fam, 'class_vector': list(cv), 'msg': msg, 'asn4': True, 'want': want, 'got': have}))
    return n, out, classes


def _lists_in(x, path=()):
    """every list inside a message (by path), outermost first"""
    if isinstance(x, dict):
        for k in sorted(x, key=repr):
            for r in _lists_in(x[k], path + (k,)):
                yield r
    elif isinstance(x, (list, tuple)):
        if isinstance(x, list):
            yield path, x
        for i, v in enumerate(x):
            for r in _lists_in(v, path + (i,)):
                yield r


def resend_cases(which, tier):
    """one message per (family / attribute, list inside it): the caller keeps the message it sent, edits one of its lists in
    place (AS-path prepending, one more community, one more route, one fewer) and sends it again"""
    seen = set()
    if which == 'c06':
        for code in pools.C06_CODES:
            for asn4 in (False, True):
                for value, cv in pools.reduced_attr_pool(code, asn4, tier):
                    yield 'attr:' + upd.ATTR_NAME[code], tuple(cv), {'attr': {code: value}}, asn4
        yield 'ipv4-unicast', ('where=both',), {'attr': dict(pools.BASE_ATTR), 'nlri': ['10.1.0.0/16', '10.2.0.0/17'], 'withdraw': ['10.3.0.0/16', '10.4.0.0/30']}, True
        yield 'attr-subset', ('codes=all',), {'attr': dict(pools.REPRESENTATIVE), 'nlri': ['192.0.2.0/24']}, True
    else:
        for k, m in family_representatives(tier):
            yield k[0], ('dir=%d' % k[1],), m, True


def _apply_edit(lst, edit):
    import copy
    if edit == 'prepend-copy-of-first':
        lst.insert(0, copy.deepcopy(lst[0]))
    elif edit == 'append-copy-of-last':
        lst.append(copy.deepcopy(lst[-1]))
    elif edit == 'drop-last':
        lst.pop()
    else:
        lst.reverse()


def task_resend(args):
    import copy
    from yabgp.message.update import Update
    prop, which, tier = args
    out = []
    classes = set()
    n = 0
    for fam, cv, msg0, asn4 in resend_cases(which, tier):
        if not upd.in_range(msg0, asn4)[0]:
            continue
        nlists = sum(1 for _ in _lists_in(msg0))
        for li in range(nlists):
            for edit in ('prepend-copy-of-first', 'append-copy-of-last', 'drop-last', 'reverse'):
                msg = copy.deepcopy(msg0)
                path, lst = list(_lists_in(msg))[li]
                if not lst or (edit in ('drop-last', 'reverse') and len(lst) < 2) or (edit == 'reverse' and lst == lst[::-1]):
                    continue
                # what a caller who builds the edited message from scratch gets (judged by the round-trip cases themselves)
                fresh = copy.deepcopy(msg0)
                _apply_edit(list(_lists_in(fresh))[li][1], edit)
                if not upd.in_range(fresh, asn4)[0]:
                    continue
                base = codec.roundtrip(fresh, asn4, upd)
                try:
                    Update.construct(msg, asn4)          # first send: the agent sees this very object
                except Exception:      # noqa
                    continue
                _apply_edit(lst, edit)
                n += 1
                sym, det = codec.roundtrip(msg, asn4, upd)
                classes.add((fam, 'resend', edit, sym or det))
                if sym and repr((sym, det)) != repr(base):
                    d = {'family': fam, 'class_vector': list(cv) + ['resend=' + edit, 'list=' + '/'.join(map(str, path))], 'msg': msg0, 'asn4': asn4,
                         'edited_message': msg, 'edit': edit, 'list_index': li}
                    d.update(det or {})
                    out.append(('%s|%s|resend after in-place edit (%s of %s)|asn4=%s|%s' % (prop, fam, edit, '/'.join(str(x) for x in path if not isinstance(x, int)), asn4, sym), d))
    return n, out, classes


def _poison(x):
    """a value of the same kind that no encoder can take"""
    if isinstance(x, bool):
        return 'bogus'
    if isinstance(x, int):
        return 2 ** 32 + 7
    if isinstance(x, str):
        return 'bogus'
    if isinstance(x, dict):
        return {}
    if isinstance(x, (list, tuple)):
        return type(x)([_poison(x[-1])]) if len(x) else 'bogus'
    return None


def _outcome(fn, *a):
    try:
        r = fn(*a)
        return ('ok', r if isinstance(r, (bytes, type(None))) else repr(r))
    except Exception as e:      # noqa
        return ('exc', type(e).__name__)


def task_refused(args):
    """what a refused request leaves behind: a message whose LAST element of one list cannot be encoded (the elements before it
    can) is sent twice - both attempts must end the same way - and then a good message, which must come out as from a fresh process"""
    import copy
    from yabgp.message.update import Update
    prop, which, tier = args
    out = []
    classes = set()
    n = 0
    cases = [c for c in resend_cases(which, tier) if upd.in_range(c[2], c[3])[0]]
    # one good message per family to follow the refusal: the next case of the list (another value of the same kind) and the case itself
    for ci, (fam, cv, msg0, asn4) in enumerate(cases):
        follow = [cases[(ci + 1) % len(cases)], (fam, cv, msg0, asn4)]
        base = [codec.roundtrip(copy.deepcopy(f[2]), f[3], upd) for f in follow]
        lists = list(_lists_in(msg0))
        for li, (path, lst) in enumerate(lists):
            if len(lst) < 2:
                continue
            bad = copy.deepcopy(msg0)
            blst = list(_lists_in(bad))[li][1]
            blst[-1] = _poison(blst[-1])
            if blst[-1] is None:
                continue
            o1 = _outcome(Update.construct, copy.deepcopy(bad), asn4)
            o2 = _outcome(Update.construct, copy.deepcopy(bad), asn4)
            n += 1
            key = '%s|%s|after a refused request (last element of %s unencodable)|asn4=%s' % (prop, fam, '/'.join(str(x) for x in path if not isinstance(x, int)) or 'list', asn4)
            d = {'family': fam, 'class_vector': list(cv), 'msg': msg0, 'asn4': asn4, 'bad_message': repr(bad)[:600], 'list_index': li}
            if o1 != o2:
                out.append((key + '|the same request ends differently the second time', dict(d, first=repr(o1)[:300], second=repr(o2)[:300])))
            for f, b in zip(follow, base):
                got = codec.roundtrip(copy.deepcopy(f[2]), f[3], upd)
                classes.add((fam, 'after-refusal', o1[0], got[0]))
                if repr(got) != repr(b):
                    out.append((key + '|a good message sent afterwards comes out differently', dict(d, good_message=f[2], fresh=repr(b)[:500], after_refusal=repr(got)[:500])))
                    break
    return n, out, classes


def _dispatch(t):
    if t[0] == 'refused':
        return task_refused(t[1:])
    if t[0] == 'resend':
        return task_resend(t[1:])
    if t[0] == 'threads':
        from .. import concurrent
        return concurrent.task3(t[1])
    return task_session(t[1:]) if t[0] == 'session' else task(t)


def run_pool(prop, which, tier, seed, rule, assumptions):
    tm = report.Timer()
    col = report.Collector(prop)
    gen = cases_of(which, tier)
    total_cases = sum(1 for _ in gen)
    step = 1500
    tasks = [(prop, which, lo, lo + step, tier) for lo in range(0, total_cases, step)]
    # the session path (send_update -> wire -> second agent -> handler) on every k-th slice of the pool
    k = 6 if tier == 'quick' else 3
    tasks += [('session', prop, which, lo, lo + step // 3, tier) for i, lo in enumerate(range(0, total_cases, step)) if i % k == seed % k]
    if which == 'c07':
        # the message shapes that mix families always go through the session path (receiver with RIB maintenance on)
        ncombo = sum(1 for _ in combination_cases(tier))
        tasks.append(('session', prop, which, total_cases - ncombo, total_cases, tier))
    # the encoders run in the REST worker threads, the decoder in the reactor thread: every schedule of two threads with one
    # preemption (thorough: two) over pairs of them (vf/threads.py, vf/concurrent.py)
    from .. import concurrent
    tasks += [('threads', a) for a in concurrent.tasks(prop, tier)]
    # the caller edits a list of the message it sent in place and sends it again (the agent must not have kept anything of the first)
    tasks.append(('resend', prop, which, tier))
    # a request refused half-way (its last route / segment / element cannot be encoded), the same again, then a good one
    tasks.append(('refused', prop, which, tier))
    res = explore.pmap(_dispatch, tasks, chunk=1)
    explore.close_pool()
    total = 0
    classes = set()
    for t, (n, out, cl) in zip(tasks, res):
        total += n
        classes |= cl
        for k, det in out:
            if t[0] == 'threads':
                col.add(k, {x: det[x] for x in det if x in ('specs', 'start', 'cuts', 'label', 'bound', 'cold')}, det, task=t)
                continue
            if t[0] == 'refused':
                col.add(k, {'msg': det['msg'], 'asn4': det['asn4'], 'family': det['family'], 'list_index': det['list_index'],
                            'case': report.pack((det['msg'], det['asn4']))}, det, task=t)
                continue
            if t[0] == 'resend':
                col.add(k, {'msg': det['msg'], 'asn4': det['asn4'], 'family': det['family'], 'edit': det['edit'], 'list_index': det['list_index'],
                            'case': report.pack((det['msg'], det['asn4']))}, det, task=t)
                continue
            col.add(k, {'msg': det['msg'], 'asn4': det['asn4'], 'family': det['family'], 'class_vector': det['class_vector'],
                        'case': report.pack((det['msg'], det['asn4']))}, det, task=t)
    n_new, n_known, summary = col.finish('roundtrip-case')
    sample = next(iter(pools.c06_cases(tier) if which == 'c06' else pools.c07_cases(tier)))
    classes, interleavings = concurrent.coverage(classes)
    cov = {
        'evaluations': total, 'distinct_nontrivial': len(classes), 'rule': rule, 'thread_interleavings': interleavings,
        'samples': [{'family': sample[0], 'class_vector': list(sample[1]), 'msg': sample[2], 'asn4': sample[3]}],
        'out_of_range_inputs': sum(1 for c in classes if len(c) > 3 and c[3] in ('out-of-range', 'out-of-range-constructed')),
        'exhaustive': True, 'violation_keys': summary,
    }
    report.write_evidence(prop, tier, seed, 'exploration', cov, assumptions, tm.wall(), n_new)
    return 1 if n_new else 0


ASSUME = ['reference encoder / expected decoded form in vf/ref/upd.py (written from the RFCs, imports nothing from yabgp; its shape '
          'decisions are listed at the top of the file and its selftest checks it against the RFC-conformant unit-test vectors)',
          'the documented decoded form ignores tuple-vs-list differences']


def run(tier, seed):
    return run_pool(PROP, 'c06', tier, seed,
                    'every prefix length 0..32 x address pool, 1- and 2-element prefix lists plus lists of 0/3/300, nlri / withdraw / both; each of '
                    'the 12 attributes alone over its whole boundary pool (AS_PATH: every segment type x lengths {0,1,2,63,64,127,128,255} in '
                    'both AS widths, across the 255-octet extended-length boundary), all 2^12 attribute subsets, all value pairs for every '
                    'pair of attributes, asn4 in {False, True}; Update.construct -> Update.parse must give sub_error None and exactly the '
                    'reference\'s expected decoded form; a constructor error is accepted only for inputs out of range by the reference\'s '
                    'own range table. distinct_nontrivial = distinct (family, class vector, asn4, outcome)', ASSUME)


def replay(path, prop=PROP):
    import json
    d = json.load(open(path))
    w = d['witness']
    if '|threads|' in d['key']:
        from .. import concurrent
        return concurrent.cli_replay(prop, d)

    def fix(x):
        if isinstance(x, dict):
            return {(int(k) if isinstance(k, str) and k.lstrip('-').isdigit() else k): fix(v) for k, v in x.items()}
        if isinstance(x, list):
            return [fix(v) for v in x]
        return x
    msg = report.unpack(w['case'])[0] if 'case' in w else fix(w['msg'])      # the pickled case keeps tuples as tuples
    if '|session-path|' in d['key'] or '|resend after in-place edit' in d['key'] or '|after a refused request' in d['key']:
        return report.replay_in_task(d, _dispatch)
    r1, r2 = report.twice(codec.roundtrip, msg, w['asn4'], upd)
    if repr(r1) != repr(r2):
        print('HARNESS-ERROR: replay is not deterministic')
        return 2
    print('input :', msg, 'asn4 =', w['asn4'])
    print('result:', r1[0])
    print('detail:', json.dumps(r1[1], default=str)[:1500] if r1[1] else None)
    if r1[0] and d['key'].endswith(r1[0]):
        return 1
    return report.replay_in_task(d, _dispatch)
