"""C08 - everything the agent constructs is structurally valid BGP on the wire (DESIGN 7, C08).
Engine E3 + an independent structural walker (vf/ref/walker.py, shares no code with yabgp's decoders):
every message yabgp constructs from the C06 / C07 / C14 input spaces and from the construct-only
families, and every message the session layer writes in E1 runs, is walked."""
import itertools

from .. import explore, report, budget, world as W
from ..ref import walker, wire, pools_c08

PROP = 'C08'


def build(kind, payload):
    from yabgp.message.update import Update
    from yabgp.message.notification import Notification
    from yabgp.message.route_refresh import RouteRefresh
    from yabgp.message.keepalive import KeepAlive
    from yabgp.message.open import Open
    if kind == 'update':
        msg, asn4 = payload
        return Update.construct(msg, asn4)
    if kind == 'notification':
        return Notification().construct(*payload)
    if kind == 'route_refresh':
        afi, safi, res, ty = payload
        return RouteRefresh(afi, safi, res).construct(ty)
    if kind == 'keepalive':
        return KeepAlive().construct()
    if kind == 'open':
        ver, asn, hold, bid, caps = payload
        return Open(version=ver, asn=asn, hold_time=hold, bgp_id=bid).construct(caps)
    raise ValueError(kind)


def check_case(family, cv, kind, payload, out, classes, source):
    st, val, steps = budget.run(400000, build, kind, payload)
    if st == 'overrun':
        out.append(('C08|%s|%s|construction did not finish within the work budget' % (family, '/'.join(cv)),
                    {'source': source, 'family': family, 'class_vector': cv, 'kind': kind, 'payload': payload}))
        classes.add((family, cv, 'overrun'))
        return
    if st == 'raise' or val is None:
        classes.add((family, cv, 'error'))
        return              # "fails with an error" - accepted
    if not isinstance(val, (bytes, bytearray)):
        out.append(('C08|%s|%s|constructor returned %s, not bytes' % (family, '/'.join(cv), type(val).__name__),
                    {'source': source, 'family': family, 'class_vector': cv, 'kind': kind, 'payload': payload}))
        return
    asn4 = payload[1] if kind == 'update' else None
    probs = walker.walk(bytes(val), asn4=asn4)
    classes.add((family, cv, tuple(walker.tags(probs))))
    if probs:
        tag = walker.tags(probs)[0]
        out.append(('C08|%s|%s|%s' % (family, '/'.join(cv), tag),
                    {'source': source, 'family': family, 'class_vector': cv, 'kind': kind, 'payload': payload,
                     'hex': bytes(val).hex()[:600], 'problems': probs[:4]}))


POISON_STR = ('bogus', '', 'fe80::1%eth0', '10.0.0.256', '10.0.0.1/33', '1:2:3:4', '-1', 'Z\u00fcrich')
POISON_INT = (-1, 256, 65536, 2 ** 32, 2 ** 64)


def _leaves(x, path=()):
    if isinstance(x, dict):
        for k in sorted(x, key=repr):
            for r in _leaves(x[k], path + (k,)):
                yield r
    elif isinstance(x, (list, tuple)):
        for i, v in enumerate(x):
            for r in _leaves(v, path + (i,)):
                yield r
    else:
        yield path, x


def _with(x, path, value):
    import copy
    y = copy.deepcopy(x)
    cur = y
    for j, k in enumerate(path[:-1]):
        if isinstance(cur[k], tuple):
            cur[k] = list(cur[k])
        cur = cur[k]
    cur[path[-1]] = value
    return y


def poisoned_cases(tier):
    """every family representative (and the all-attributes message) with ONE leaf replaced by a value of the wrong shape: most are refused;
    what is built after all must still be a structurally valid message"""
    from ..ref import pools
    from . import c06
    msgs = [('ipv4-unicast', {'attr': dict(pools.REPRESENTATIVE), 'nlri': ['192.0.2.0/24'], 'withdraw': ['10.1.0.0/16']})]
    msgs += [('%s/%d' % k, m) for k, m in c06.family_representatives(tier)]
    # (the options the representatives do not use)
    msgs.append(('ipv6-unicast/linklocal', {'attr': {1: 0, 2: [(2, [65001])], 14: {'afi_safi': (2, 1), 'nexthop': '2001:db8::1', 'linklocal_nexthop': 'fe80::1',
                                                                               'nlri': ['2001:db8:1::/48']}}}))
    # the other messages the agent builds from values: OPEN (fixed fields and capabilities), NOTIFICATION, ROUTE-REFRESH
    caps = {'afi_safi': [(1, 1), (2, 1), (1, 128)], 'four_bytes_as': True, 'route_refresh': True, 'cisco_route_refresh': True, 'enhanced_route_refresh': True,
            'add_path': 'ipv4_both', 'ext_nexthop': [{'afi_safi': [1, 1], 'nexthop_afi': 2}], 'graceful_restart': False}
    others = [('open', (4, 65001, 180, '10.0.0.1', caps)), ('open', (4, 4200000000, 0, '10.0.0.1', caps)), ('notification', (6, 2, b'\x01\x02')),
              ('route_refresh', (1, 1, 0, 5)), ('route_refresh', (2, 128, 1, 128))]
    for kind, payload in others:
        for path, leaf in _leaves(list(payload)):
            vals = POISON_STR if isinstance(leaf, str) else POISON_INT if isinstance(leaf, int) and not isinstance(leaf, bool) else ('bogus', None, 7)
            for v in vals:
                if v == leaf:
                    continue
                yield kind, ('poisoned=' + '/'.join(str(x) for x in path), type(v).__name__, repr(v)[:24]), kind, tuple(_with(list(payload), path, v))
    for fam, msg in msgs:
        for path, leaf in _leaves(msg):
            vals = POISON_STR if isinstance(leaf, str) else POISON_INT if isinstance(leaf, int) and not isinstance(leaf, bool) else ('bogus', None)
            for v in vals:
                if v == leaf:
                    continue
                yield fam, ('poisoned=' + '/'.join(str(x) for x in path if not isinstance(x, int)), type(v).__name__, repr(v)[:24]), 'update', (_with(msg, path, v), True)


def task(args):
    source, lo, hi, tier = args
    out = []
    classes = set()
    n = 0
    if source == 'poisoned':
        for fam, cv, kind, payload in itertools.islice(poisoned_cases(tier), lo, hi):
            n += 1
            check_case(fam, tuple(cv), kind, payload, out, classes, source)
    elif source == 'c08':
        gen = pools_c08.c08_cases(tier)
        for fam, cv, kind, payload in itertools.islice(gen, lo, hi):
            n += 1
            check_case(fam, tuple(cv), kind, payload, out, classes, source)
    elif source in ('c06', 'c07'):
        from ..ref import pools
        gen = pools.c06_cases(tier) if source == 'c06' else pools.c07_cases(tier)
        for fam, cv, msg, asn4 in itertools.islice(gen, lo, hi):
            n += 1
            check_case(fam, tuple(cv), 'update', (msg, asn4), out, classes, source)
    return n, out, classes


def session_writes():
    """bytes actually written by send_open / send_keepalive / send_notification / send_update / send_route_refresh"""
    from ..alphabet import session_messages
    out = []
    n = 0
    for cfg in ({}, {'local_as': 4200000000, 'remote_as': 65002, 'add_path': 'ipv4_both'},
                {'four_bytes_as': False, 'route_refresh': False, 'cisco_route_refresh': False, 'enhanced_route_refresh': False,
                 'afi_safi': ['ipv4', 'ipv6', 'flowspec']}, {'hold': 0}):
        M = session_messages(remote_as=cfg.get('remote_as', 65002))
        for tail in ([('RX', 0, 'BAD_MARKER')], [('RX', 0, 'OPEN_OK')], [('OP_STOP',)], [('RX', 0, 'BAD_LEN18')], [('RX', 0, 'BAD_TYPE')],
                     [('TICK', 0), ('TICK', 0)], [('REST', 'rr')], [('REST', 'upd')]):
            M2 = dict(M)
            M2['@rr'] = ('POST', '/v1/peer/<ip>/send/route-refresh', {'afi': 1, 'safi': 1})
            M2['@upd'] = ('POST', '/v1/peer/<ip>/send/update', {'attr': {'1': 0, '2': [[2, [65001] * 130]], '3': '10.0.0.1'}, 'nlri': ['10.9.0.0/16']})
            try:
                w = W.replay(cfg, [('TICK', 0), ('CONN_OK', 0), ('RX', 0, 'OPEN_OK'), ('RX', 0, 'KA')] + tail, M2)
            except W.ReplayDivergence:
                continue        # e.g. no timer armed with hold time 0
            for c in w.sim.connectors:
                if c.transport is None or not hasattr(c.transport, "writes"):
                    continue
                for _, d in c.transport.writes:
                    frames, err, rest = wire.deframe(d)
                    n += 1
                    if err is not None or rest:
                        out.append(('C08|session|written bytes are not whole messages', {'hex': d.hex()[:400]}))
                        continue
                    pos = 0
                    for ty, body in frames:
                        m = wire.frame(ty, body)
                        probs = walker.walk(m)
                        if probs:
                            out.append(('C08|session|%s|%s' % (wire.TYPE_NAME.get(ty, ty), walker.tags(probs)[0]),
                                        {'hex': m.hex()[:400], 'problems': probs[:3], 'cfg': cfg}))
    # what the REST views hand out or send when the request cannot be turned into one valid UPDATE: an error, or valid messages
    a = {'1': 0, '2': [[2, [65001]]], '3': '10.0.0.1'}
    bad_requests = {
        'too-many-communities': {'attr': dict(a, **{'8': ['65001:%d' % i for i in range(70)]}), 'nlri': ['10.9.0.0/16']},
        'too-many-prefixes': {'attr': dict(a), 'nlri': ['10.%d.%d.1/32' % (i // 256, i % 256) for i in range(1200)]},
        'prefix-without-length': {'attr': dict(a), 'nlri': ['10.9.9.9']},
        'aspath-too-long': {'attr': dict(a, **{'2': [[2, [65001] * 3000]]}), 'nlri': ['10.9.0.0/16']},
        'unknown-attribute-text': {'attr': dict(a, **{'16': ['no-such-kind:1:2']}), 'nlri': ['10.9.0.0/16']},
    }
    # a rich request with ONE value of the wrong shape (text that is no address / prefix / community, numbers out of range)
    rich = {'attr': {'1': 0, '2': [[2, [65001, 65002]]], '3': '10.0.0.1', '4': 7, '5': 100, '8': ['65001:1', 'NO_EXPORT'],
                     '16': ['route-target:65001:1', 'route-origin:10.0.0.1:2'], '32': ['65001:1:2']}, 'nlri': ['10.9.0.0/16', '10.8.0.0/24'], 'withdraw': ['10.7.0.0/16']}
    for path, leaf in _leaves(rich):
        vals = POISON_STR + ('route-target:70000:70000', 'route-target:1', '65536:1') if isinstance(leaf, str) else POISON_INT
        for v in vals:
            if v != leaf:
                bad_requests['one-value-of-the-wrong-shape:%s=%r' % ('/'.join(str(x) for x in path if not isinstance(x, int)), v)] = _with(rich, path, v)
    for cfg in ({}, {'four_bytes_as': False}):
        M = session_messages()
        for name, body in sorted(bad_requests.items()):
            w = W.replay(cfg, [('TICK', 0), ('CONN_OK', 0), ('RX', 0, 'OPEN_OK'), ('RX', 0, 'KA')], M)
            t = w.readable()[0].transport
            before = len(t.writes)
            blobs = []
            try:
                st, js, raw = w.rest('POST', '/v1/peer/<ip>/json_to_bin', json=body, raw=True)
                if st == 200 and isinstance(js, dict) and isinstance(js.get('bin'), str):
                    blobs.append(('json_to_bin', bytes.fromhex(js['bin']) if all(c in '0123456789abcdefABCDEF' for c in js['bin']) else js['bin'].encode()))
            except Exception:     # noqa  (an error is an allowed outcome)
                pass
            try:
                w.rest('POST', '/v1/peer/<ip>/send/update', json=body)
                w.sim.drain_threads()
            except Exception:     # noqa
                pass
            blobs += [('send/update', d) for _, d in t.writes[before:]]
            for via, d in blobs:
                n += 1
                frames, err, rest = wire.deframe(d)
                if err is not None or rest or not frames:
                    out.append(('C08|rest|%s|%s produced octets that are not whole BGP messages' % (name, via), {'hex': d.hex()[:200], 'cfg': cfg}))
                    continue
                for ty, fb in frames:
                    probs = walker.walk(wire.frame(ty, fb))
                    if probs:
                        out.append(('C08|rest|%s|%s|%s' % (name, via, walker.tags(probs)[0]), {'hex': wire.frame(ty, fb).hex()[:400], 'problems': probs[:3], 'cfg': cfg}))
    return n, out


def run(tier, seed):
    tm = report.Timer()
    col = report.Collector(PROP)
    n08 = sum(pools_c08.count(tier).values())
    tasks = []
    step = 400 if tier == 'quick' else 4000
    for lo in range(0, n08, step):
        tasks.append(('c08', lo, lo + step, tier))
    have_pools = True
    try:
        from ..ref import pools
        n06 = sum(1 for _ in pools.c06_cases(tier))
        n07 = sum(1 for _ in pools.c07_cases(tier))
        for lo in range(0, n06, 4000):
            tasks.append(('c06', lo, lo + 4000, tier))
        for lo in range(0, n07, 4000):
            tasks.append(('c07', lo, lo + 4000, tier))
    except ImportError:
        have_pools = False
        n06 = n07 = 0
    npo = sum(1 for _ in poisoned_cases(tier)) if have_pools else 0
    for lo in range(0, npo, 1500):
        tasks.append(('poisoned', lo, lo + 1500, tier))
    res = explore.pmap(task, tasks, chunk=1)
    explore.close_pool()
    total = 0
    classes = set()
    for t, (n, out, cl) in zip(tasks, res):
        total += n
        classes |= cl
        for k, det in out:
            col.add(k, dict(det, case=report.pack(det['payload'])) if 'payload' in det else det, det, task=t)
    ns, outs = session_writes()
    total += ns
    for k, det in outs:
        col.add(k, det, det)
    n_new, n_known, summary = col.finish('c08-case')
    dirty = sum(1 for c in classes if c[2] not in ((), 'error'))
    cov = {
        'evaluations': total, 'distinct_nontrivial': len(classes),
        'rule': 'every input of the construct-only pools (SR-TE policy NLRI, tunnel encapsulation, PMSI tunnel, IPv6 flowspec, NOTIFICATION, '
                'ROUTE-REFRESH, KEEPALIVE, OPEN: %d cases) and of the C06 (%d) / C07 (%d) pools is handed to yabgp\'s constructor under a '
                'work budget; whatever bytes come back are walked by the independent structural walker (header length, container sums, '
                'flag category per type, extended-length bit, ceil(len/8) prefixes, TLV / capability nesting); plus %d writes of real '
                'sessions. distinct_nontrivial = distinct (family, class vector, outcome) triples' % (n08, n06, n07, ns),
        'samples': [{'family': c[0], 'class_vector': list(c[1]), 'kind': c[2], 'payload': c[3]}
                    for i in report.pick(range(n08), seed, 3) for c in itertools.islice(pools_c08.c08_cases(tier), i, i + 1)],
        'distinct_outcome_classes_with_problems': dirty, 'exhaustive': True, 'violation_keys': summary,
    }
    report.write_evidence(PROP, tier, seed, 'exploration', cov,
                          ['structural walker vf/ref/walker.py (RFC 4271, 4760, 7432, 8955/8956, 9012, 6514, 5492 ...; its judgement calls are '
                           'listed at the top of the file); a constructor that raises or returns None counts as "fails with an error"'],
                          tm.wall(), n_new)
    return 1 if n_new else 0


def replay(path):
    import json
    d = json.load(open(path))
    w = d['witness']
    if 'kind' not in w:              # a write of a real session: re-run the session sweep
        a, b = report.twice(session_writes)
        if repr(a) != repr(b):
            print('HARNESS-ERROR: replay is not deterministic')
            return 2
        for k, det in a[1]:
            if k == d['key']:
                print(k, json.dumps(det, default=str)[:1500])
        return 1 if d['key'] in [k for k, _ in a[1]] else 0
    payload = w['payload']
    if w['kind'] == 'update':
        msg, asn4 = payload

        def fix(x):
            if isinstance(x, dict):
                return {(int(k) if isinstance(k, str) and k.isdigit() else k): fix(v) for k, v in x.items()}
            if isinstance(x, list):
                return [fix(v) for v in x]
            return x
        payload = (fix(msg), asn4)
    elif w['kind'] == 'notification':
        payload = (payload[0], payload[1], bytes.fromhex(payload[2]) if isinstance(payload[2], str) else payload[2])
    if 'case' in w:
        payload = report.unpack(w['case'])        # exact (tuples stay tuples)
    def one():
        out, cl = [], set()
        check_case(w['family'], tuple(w['class_vector']), w['kind'], payload, out, cl, w.get('source'))
        return out
    outs = report.twice(one)
    if repr(outs[0]) != repr(outs[1]):
        print('HARNESS-ERROR: replay is not deterministic')
        return 2
    for k, det in outs[0]:
        print(k)
        print('   problems:', det['problems'])
        print('   bytes:', det['hex'])
    if d['key'] in [k for k, _ in outs[0]]:
        return 1
    return report.replay_in_task(d, task)
