"""C03 - hold and keepalive timers keep exactly the negotiated contract (DESIGN 7, C03).
Dedicated schedule enumerator: for every (configured, proposed) hold pair and every arrival schedule
over a gap alphabet placed just below / at / just above the deadlines, with every order of
same-instant ties, executed on the real objects under the virtual clock."""
import itertools
import struct

from .. import explore, report, world as W
from ..ref import wire
from ..alphabet import peer_caps, simple_update, PEER_ID

PROP = 'C03'
DEEP_HOLDS = (3, 5, 9, 90, 65535)
HOLDS = (0, 3, 4, 5, 9, 30, 90, 180, 65535)         # (all three residues modulo 3: 3, 4, 5)
EPS = 1e-6
REQ = {'@send': ('POST', '/v1/peer/<ip>/send/update',
                 {'attr': {'1': 0, '2': [[2, [65001]]], '3': '10.0.0.1'}, 'nlri': ['10.9.0.0/16']}),
       # an UPDATE of about 3 kB (larger than one TCP segment)
       '@sendbig': ('POST', '/v1/peer/<ip>/send/update',
                    {'attr': {'1': 0, '2': [[2, [65001]]], '3': '10.0.0.1'}, 'nlri': ['10.%d.%d.0/24' % (i // 256, i % 256) for i in range(700)]}),
       # requests the application got wrong, waiting in the handler's queue for the next KEEPALIVE (which must still count)
       # a request the encoder refuses (NEXT_HOP that is no address): nothing is written, nothing may move
       '@sendbad': ('POST', '/v1/peer/<ip>/send/update',
                    {'attr': {'1': 0, '2': [[2, [65001]]], '3': 'not-an-ip'}, 'nlri': ['10.9.0.0/16']}),
       '@mq:bad': {'type': 'notification', 'msg': {'error': 6, 'sub_error': 256, 'data': b''}},
       '@mq:bad2': {'type': 'update', 'msg': {'attr': {1: 0, 2: [(2, [65001])], 3: '10.0.0.1'}, 'nlri': [12345]}}}


def messages():
    m = {'KA': wire.keepalive(), 'UPD': simple_update(65002)}
    # a peer with many capabilities (graceful restart, enhanced route refresh, ADD-PATH, long-lived GR, 4-octet AS): seldom seen,
    # and the only sessions in which an End-of-RIB marker (the empty UPDATE, RFC 4724) means something
    rich = peer_caps() + [wire.cap(70), wire.cap_gr(0x4078, [(1, 1, 0x80)]), wire.cap_addpath([(1, 1, 1)]), wire.cap_llgr([(1, 1, 0, 3600)])]
    m['EOR'] = wire.frame(wire.UPDATE, b'\x00\x00\x00\x00')
    for h in HOLDS:
        m['OPEN_%d' % h] = wire.open_msg(65002, h, PEER_ID, peer_caps())
        m['OPEN_%d_rich' % h] = wire.open_msg(65002, h, PEER_ID, rich)
    m.update(REQ)
    return m


MSGS = messages()


def gaps_for(H):
    """(label, seconds, tie) - tie: None | 'arrival-first' | 'expiry-first' for a gap landing on a deadline"""
    if H == 0:
        return [('1s', 1.0, None), ('100000s', 100000.0, None)]
    g = [('1s', 1.0, None), ('H/3', H / 3.0, 'arrival-first'), ('H/3', H / 3.0, 'expiry-first'),
         ('H-1', H - 1.0, None), ('H', float(H), 'arrival-first'), ('H', float(H), 'expiry-first'),
         ('H+1', H + 1.0, None)]
    return g


RUN_CFG = [{}]        # further configuration of the worlds a task builds (e.g. RIB maintenance on)


class Run(object):
    """One execution; branches (timer ties) are explored by re-executing the event prefix."""

    def __init__(self, hc, hp, events):
        self.w = W.AgentWorld(dict(RUN_CFG[0], hold=hc))
        self.hc, self.hp = hc, hp
        self.H = min(hc, hp)
        for ev in events:
            self.w.step(ev, MSGS)
        self.events = list(events)

    def do(self, ev):
        self.events.append(ev)
        return self.w.step(ev, MSGS)


def explore_schedule(hc, hp, base, steps, stats, out):
    """Enumerate all tie orders for one schedule; `out(run, closed_info)` is called at each leaf."""
    prefix = [('TICK', 0), ('CONN_OK', 0)]
    if base != 'OPENSENT':
        prefix.append(('RX', 0, 'OPEN_%d%s' % (hp, RUN_CFG[0].get('_open', ''))))
    if base == 'ESTABLISHED':
        prefix.append(('RX', 0, 'KA'))

    def rec(events, si, elapsed_target):
        """events: prefix so far; si: index of next step."""
        r = Run(hc, hp, events)
        w = r.w
        stats['runs'] += 1
        while True:
            if not w.readable():
                # session over (closed by the agent): leaf
                return out(r, steps[:si])
            if si >= len(steps):
                # final phase: silence until the agent closes, or the horizon
                due = w.due()
                horizon = r.t_last_arrival(w) + (r.H if r.H else 0) + 5 if r.H else None
                if r.H == 0:
                    if due:
                        stats['h0_timers'] += 1
                    # silence never ends the session: jump 10 x 65535 s, firing whatever is armed
                    limit = w.sim.t0 + 10 * 65535.0
                    if due and due[0].time <= limit:
                        if len(due) > 1:
                            for i in range(1, len(due)):
                                rec(r.events + [('TICK', i)], si, None)
                        r.do(('TICK', 0))
                        continue
                    return out(r, steps[:si])
                if not due:
                    return out(r, steps[:si])
                if len(due) > 1:
                    for i in range(1, len(due)):
                        rec(r.events + [('TICK', i)], si, None)
                r.do(('TICK', 0))
                continue
            label, gap, tie, msg = steps[si]
            target = r.t_ref(w) + gap
            due = w.due()
            if due and due[0].time < target - EPS:
                if len(due) > 1:
                    for i in range(1, len(due)):
                        rec(r.events + [('TICK', i)], si, None)
                r.do(('TICK', 0))
                continue
            if due and abs(due[0].time - target) <= EPS and tie == 'expiry-first':
                # every order of the timers due at the arrival instant, all before the arrival
                if len(due) > 1:
                    for i in range(1, len(due)):
                        rec(r.events + [('TICK', i)], si, None)
                r.do(('TICK', 0))
                continue
            if target > w.sim.now + EPS:
                dt = round(target - w.sim.now, 6)
                if due and w.sim.now + dt > due[0].time:
                    dt = due[0].time - w.sim.now          # (a gap of H/3 with H not a multiple of 3: never step over the deadline it lands on)
                r.do(('WAIT', dt))
            if msg in ('SEND', 'SENDBIG'):
                r.do(('REST', 'send' if msg == 'SEND' else 'sendbig'))
                r.sends.append(w.sim.now)
            elif msg == 'SENDBAD':
                r.do(('REST', 'sendbad'))
                r.sends.append(w.sim.now)
            elif msg in ('MQBAD', 'MQBAD2'):
                r.do(('MQ', 'bad' if msg == 'MQBAD' else 'bad2'))
                r.sends.append(w.sim.now)
            else:
                r.do(('RX', 0, msg))
            si += 1

    Run.t_last_arrival = lambda self, w: max([t for t, _ in w.sim.connectors[0].transport.rx] or [w.sim.connectors[0].transport.opened_at])
    Run.t_ref = lambda self, w: max([self.t_last_arrival(w)] + getattr(self, 'sends', []))
    Run.sends = []
    rec(prefix, 0, None)


def check_run(r, done_steps, base):
    """Monitors M1-M5 over the timestamped logs of one finished execution."""
    v = []
    w = r.w
    t = w.sim.connectors[0].transport
    H = r.H
    cls = 'H=%s' % (H if H in (0, 3, 4) else 'n')
    tx = []       # (time, abstract msg)
    for tm, d in t.writes:
        for m in wire.abstract_writes(d):
            tx.append((tm, m))
    arrivals = [tm for tm, d in t.rx]
    closed_at = t.lose_time
    notifs = [(tm, m) for tm, m in tx if m[0] == 'NOTIF']
    sched = ' '.join('%s:%s' % (s[0] + ('' if s[2] is None else '/' + s[2]), s[3]) for s in done_steps) or 'silence'
    det = {'hc': r.hc, 'hp': r.hp, 'base': base, 'schedule': sched, 'events': r.events, 'steps': [list(x) for x in done_steps],
           'tx': [(round(a - w.sim.t0, 6), m) for a, m in tx], 'closed_at': None if closed_at is None else round(closed_at - w.sim.t0, 6)}
    if any(e[1] for e in w.exceptions) or w.overruns:
        v.append(('C03|exception or overrun in a timer path|%s' % cls, det))
    # M6: whatever timers and sends coincide, what the agent wrote is a sequence of whole messages
    stream = b''.join(d for _, d in t.writes)
    frames, err, rest = wire.deframe(stream)
    if err is not None or rest:
        v.append(('C03|M6|the octets written are not a sequence of whole messages (a timer-driven message inside another one?)|%s' % cls, det))
    if base == 'OPENSENT':
        # M5: the large hold time (4 minutes) bounds the wait for the peer's OPEN
        want = t.opened_at + 240.0
        if closed_at is None or abs(closed_at - want) > EPS or not notifs or notifs[0][1][1] != 4:
            v.append(('C03|M5|OpenSent silence not ended by NOTIFICATION(4) at connect+240s', det))
        return v
    # session start: the KEEPALIVE answering the OPEN
    open_at = arrivals[0] if arrivals else None
    # the statement says KEEPALIVE: an UPDATE the operator happens to send does not stand in for one
    ka_tx = [tm for tm, m in tx if m[0] == 'KA']
    if H == 0:
        # M4
        later = [x for x in tx if x[0] > open_at + EPS and x[1][0] != 'UPDATE']
        if later:
            v.append(('C03|M4|H=0: KEEPALIVE/NOTIFICATION written after the KEEPALIVE answering the OPEN: %s' % (later[0][1][0],), det))
        if closed_at is not None or w.reported_state() not in ('ESTABLISHED', 'OPENCONFIRM'):
            v.append(('C03|M4|H=0: silence ended the session', det))
        return v
    end = closed_at if closed_at is not None else w.sim.now
    # M1: gaps between consecutive KEEPALIVE/UPDATE transmissions while the session is up
    pts = [x for x in ka_tx if x <= end + EPS]
    seq = pts + [end]
    worst = 0.0
    for a, b in zip(seq, seq[1:]):
        worst = max(worst, b - a)
    if not pts:
        v.append(('C03|M1|no KEEPALIVE in reply to the OPEN|%s' % cls, det))
    elif worst > H / 3.0 + EPS:
        v.append(('C03|M1|gap between the agent\'s KEEPALIVEs exceeds H/3|%s' % cls,
                  dict(det, worst_gap=worst, limit=H / 3.0)))
    # M2 / M3: the session ends exactly H after the last arrival, with NOTIFICATION(4), never earlier
    last_arr = max([a for a in arrivals if closed_at is None or a <= closed_at + EPS] or [open_at])
    if closed_at is not None:
        # arrivals at the very instant of the close were ordered after it (expiry-first)
        before = [a for a in arrivals if a < closed_at - EPS] or [open_at]
        same = [a for a in arrivals if abs(a - closed_at) <= EPS]
        la = max(before)
        if same and done_steps and done_steps[-1][2] == 'arrival-first' and abs(closed_at - la - H) <= EPS:
            v.append(('C03|M2|arrival ordered before the expiry at exactly H did not keep the session up|%s' % cls, det))
        elif closed_at - la < H - EPS:
            v.append(('C03|M2|session closed although an arrival fell into every H window|%s' % cls,
                      dict(det, silent_for=closed_at - la)))
        elif closed_at - la > H + EPS:
            v.append(('C03|M3|hold timer expired later than last arrival + H|%s' % cls, dict(det, silent_for=closed_at - la)))
        if not notifs or notifs[0][1][1] != 4:
            if not (closed_at - la < H - EPS):
                v.append(('C03|M3|session ended without NOTIFICATION(4) Hold Timer Expired|%s' % cls, det))
        elif abs(notifs[0][0] - closed_at) > EPS:
            v.append(('C03|M3|NOTIFICATION(4) and close at different instants|%s' % cls, det))
    else:
        if w.sim.now - last_arr > H + EPS:
            v.append(('C03|M3|nothing arrived for more than H and the session is still up|%s' % cls, det))
    return v


def schedules(H, depth, base, with_send):
    msgs = ['KA', 'UPD'] + (['SEND', 'SENDBIG', 'SENDBAD', 'MQBAD', 'MQBAD2'] if with_send is True else ['EOR'] if with_send == 'eor' else [])
    g = gaps_for(H)
    out = [()]
    for n in range(1, depth + 1):
        for combo in itertools.product([(a, b, c, m) for (a, b, c) in g for m in msgs], repeat=n):
            if base == 'OPENCONFIRM' and combo[0][3] != 'KA':
                continue        # UPDATE in OpenConfirm is C01's business (FSM error)
            out.append(combo)
    return out


def task(args):
    hc, hp, base, sched_list = args[:4]
    RUN_CFG[0] = args[4] if len(args) > 4 else {}
    stats = {'runs': 0, 'h0_timers': 0}
    viols = []
    leaves = [0]
    classes = set()

    def out(r, done):
        leaves[0] += 1
        t = r.w.sim.connectors[0].transport
        classes.add((base, min(hc, hp) > 0, t.lose_time is not None, tuple(s[0] for s in done)))
        for k, d in check_run(r, done, base):
            viols.append((k + ('|rib on' if RUN_CFG[0].get('rib') else '|capability-rich peer' if RUN_CFG[0].get('_open') else ''), dict(d, cfg=RUN_CFG[0])))
    for steps in sched_list:
        explore_schedule(hc, hp, base, list(steps), stats, out)
    return {'runs': stats['runs'], 'leaves': leaves[0], 'viols': viols, 'classes': classes, 'schedules': len(sched_list)}


def run(tier, seed):
    tm = report.Timer()
    col = report.Collector(PROP)
    depth = {'quick': 2, 'thorough': 3}[tier]
    tasks = []
    for hc in HOLDS:
        for hp in HOLDS:
            H = min(hc, hp)
            tasks.append((hc, hp, 'OPENSENT', [()]))
            for base in ('OPENCONFIRM', 'ESTABLISHED'):
                # (thorough: three steps for the hold pairs over DEEP_HOLDS, two for the others - 81 pairs x 117 k schedules is hours)
                d_ = depth if (H and (tier == 'quick' or (hc in DEEP_HOLDS and hp in DEEP_HOLDS))) else 2
                sl = schedules(H, d_, base, with_send=(base == 'ESTABLISHED'))
                # split for load balance
                for i in range(0, len(sl), 200):
                    tasks.append((hc, hp, base, sl[i:i + 200]))
    # the same UPDATE again and again is an arrival every time, also when RIB maintenance finds nothing new in it
    for hc, hp in ((30, 90), (9, 9), (180, 3)):
        sl = schedules(min(hc, hp), depth, 'ESTABLISHED', with_send=False)
        for i in range(0, len(sl), 200):
            tasks.append((hc, hp, 'ESTABLISHED', sl[i:i + 200], {'rib': True}))
    # a capability-rich peer (graceful restart ...) whose arrivals include End-of-RIB markers
    for hc, hp in ((9, 9), (180, 30), (3, 180)):
        sl = schedules(min(hc, hp), depth, 'ESTABLISHED', with_send='eor')
        for i in range(0, len(sl), 200):
            tasks.append((hc, hp, 'ESTABLISHED', sl[i:i + 200], {'_open': '_rich'}))
    explore.HARNESS = None
    results = explore.pmap(task, tasks, chunk=1)
    explore.close_pool()
    runs = leaves = nsched = 0
    classes = set()
    samples = []
    for t, r in zip(tasks, results):
        runs += r['runs']
        leaves += r['leaves']
        nsched += r['schedules']
        classes |= r['classes']
        for k, d in r['viols']:
            col.add(k, {'hc': d['hc'], 'hp': d['hp'], 'base': d['base'], 'events': d['events'], 'steps': d['steps'], 'cfg': d.get('cfg') or {}}, d)
    n_new, n_known, summary = col.finish('c03-schedule')
    cov = {
        'evaluations': leaves, 'distinct_nontrivial': len(classes),
        'states': runs, 'transitions': runs, 'traces_validated_against_impl': leaves,
        'rule': 'every (configured, proposed) hold pair over %s; from OpenSent (silence), OpenConfirm and Established every '
                'arrival schedule of <= %d steps (thorough: 3 for the pairs over {3, 5, 9, 90, 65535}, 2 for the others) over gaps {1s, H/3, H-1, H, H+1} x {KEEPALIVE, UPDATE, agent-side REST send (small, 3 kB), malformed request queued by the application} with, '
                'at a gap landing on a deadline, both the arrival-first and the expiry-first order, and every order of '
                'same-instant timer expiries; then silence until the session ends. distinct_nontrivial = distinct '
                '(base state, H>0, ended?, gap-label sequence) classes' % (list(HOLDS), depth),
        'samples': [{'hold_configured': t[0], 'hold_proposed': t[1], 'base': t[2], 'schedule': [list(x) for x in report.pick(t[3], seed, 1)[0]]}
                    for t in report.pick([t for t in tasks if t[3] and t[3][-1]], seed, 3)],
        'schedules': nsched, 'executions_including_tie_branches': runs, 'hold_pairs': len(HOLDS) ** 2,
        'exhaustive': True, 'violation_keys': summary,
    }
    report.write_evidence(PROP, tier, seed, 'model_checking', cov, report.ASSUMPTIONS_E1, tm.wall(), n_new)
    return 1 if n_new else 0


def replay(path):
    import json
    d = json.load(open(path))
    wit = d['witness']
    outs = []
    RUN_CFG[0] = wit.get('cfg') or {}
    for _ in range(2):
        r = Run(wit['hc'], wit['hp'], [tuple(e) for e in wit['events']])
        r.sends = []
        t = r.w.sim.connectors[0].transport
        keys = [k + ('|rib on' if RUN_CFG[0].get('rib') else '|capability-rich peer' if RUN_CFG[0].get('_open') else '') for k, _ in check_run(r, [tuple(x) for x in wit['steps']], wit['base'])]
        outs.append(([(round(a - r.w.sim.t0, 6), wire.abstract_writes(b)) for a, b in t.writes], t.lose_time, r.w.reported_state(), keys))
    if outs[0] != outs[1]:
        print('HARNESS-ERROR: replay is not deterministic')
        return 2
    print('hold configured=%s proposed=%s base=%s' % (wit['hc'], wit['hp'], wit['base']))
    print('events:', wit['events'])
    print('agent writes (t, msgs):', outs[0][0])
    print('closed at:', None if outs[0][1] is None else outs[0][1] - 1000000.0, 'state:', outs[0][2])
    print('violation keys on replay:', outs[0][3])
    print('expected key:', d['key'])
    return 1 if d['key'] in outs[0][3] else 0
