"""C04 - byte-stream framing is independent of TCP segmentation and always terminates (DESIGN 7, C04).
Engine E2: for every stream of a finite stream set, every segmentation of a complete family (whole,
byte-at-a-time, every 1-cut, every 2-cut) is delivered to a freshly established real session; outcomes
are compared with each other and with a reference deframer; every dataReceived call is metered."""
import itertools
import struct

from .. import explore, report, world as W, budget
from ..ref import wire
from ..alphabet import session_messages, simple_update, attr, update_body

PROP = 'C04'
M = session_messages()
CB_OF = {wire.KEEPALIVE: 'keepalive_received', wire.UPDATE: 'update_received',
         wire.NOTIFICATION: 'notification_received', wire.ROUTE_REFRESH: 'route_refresh_received',
         wire.CISCO_RR: 'route_refresh_received', wire.OPEN: None}


def big_update():
    comm = b''.join(struct.pack('!I', 0xFFFF0000 + i) for i in range(60))
    attrs = attr(0x40, 1, b'\x00') + attr(0x40, 2, struct.pack('!BBI', 2, 1, 65002)) + attr(0x40, 3, b'\x0a\x00\x00\x02') \
        + attr(0xC0, 8, comm)
    return wire.frame(wire.UPDATE, update_body(b'', attrs, b'\x18\x0a\x01\x02' * 5))


def pools():
    valid = {
        'KA': wire.keepalive(),
        'RR': wire.route_refresh(1, 1),
        'UPD': simple_update(65002),
        'UPD300': big_update(),
        'NOTIF': wire.notification(6, 2),
    }
    ka = wire.keepalive()
    hostile = {
        'MARK_FIRST': b'\xfe' + ka[1:],
        'MARK_MID': ka[:8] + b'\x00' + ka[9:],
        'MARK_LAST': ka[:15] + b'\x7f' + ka[16:],
        'LEN0': wire.frame(wire.KEEPALIVE, length=0),
        'LEN1': wire.frame(wire.KEEPALIVE, length=1),
        'LEN18': wire.frame(wire.KEEPALIVE, length=18),
        'LEN19_UPD': wire.frame(wire.UPDATE, length=19),
        'LEN4096_KA': wire.frame(wire.KEEPALIVE, b'\x00' * 8, length=4096),
        'LEN4097': wire.frame(wire.UPDATE, b'\x00' * 8, length=4097),
        'LEN65535': wire.frame(wire.UPDATE, b'\x00' * 8, length=65535),
        'TYPE0': wire.frame(0),
        'TYPE6': wire.frame(6, b'\x00\x01\x02\x03'),
        'TYPE9': wire.frame(9),
        'TYPE255': wire.frame(255, b'\xff'),
        'KA_LONG': wire.frame(wire.KEEPALIVE, b'\x00'),
        'RR_SHORT': wire.frame(wire.ROUTE_REFRESH, b'\x00\x01'),
        'RR_LONG': wire.frame(wire.ROUTE_REFRESH, b'\x00\x01\x00\x01\xaa\xbb'),
        'UPD_BADBODY': wire.frame(wire.UPDATE, b'\x00\x10\x00\x00'),
        'OPEN_IN_EST': M['OPEN_OK'],
    }
    tails = {}
    for name in ('KA', 'UPD', 'RR'):
        f = valid[name]
        for cut, lab in ((7, 'in-marker'), (17, 'in-length'), (18, 'before-type')) + (((len(f) - 1, 'in-body'),) if len(f) > 19 else ()):
            tails['%s_TRUNC_%s' % (name, lab)] = f[:cut]
    t9 = wire.frame(9, b'\x00' * 6)
    tails['TYPE9_TRUNC'] = t9[:21]
    return valid, hostile, tails


VALID, HOSTILE, TAILS = pools()
ALL = dict(VALID)
ALL.update(HOSTILE)
ALL.update(TAILS)


CFG = [{}]            # configuration of the agent the next deliver() builds (task_cfg switches it)
PEER_OPEN = ['OPEN_OK']     # the OPEN the peer sends in establish()
M = dict(M)
M['OPEN_MPONLY'] = wire.open_msg(65002, 90, 0x0A000002, [wire.cap_mp(1, 1)])
M['OPEN_MANYCAPS'] = wire.open_msg(65002, 90, 0x0A000002, [wire.cap_mp(1, 1), wire.cap_mp(2, 1), wire.cap(wire.CAP_RR), wire.cap(wire.CAP_RR_OLD), wire.cap(70),
                                                        wire.cap(6), wire.cap(67), wire.cap(200, b'\x01\x02'), wire.cap_gr(0x4078, [(1, 1, 0x80)]),
                                                        wire.cap_addpath([(1, 1, 3)]), wire.cap_llgr([(1, 1, 0, 3600)])])
M['OPEN_NOCAPS'] = wire.open_msg(65002, 90, 0x0A000002, [], as4=False)


def establish(state='ESTABLISHED'):
    w = W.AgentWorld(CFG[0])
    for ev in (('TICK', 0), ('CONN_OK', 0), ('RX', 0, M[PEER_OPEN[0]])):
        w.step(ev)
    if state == 'ESTABLISHED':
        w.step(('RX', 0, M['KA']))
    if w.reported_state() != state:
        raise explore.HarnessError('cannot reach %s' % state)
    return w


def deliver(stream, cuts, state='ESTABLISHED'):
    """Deliver `stream` cut at the given offsets. Returns the outcome tuple and per-call budget info."""
    w = establish(state)
    t = w.readable()[0].transport
    nw0 = len(t.writes)
    cbs = []
    over = None
    excs = []
    bounds = [0] + list(cuts) + [len(stream)]
    undelivered = 0
    for a, b in zip(bounds, bounds[1:]):
        if a == b:
            continue
        if not w.readable():
            undelivered += b - a
            continue
        chunk = stream[a:b]
        w.budget_limit = 200 + 40 * len(chunk)
        obs = w.step(('RX', 0, chunk))
        for e in obs:
            if e[0] == 'cb':
                cbs.append((e[1], e[2]))
            elif e[0] == 'overrun':
                over = (len(chunk), e[1])
            elif e[0] == 'exc':
                excs.append(e[1:])
    writes = tuple(m[:3] for _, d in t.writes[nw0:] for m in wire.abstract_writes(d))
    closed = t.lose_time is not None
    p = t.protocol
    # timers (relative to now: virtual time does not advance between the chunks) and the receive counters belong to "its reaction"
    residue = (tuple(sorted((dc.name, round(dc.time - w.sim.now, 6)) for dc in w.sim.calls)),
               tuple(sorted(p.msg_recv_stat.items())), tuple(sorted(p.msg_sent_stat.items())))
    outcome = (tuple(cbs), writes, closed, w.reported_state(),
               bytes(p._receive_buffer) if not closed else b'', residue)
    return outcome, over, excs


def reference(names, state='ESTABLISHED'):
    """Allowed outcomes for the stream `names` in Established according to the property's reference deframer
    (16 x 0xFF marker, 19 <= length <= 4096, known type). Returns a list of (callbacks pattern, notif pattern, closed)
    alternatives; in a callbacks pattern '?' stands for "at most one report of any kind" and in a notif pattern
    '*' for "one NOTIFICATION with any code". Frames whose *body* is ill-formed for their type (a length that is
    in 19..4096 but impossible for the type, a truncated ROUTE-REFRESH, an OPEN in Established ...) are accepted
    by that deframer; how the agent reacts to the body is not a framing matter, so for such a frame both
    "reports at most once and carries on" and "answers with some NOTIFICATION and closes" are allowed - but the
    frames behind it must still come out exactly when the session carries on (nothing lost, duplicated, merged)."""
    stream = b''.join(ALL[x] for x in names)
    frames, err, rest = wire.deframe(stream)
    alts = [([], None, False)]          # alternatives still running
    done = []                           # alternatives that ended in a close
    k = 0
    for name in names:
        data = ALL[name]
        if k >= len(frames):
            break
        ty, body = frames[k]
        # a pool element is exactly one frame unless it is hostile to framing itself
        if wire.deframe(data)[0] != [(ty, body)]:
            break
        k += 1
        nxt = []
        for cbs, notif, closed in alts:
            if name in UNJUDGED:
                nxt.append((cbs + ['?'], None, False))
                done.append((cbs + ['?'], '*', True))
            elif ty == wire.NOTIFICATION:
                done.append((cbs + [CB_OF[ty]], None, True))
            else:
                nxt.append((cbs + [CB_OF[ty]], None, False))
        alts = nxt
    if k < len(frames):
        return None           # should not happen: pool elements are single frames
    out = list(done)
    for cbs, notif, closed in alts:
        if err is None:
            out.append((cbs, None, False))
        elif err[0] == '3-pending':
            out.append((cbs, None, False))
            out.append((cbs, (1, 3), True))
        else:
            out.append((cbs, (1, err[0]), True))
    return out


def _cb_match(names, pattern):
    if not pattern:
        return not names
    if pattern[0] == '?':
        return _cb_match(names, pattern[1:]) or (bool(names) and _cb_match(names[1:], pattern[1:]))
    return bool(names) and names[0] == pattern[0] and _cb_match(names[1:], pattern[1:])


def matches_ref(outcome, ref):
    cbs, writes, closed, state, buf = outcome[:5]
    names = [c[0] for c in cbs if c[0] not in ('on_established',)]
    for pat, notif, cl in ref:
        if closed != cl:
            continue
        if notif is None and writes != ():
            continue
        if notif == '*' and not (len(writes) == 1 and writes[0][0] == 'NOTIF'):
            continue
        if isinstance(notif, tuple) and writes != (('NOTIF',) + notif,):
            continue
        if _cb_match(names, pat):
            return True
    return False


def cut_sets(n, level, stream_frames=None):
    """segmentations: whole, byte-at-a-time, every 1-cut, every 2-cut (level 2) - complete families"""
    yield ('whole', ())
    yield ('bytes', tuple(range(1, n)))
    for i in range(1, n):
        yield ('1cut', (i,))
    if level >= 2:
        if n <= 90:
            pos = range(1, n)
        else:
            # long stream: all positions near every frame boundary / header field, plus every 16th
            keep = set(range(1, n, 16))
            for b in stream_frames or ():
                for d in range(-3, 23):
                    if 0 < b + d < n:
                        keep.add(b + d)
            pos = sorted(keep)
        for i, j in itertools.combinations(pos, 2):
            yield ('2cut', (i, j))


def check_stream(names, level, state='ESTABLISHED', with_ref=True):
    stream = b''.join(ALL[x] for x in names)
    bnds = list(itertools.accumulate(len(ALL[x]) for x in names))
    viol = []
    n_del = 0
    base = None
    outcomes = set()
    label = '+'.join(names)
    for kind, cuts in cut_sets(len(stream), level, [0] + bnds):
        out, over, excs = deliver(stream, cuts, state)
        n_del += 1
        outcomes.add(out)
        if over:
            viol.append(('C04|c|dataReceived exceeded its work budget|%s' % classify(names), {'stream': label, 'cuts': cuts, 'chunk_len': over[0], 'steps': over[1]}))
        if excs:
            viol.append(('C04|exception escaped dataReceived|%s' % classify(names), {'stream': label, 'cuts': cuts, 'exc': excs}))
        if base is None:
            base = out
            if with_ref and all(x in VALID or x in HOSTILE or x in TAILS for x in names):
                ref = reference(names, state)
                if ref is not None and not matches_ref(out, ref):
                    viol.append(('C04|b|whole-stream outcome differs from the reference deframer|%s' % classify(names),
                                 {'stream': label, 'hex': stream.hex()[:400], 'want': ref,
                                  'got': {'callbacks': [c[0] for c in out[0]], 'writes': out[1], 'closed': out[2]}}))
        elif out != base:
            what = [n for n, (a, b) in zip(('callbacks', 'writes', 'closed', 'state', 'buffer', 'timers-or-counters'), zip(out, base)) if a != b]
            viol.append(('C04|a|outcome depends on segmentation (%s)|%s' % (','.join(what), classify(names)),
                         {'stream': label, 'hex': stream.hex()[:400], 'cuts': cuts, 'kind': kind,
                          'whole': {'callbacks': [c[0] for c in base[0]], 'writes': base[1], 'closed': base[2], 'state': base[3]},
                          'cut': {'callbacks': [c[0] for c in out[0]], 'writes': out[1], 'closed': out[2], 'state': out[3]}}))
    return viol, n_del, len(outcomes)


UNJUDGED = ('RR_SHORT', 'RR_LONG', 'UPD_BADBODY', 'OPEN_IN_EST', 'LEN19_UPD', 'KA_LONG', 'LEN4096_KA')


def uses_unjudged(names):
    """frames whose *body* is ill-formed for its type: the reaction is not a framing matter (differential half only)"""
    return any(n in UNJUDGED for n in names)


def classify(names):
    def c(n):
        if n in VALID:
            return 'closing' if n == 'NOTIF' else 'valid'
        if n in TAILS:
            return 'truncated'
        if n.startswith('MARK'):
            return 'bad-marker'
        if n.startswith('LEN'):
            return 'bad-length'
        if n.startswith('TYPE'):
            return 'bad-type'
        return n.lower()
    return '>'.join(c(n) for n in names)


def task_streams(args):
    lst, level, state = args
    v = []
    nd = 0
    classes = set()
    for names in lst:
        # the reference outcome is stated for Established; in OpenConfirm the same frames are FSM events
        # (UPDATE -> NOTIFICATION 5), so only the differential half applies there
        a, b, c = check_stream(names, level, state, with_ref=(state == 'ESTABLISHED'))
        v += a
        nd += b
        classes.add((classify(names), c))
    return v, nd, classes, len(lst)


def task_axis(args):
    """single-frame axes: every length value / every type octet, with a KEEPALIVE sentinel behind it"""
    kind, items = args
    v = []
    nd = 0
    classes = set()
    ka = wire.keepalive()
    for ty, L in items:
        if 19 <= L <= 4096:
            body = b'\x00' * (L - 19)
            first = wire.frame(ty, body)
            stream = first + ka
            cutsets = [(), (19,), (L,)] if L > 19 else [(), (19,)]
        else:
            stream = wire.frame(ty, b'\x00' * 4, length=L)
            cutsets = [(), (19,)]
        outs = []
        for cuts in cutsets:
            cuts = tuple(c for c in cuts if 0 < c < len(stream))
            out, over, excs = deliver(stream, cuts)
            nd += 1
            outs.append(out)
            if over:
                v.append(('C04|c|dataReceived exceeded its work budget|axis %s type=%d' % (kind, ty), {'type': ty, 'length': L, 'steps': over[1]}))
            if excs:
                v.append(('C04|exception escaped dataReceived|axis %s type=%d' % (kind, ty), {'type': ty, 'length': L, 'exc': excs}))
        lc = 'len<19' if L < 19 else 'len>4096' if L > 4096 else 'len-ok'
        tc = 'known' if ty in wire.KNOWN_TYPES else 'unknown'
        classes.add((kind, ty if kind == 'length' else tc, lc, outs[0][1], outs[0][2]))
        if any(o != outs[0] for o in outs[1:]):
            v.append(('C04|a|outcome depends on segmentation|axis %s %s %s' % (kind, tc, lc), {'type': ty, 'length': L}))
        cbs, writes, closed, state, buf = outs[0][:5]
        frames, err, rest = wire.deframe(stream)
        if err is not None and err[0] in (1, 2, 3):
            if writes != (('NOTIF', 1, err[0]),) or not closed or cbs:
                v.append(('C04|b|header violation not answered by exactly NOTIFICATION(1,%d)+close|axis %s %s %s' % (err[0], kind, tc, lc),
                          {'type': ty, 'length': L, 'writes': writes, 'closed': closed, 'callbacks': [c[0] for c in cbs]}))
        elif err is None:
            # the frame is well framed: whatever the agent does with its body, the sentinel behind it must be
            # seen exactly once if the session survived, and never if it did not
            n_ka = sum(1 for c in cbs if c[0] == 'keepalive_received')
            exp_first = 1 if ty == wire.KEEPALIVE else 0
            if not closed and n_ka != exp_first + 1:
                v.append(('C04|b|frame of length L did not consume exactly L octets (sentinel KEEPALIVE seen %d times)|axis %s %s' % (n_ka - exp_first, kind, lc),
                          {'type': ty, 'length': L, 'callbacks': [c[0] for c in cbs]}))
    return v, nd, classes, len(items)


def task_burst(args):
    """many messages in one read: N well-formed messages delivered as one chunk, as two halves, in 4096-octet reads and one
    message per read - every message reported exactly once, in order, whatever the read sizes"""
    v = []
    nd = 0
    classes = set()
    for n in args:
        frames = [VALID['UPD'] if i % 3 else VALID['KA'] for i in range(n)]
        stream = b''.join(frames)
        want = tuple(CB_OF[f[18]] for f in frames)
        bounds = list(itertools.accumulate(len(f) for f in frames))
        segs = {'whole': (), 'two-halves': (bounds[n // 2 - 1],), '4096-octet-reads': tuple(range(4096, len(stream), 4096)),
                'one-message-per-read': tuple(bounds[:-1])}
        base = None
        for kind, cuts in segs.items():
            out, over, excs = deliver(stream, cuts)
            nd += 1
            names = tuple(c[0] for c in out[0] if c[0] != 'on_established')
            classes.add(('burst', n, kind, names == want))
            if over:
                v.append(('C04|c|dataReceived exceeded its work budget|burst of %d messages' % n, {'burst': n, 'kind': kind, 'steps': over[1]}))
            if excs:
                v.append(('C04|exception escaped dataReceived|burst of %d messages' % n, {'burst': n, 'kind': kind, 'exc': excs}))
            if names != want or out[1] or out[2]:
                v.append(('C04|b|a burst of well-formed messages is not reported message by message (%s)' % kind,
                          {'burst': n, 'kind': kind, 'reported': len(names), 'expected': len(want), 'writes': out[1], 'closed': out[2]}))
            if base is None:
                base = out
            elif out != base:
                v.append(('C04|a|outcome depends on segmentation|burst of well-formed messages', {'burst': n, 'kind': kind}))
    return v, nd, classes, len(args)


CAP_CFGS = [{'route_refresh': False, 'cisco_route_refresh': False, 'enhanced_route_refresh': False, 'graceful_restart': False},
            {'cisco_route_refresh': False}, {'afi_safi': ['ipv4', 'ipv6', 'flowspec']}]
# (four_bytes_as is not in the list: it changes what an UPDATE *body* means, which is not a framing matter)


def task_cfg(args):
    """framing does not depend on which capabilities are configured: every single valid frame of every known type, with a sentinel
    KEEPALIVE behind it, under capability-poor configurations - extracted frames and reaction as under the default one"""
    v = []
    nd = 0
    classes = set()
    frames = dict(VALID)
    frames['RR128'] = wire.frame(wire.CISCO_RR, b'\x00\x01\x00\x01')
    del frames['UPD300']
    # frames beyond the 4096-octet limit, complete: whatever capabilities the peer announced (extended message, code 6, is not
    # something this agent ever agrees to), the limit stays
    frames['UPD4443'] = wire.frame(wire.UPDATE, b'\x00' * (4443 - 19))
    frames['UPD4097'] = wire.frame(wire.UPDATE, b'\x00' * (4097 - 19))
    frames['NOTIF4097'] = wire.frame(wire.NOTIFICATION, b'\x06\x02' + b'\x00' * (4097 - 21))
    base = {}
    try:
        # (... and a peer that announces nothing but IPv4 unicast and 4-octet AS numbers, alone and together with each poor local
        # configuration: a refresh type that NEITHER side announced is still a known message type for the deframer)
        for ci, cfg in enumerate([{}] + CAP_CFGS + [{'peer_open': 'OPEN_MANYCAPS'}, {'peer_open': 'OPEN_MPONLY'}] + [dict(c, peer_open='OPEN_MPONLY') for c in CAP_CFGS]):   # (a peer without the 4-octet-AS capability changes what an UPDATE body means: not a framing matter)
            cfg = dict(cfg)
            PEER_OPEN[0] = cfg.pop('peer_open', 'OPEN_OK')
            CFG[0] = cfg
            cfg = dict(cfg, peer_open=PEER_OPEN[0])
            for name, f in sorted(frames.items()):
                stream = f + wire.keepalive()
                for cuts in ((), (19,), (len(f),)):
                    out, over, excs = deliver(stream, tuple(c for c in cuts if 0 < c < len(stream)))
                    nd += 1
                    obs = (tuple(c[0] for c in out[0]), out[1], out[2], out[3])
                    # what is reported for a ROUTE-REFRESH names the message type that was on the wire (5 or 128) and its fields
                    for cbname, payload in out[0]:
                        if cbname == 'route_refresh_received':
                            want = ((('afi', 1), ('res', 0), ('safi', 1)), f[18])
                            have = payload
                            if have != want:
                                v.append(('C04|b|the ROUTE-REFRESH reported to the application is not the one received (type / fields)',
                                          {'cfg': cfg, 'frame': name, 'reported': repr(payload), 'received': repr(want)}))
                    if ci == 0:
                        base[(name, cuts)] = obs
                    elif obs != base[(name, cuts)]:
                        v.append(('C04|b|the reaction to the frame %s depends on the capabilities configured or announced by the peer' % name,
                                  {'cfg': cfg, 'frame': name, 'cuts': cuts, 'default': base[(name, cuts)], 'now': obs}))
                    classes.add(('cfg', ci, name, obs[1], obs[2]))
    finally:
        CFG[0] = {}
        PEER_OPEN[0] = 'OPEN_OK'
    return v, nd, classes, len(frames) * (3 + 2 * len(CAP_CFGS))


def run(tier, seed):
    tm = report.Timer()
    col = report.Collector(PROP)
    heads = list(VALID) + list(HOSTILE)
    lasts = heads + list(TAILS)
    s1 = [(a,) for a in lasts]
    s2 = [(a, b) for a in heads for b in lasts]
    s3 = [(a, b, c) for a in VALID for b in heads for c in lasts]
    tasks = []
    def add(lst, level, state, size):
        for i in range(0, len(lst), size):
            tasks.append(('s', (lst[i:i + size], level, state)))
    if tier == 'quick':
        add(s1, 2, 'ESTABLISHED', 4)
        add([s for s in s2 if 'UPD300' not in s and (s[0] in VALID or s[0] in UNJUDGED)], 2, 'ESTABLISHED', 4)
        add([s for s in s2 if 'UPD300' in s or not (s[0] in VALID or s[0] in UNJUDGED)], 1, 'ESTABLISHED', 4)
        add([s for i, s in enumerate(s3) if 'UPD300' not in s and i % 5 == seed % 5], 1, 'ESTABLISHED', 12)
        lens = sorted(set(list(range(0, 48)) + list(range(4088, 4104)) + list(range(65528, 65536)) + list(range(0, 65536, 257))))
    else:
        add(s1, 2, 'ESTABLISHED', 2)
        add(s2, 2, 'ESTABLISHED', 2)
        add([s for s in s3 if 'UPD300' not in s], 1, 'ESTABLISHED', 12)
        add(s1, 2, 'OPENCONFIRM', 4)
        add([s for s in s2 if 'UPD300' not in s], 1, 'OPENCONFIRM', 8)
        lens = list(range(0, 65536))
    items = [(ty, L) for ty in (1, 2, 3, 4, 5, 128) for L in lens]
    for i in range(0, len(items), 400):
        tasks.append(('l', ('length', items[i:i + 400])))
    titems = [(ty, L) for ty in range(256) for L in (19, 23)]
    for i in range(0, len(titems), 64):
        tasks.append(('t', ('type', titems[i:i + 64])))
    for n in ((257, 300), (1001, 1100), (2400,)) if tier == 'quick' else ((257, 300, 511), (1001, 1100), (2400,), (5000,)):
        tasks.append(('b', n))
    tasks.append(('c', None))
    results = explore.pmap(_dispatch, tasks, chunk=1)
    explore.close_pool()
    nd = ns = 0
    classes = set()
    for v, d, cl, n in results:
        nd += d
        ns += n
        classes |= cl
        for k, det in v:
            col.add(k, det, det)
    n_new, n_known, summary = col.finish('c04-stream')
    cov = {
        'evaluations': nd, 'distinct_nontrivial': len(classes),
        'rule': 'streams = all sequences of <= %d frames over a pool of %d valid + %d framing-hostile frames (+ %d truncated tails as last '
                'element); each delivered whole, byte-at-a-time, with every 1-cut and (streams of <= 2 frames) every 2-cut to a freshly '
                'established real session; plus the axes every length value (%d values x 6 types) and every type octet (256 x 2 lengths) '
                'with a sentinel KEEPALIVE behind; bursts of 257..2400 well-formed messages in one read / two halves / 4096-octet reads / one per read; every valid frame type under 3 capability-poor configurations against the default one; distinct_nontrivial = distinct (stream class, number of distinct outcomes) / axis classes'
                % (3, len(VALID), len(HOSTILE), len(TAILS), len(lens)),
        'samples': [({'stream': '+'.join(report.pick(t[1][0], seed, 1)[0]), 'cut_families': 'whole, bytewise, all 1-cuts' + (', all 2-cuts' if t[1][1] >= 2 else ''), 'state': t[1][2]}
                     if t[0] == 's' else {'axis': t[1][0], 'type_and_length': report.pick(t[1][1], seed, 1)[0]}) for t in report.pick([x for x in tasks if x[0] in ('s', 'l', 't')], seed, 4)],
        'streams': ns, 'deliveries': nd, 'length_values': len(lens),
        'exhaustive': tier == 'thorough', 'caps': [] if tier == 'thorough' else ['2-cuts only for streams whose first frame does not end the session', 'length axis sampled: every 257th value + all near 0/19/4096/65535', '3-frame streams: one fifth (rotates with VERIF_SEED), 1-cuts only'],
        'violation_keys': summary,
    }
    report.write_evidence(PROP, tier, seed, 'exploration', cov, report.ASSUMPTIONS_E1, tm.wall(), n_new)
    return 1 if n_new else 0


def _dispatch(t):
    kind, args = t
    if kind == 's':
        return task_streams(args)
    if kind == 'b':
        return task_burst(args)
    if kind == 'c':
        return task_cfg(args)
    return task_axis(args)


def replay(path):
    import json
    d = json.load(open(path))
    w = d['witness']
    if 'stream' in w:
        names = tuple(w['stream'].split('+'))
        stream = b''.join(ALL[x] for x in names)
        cuts = tuple(w.get('cuts') or ())
        a = deliver(stream, (), 'ESTABLISHED')
        b = deliver(stream, cuts, 'ESTABLISHED')
        b2 = deliver(stream, cuts, 'ESTABLISHED')
        if repr(b) != repr(b2):
            print('HARNESS-ERROR: replay is not deterministic')
            return 2
        print('stream', names, stream.hex())
        print('whole   :', [c[0] for c in a[0][0]], a[0][1:4], a[1], a[2])
        print('cuts %s:' % (cuts,), [c[0] for c in b[0][0]], b[0][1:4], b[1], b[2])
        print('reference:', reference(names))
        v, _, _ = check_stream(names, 2)
        return 1 if d['key'] in [k for k, _ in v] else 0
    elif 'burst' in w:
        v, _, _, _ = report.fresh(task_burst, (w['burst'],))
        print(v[:3])
        return 1 if d['key'] in [k for k, _ in v] else 0
    elif 'cfg' in w:
        v, _, _, _ = report.fresh(task_cfg, None)
        print(v[:3])
        return 1 if d['key'] in [k for k, _ in v] else 0
    else:
        v, _, _, _ = task_axis(('length', [(w['type'], w['length'])]))
        print(v)
        v2, _, _, _ = task_axis(('type', [(w['type'], w['length'])]))
        return 1 if d['key'] in [k for k, _ in v + v2] else 0
