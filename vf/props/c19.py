"""C19 - Adj-RIB-In and the version counters track exactly the updates applied (DESIGN 7, C19).
All operation sequences to a depth over a small prefix / flowspec / VPNv4 pool, de-duplicated on the
dictionary model's state, executed on the real session objects; step-by-step agreement with the model."""
import struct

from .. import explore, report, world as W
from ..ref import wire
from ..alphabet import session_messages, attr, update_body, PEER_ID

PROP = 'C19'
CFG = {'rib': True, 'afi_safi': ['ipv4', 'flowspec']}
M = M_EBGP = session_messages()
P = {'p1': ('10.1.0.0/16', b'\x10\x0a\x01'), 'p2': ('10.2.3.0/24', b'\x18\x0a\x02\x03')}
# a prefix whose length is not a multiple of 8: its canonical encoding and two with the don't-care bits set (RFC 4271 4.3:
# "the value of trailing bits is irrelevant") - all three name the same route
P3 = ('10.3.2.128/25', {'p3': b'\x19\x0a\x03\x02\x80', 'p3x': b'\x19\x0a\x03\x02\xc0', 'p3y': b'\x19\x0a\x03\x02\xff'})
FS = {'f1': ({'1': '10.0.1.0/24'}, b'\x01\x18\x0a\x00\x01'), 'f2': ({'1': '10.0.2.0/24', '5': '=80'}, b'\x01\x18\x0a\x00\x02\x05\x81\x50')}
VPN = {'v1': b'\x70' + b'\x00\x06\x41' + struct.pack('!HHI', 0, 65000, 1) + b'\x0a\x01\x00',
       'v2': b'\x70' + b'\x00\x06\x51' + struct.pack('!HHI', 0, 65000, 2) + b'\x0a\x02\x00'}
MEDS = {'a1': 10, 'a2': 20}


def base_attrs(a, nexthop=True):
    out = attr(0x40, 1, b'\x00') + attr(0x40, 2, struct.pack('!BBI', 2, 1, 65002))
    if nexthop:
        out += attr(0x40, 3, b'\x0a\x00\x00\x02')
    out += attr(0x80, 4, struct.pack('!I', MEDS[a]))
    return out


def _enc(p):
    return P[p][1] if p in P else P3[1][p]


def upd_v4(ann=(), a=None, wd=()):
    w = b''.join(_enc(p) for p in wd)
    n = b''.join(_enc(p) for p in ann)
    at = base_attrs(a) if ann else b''
    return wire.frame(wire.UPDATE, update_body(w, at, n))


def upd_fs(rule, a):
    nlri = bytes([len(FS[rule][1])]) + FS[rule][1]
    mp = struct.pack('!HBB', 1, 133, 0) + b'\x00' + nlri
    return wire.frame(wire.UPDATE, update_body(b'', base_attrs(a, nexthop=False) + attr(0x80, 14, mp), b''))


def upd_fs2(rules, a):
    nlri = b''.join(bytes([len(FS[r][1])]) + FS[r][1] for r in rules)
    mp = struct.pack('!HBB', 1, 133, 0) + b'\x00' + nlri
    return wire.frame(wire.UPDATE, update_body(b'', base_attrs(a, nexthop=False) + attr(0x80, 14, mp), b''))


def wd_fs2(rules):
    nlri = b''.join(bytes([len(FS[r][1])]) + FS[r][1] for r in rules)
    return wire.frame(wire.UPDATE, update_body(b'', attr(0x80, 15, struct.pack('!HB', 1, 133) + nlri), b''))


def wd_fs(rule):
    nlri = bytes([len(FS[rule][1])]) + FS[rule][1]
    return wire.frame(wire.UPDATE, update_body(b'', attr(0x80, 15, struct.pack('!HB', 1, 133) + nlri), b''))


def upd_vpn(v, a):
    nh = b'\x00' * 8 + b'\x0a\x00\x00\x02'
    mp = struct.pack('!HBB', 1, 128, len(nh)) + nh + b'\x00' + VPN[v]
    return wire.frame(wire.UPDATE, update_body(b'', base_attrs(a, nexthop=False) + attr(0x80, 14, mp), b''))


def wd_vpn(v):
    # withdraw: RFC 8277 compatibility label 0x800000
    n = VPN[v]
    n = n[:1] + b'\x80\x00\x00' + n[4:]
    return wire.frame(wire.UPDATE, update_body(b'', attr(0x80, 15, struct.pack('!HB', 1, 128) + n), b''))


def json_attr(a):
    return {'1': 0, '2': [[2, [65001]]], '3': '10.0.0.1', '4': MEDS[a]}


def ops(group):
    """name -> (kind, payload, model effect)"""
    o = {}
    if group in ('ipv4', 'mixed'):
        for p in P:
            for a in MEDS:
                o['rx-ann-%s-%s' % (p, a)] = ('rx', upd_v4([p], a), [('in', 'ipv4', 'ann', p, a)])
            o['rx-wd-%s' % p] = ('rx', upd_v4(wd=[p]), [('in', 'ipv4', 'wd', p, None)])
        for a in MEDS:
            o['rx-ann-p1-wd-p2-%s' % a] = ('rx', upd_v4(['p1'], a, ['p2']), [('in', 'ipv4', 'wd', 'p2', None), ('in', 'ipv4', 'ann', 'p1', a)])
        o['rx-ann-p1p2-a1'] = ('rx', upd_v4(['p1', 'p2'], 'a1'), [('in', 'ipv4', 'ann', 'p1', 'a1'), ('in', 'ipv4', 'ann', 'p2', 'a1')])
        o['rx-wd-p1p2'] = ('rx', upd_v4(wd=['p1', 'p2']), [('in', 'ipv4', 'wd', 'p1', None), ('in', 'ipv4', 'wd', 'p2', None)])
        # the same prefix twice in one NLRI field (legal; the second is a no-op), and twice in the withdrawn routes
        o['rx-ann-p1p1-a1'] = ('rx', upd_v4(['p1', 'p1'], 'a1'), [('in', 'ipv4', 'ann', 'p1', 'a1'), ('in', 'ipv4', 'ann', 'p1', 'a1')])
        o['rx-wd-p2p2'] = ('rx', upd_v4(wd=['p2', 'p2']), [('in', 'ipv4', 'wd', 'p2', None), ('in', 'ipv4', 'wd', 'p2', None)])
        o['send-ann-p1p1-a1'] = ('rest', {'attr': json_attr('a1'), 'nlri': [P['p1'][0], P['p1'][0]]}, [('out', 'ipv4', 'ann', 'p1', 'a1')])
        # many UPDATEs in one TCP read (a table transfer): 550 x (announce p1, withdraw p1), then announce p2 - one event
        burst = (upd_v4(['p1'], 'a1') + upd_v4(wd=['p1'])) * 550 + upd_v4(['p2'], 'a2')
        o['rx-burst-1101'] = ('rx', burst, [('in', 'ipv4', 'ann', 'p1', 'a1'), ('in', 'ipv4', 'wd', 'p1', None)] * 550 + [('in', 'ipv4', 'ann', 'p2', 'a2')])
        for enc in P3[1]:
            o['rx-ann-%s-a1' % enc] = ('rx', upd_v4([enc], 'a1'), [('in', 'ipv4', 'ann', 'p3', 'a1')])
        o['rx-wd-p3'] = ('rx', upd_v4(wd=['p3']), [('in', 'ipv4', 'wd', 'p3', None)])
        o['rx-wd-p3x'] = ('rx', upd_v4(wd=['p3x']), [('in', 'ipv4', 'wd', 'p3', None)])
        # a malformed UPDATE (ORIGIN of two octets behind the other attributes) changes nothing
        bad = attr(0x40, 2, struct.pack('!BBI', 2, 1, 65002)) + attr(0x40, 3, b'\x0a\x00\x00\x02') + attr(0x80, 4, struct.pack('!I', 20)) + attr(0x40, 1, b'\x00\x00')
        o['rx-bad-ann-p1'] = ('rx', wire.frame(wire.UPDATE, update_body(b'', bad, P['p1'][1])), [])
        o['rx-bad-wd-p1-ann-p2'] = ('rx', wire.frame(wire.UPDATE, update_body(P['p1'][1], bad, P['p2'][1])), [])
        for p in P:
            for a in MEDS:
                o['send-ann-%s-%s' % (p, a)] = ('rest', {'attr': json_attr(a), 'nlri': [P[p][0]]}, [('out', 'ipv4', 'ann', p, a)])
            o['send-wd-%s' % p] = ('rest', {'withdraw': [P[p][0]]}, [('out', 'ipv4', 'wd', p, None)])
        # a request the table can only take in part: p1 withdrawn in the plain spelling, p2 announced in the add-path spelling (a
        # dictionary, which is no table key): whatever was applied before the refusal is counted, nothing else is
        o['send-wd-p1-ann-p2-unsavable'] = ('rest', {'attr': json_attr('a1'), 'withdraw': [P['p1'][0]], 'nlri': [{'prefix': P['p2'][0], 'path_id': 3}]},
                                            [('out', 'ipv4', 'wd', 'p1', None)])
    if group in ('flowspec', 'mixed'):
        for f in FS:
            for a in MEDS:
                o['rx-fs-ann-%s-%s' % (f, a)] = ('rx', upd_fs(f, a), [('in', 'flowspec', 'ann', f, a)])
            o['rx-fs-wd-%s' % f] = ('rx', wd_fs(f), [('in', 'flowspec', 'wd', f, None)])
        o['rx-fs-wd-f1f2'] = ('rx', wd_fs2(('f1', 'f2')), [('in', 'flowspec', 'wd', 'f1', None), ('in', 'flowspec', 'wd', 'f2', None)])
        o['rx-fs-wd-f2f1'] = ('rx', wd_fs2(('f2', 'f1')), [('in', 'flowspec', 'wd', 'f2', None), ('in', 'flowspec', 'wd', 'f1', None)])
        o['rx-fs-ann-f1f2-a1'] = ('rx', upd_fs2(('f1', 'f2'), 'a1'), [('in', 'flowspec', 'ann', 'f1', 'a1'), ('in', 'flowspec', 'ann', 'f2', 'a1')])
        # malformed UPDATEs that carry a flowspec MP_REACH / MP_UNREACH in front of the attribute that does not decode
        nl = bytes([len(FS['f1'][1])]) + FS['f1'][1]
        badtail = attr(0x40, 2, struct.pack('!BBI', 2, 1, 65002)) + attr(0x40, 1, b'\x00\x00')
        o['rx-bad-fs-ann-f1'] = ('rx', wire.frame(wire.UPDATE, update_body(b'', attr(0x80, 14, struct.pack('!HBB', 1, 133, 0) + b'\x00' + nl) + badtail, b'')), [])
        o['rx-bad-fs-wd-f1'] = ('rx', wire.frame(wire.UPDATE, update_body(b'', attr(0x80, 15, struct.pack('!HB', 1, 133) + nl) + badtail, b'')), [])
        for a in MEDS:
            at = {'1': 0, '2': [], '5': 100, '4': MEDS[a], '14': {'afi_safi': [1, 133], 'nexthop': '', 'nlri': [FS['f1'][0]]}}
            o['send-fs-ann-f1-%s' % a] = ('rest', {'attr': at}, [('out', 'flowspec', 'ann', 'f1', a)])
        # the same rule f2 with its members written in the other order by the REST client (equal as a dictionary)
        f2rev = {'5': FS['f2'][0]['5'], '1': FS['f2'][0]['1']}
        for a in MEDS:
            at = {'1': 0, '2': [], '5': 100, '4': MEDS[a], '14': {'afi_safi': [1, 133], 'nexthop': '', 'nlri': [FS['f2'][0]]}}
            o['send-fs-ann-f2-%s' % a] = ('rest', {'attr': at}, [('out', 'flowspec', 'ann', 'f2', a)])
        at = {'1': 0, '2': [], '5': 100, '4': MEDS['a1'], '14': {'afi_safi': [1, 133], 'nexthop': '', 'nlri': [f2rev]}}
        o['send-fs-ann-f2rev-a1'] = ('rest', {'attr': at}, [('out', 'flowspec', 'ann', 'f2', 'a1')])
        o['send-fs-wd-f2rev'] = ('rest', {'attr': {'15': {'afi_safi': [1, 133], 'withdraw': [f2rev]}}}, [('out', 'flowspec', 'wd', 'f2', None)])
        o['send-fs-wd-f1'] = ('rest', {'attr': {'15': {'afi_safi': [1, 133], 'withdraw': [FS['f1'][0]]}}}, [('out', 'flowspec', 'wd', 'f1', None)])
    if group in ('vpn', 'mixed'):
        for v in VPN:
            for a in MEDS:
                o['rx-vpn-ann-%s-%s' % (v, a)] = ('rx', upd_vpn(v, a), [('in', 'mpls_vpn', 'ann', v, a)])
            o['rx-vpn-wd-%s' % v] = ('rx', wd_vpn(v), [('in', 'mpls_vpn', 'wd', v, None)])
        nh = b'\x00' * 8 + b'\x0a\x00\x00\x02'
        badtail = attr(0x40, 2, struct.pack('!BBI', 2, 1, 65002)) + attr(0x40, 1, b'\x00\x00')
        o['rx-bad-vpn-ann-v1'] = ('rx', wire.frame(wire.UPDATE, update_body(b'', attr(0x80, 14, struct.pack('!HBB', 1, 128, len(nh)) + nh + b'\x00' + VPN['v1']) + badtail, b'')), [])
        wv = VPN['v1'][:1] + b'\x80\x00\x00' + VPN['v1'][4:]
        o['rx-bad-vpn-wd-v1'] = ('rx', wire.frame(wire.UPDATE, update_body(b'', attr(0x80, 15, struct.pack('!HB', 1, 128) + wv) + badtail, b'')), [])
        both = b''.join((VPN[v][:1] + b'\x80\x00\x00' + VPN[v][4:]) for v in ('v1', 'v2'))
        o['rx-vpn-wd-v1v2'] = ('rx', wire.frame(wire.UPDATE, update_body(b'', attr(0x80, 15, struct.pack('!HB', 1, 128) + both), b'')),
                               [('in', 'mpls_vpn', 'wd', 'v1', None), ('in', 'mpls_vpn', 'wd', 'v2', None)])
    if group == 'ibgp':
        # iBGP session: the REST view adds the default LOCAL_PREF; a repeated identical request changes nothing
        for a in MEDS:
            o['send-ann-p1-%s' % a] = ('rest', {'attr': json_attr(a), 'nlri': [P['p1'][0]]}, [('out', 'ipv4', 'ann', 'p1', a)])
            o['send-ann-p1-%s-lp100' % a] = ('rest', {'attr': dict(json_attr(a), **{'5': 100}), 'nlri': [P['p1'][0]]}, [('out', 'ipv4', 'ann', 'p1', a)])
        o['send-wd-p1'] = ('rest', {'withdraw': [P['p1'][0]]}, [('out', 'ipv4', 'wd', 'p1', None)])
        o['rx-ann-p1-a1'] = ('rx', upd_v4(['p1'], 'a1'), [('in', 'ipv4', 'ann', 'p1', 'a1')])
    o['DROP'] = ('drop', 'peer-close', [('drop',)])
    o['DROP-notification'] = ('drop', 'notification', [('drop',)])     # the agent closes (peer sent a NOTIFICATION)
    o['DROP-stop-start'] = ('drop', 'stop-start', [('drop',)])         # the operator stops and starts the peer
    if group == 'mixed':
        # one UPDATE that carries IPv4 NLRI / withdrawn routes AND an MP attribute of another family (RFC 4760 allows it)
        nl = bytes([len(FS['f1'][1])]) + FS['f1'][1]
        mpf = attr(0x80, 14, struct.pack('!HBB', 1, 133, 0) + b'\x00' + nl)
        o['rx-ann-p2-a2+fs-ann-f1'] = ('rx', wire.frame(wire.UPDATE, update_body(b'', base_attrs('a2') + mpf, P['p2'][1])),
                                       [('in', 'ipv4', 'ann', 'p2', 'a2'), ('in', 'flowspec', 'ann', 'f1', 'a2')])
        o['rx-wd-p1+fs-wd-f1'] = ('rx', wire.frame(wire.UPDATE, update_body(P['p1'][1], attr(0x80, 15, struct.pack('!HB', 1, 133) + nl), b'')),
                                  [('in', 'ipv4', 'wd', 'p1', None), ('in', 'flowspec', 'wd', 'f1', None)])
        keep = ['rx-ann-p2-a2+fs-ann-f1', 'rx-wd-p1+fs-wd-f1', 'rx-ann-p1-a1', 'rx-wd-p1', 'rx-fs-ann-f1-a1', 'rx-fs-wd-f1', 'rx-vpn-ann-v1-a1', 'rx-vpn-wd-v1',
                'send-ann-p1-a1', 'send-fs-ann-f1-a1', 'DROP', 'DROP-notification']
        o = {k: o[k] for k in keep}
    return o


class Model(object):
    def __init__(self):
        self.tab = {('in', 'ipv4'): {}, ('in', 'flowspec'): {}, ('in', 'mpls_vpn'): {}, ('out', 'ipv4'): {}, ('out', 'flowspec'): {}}
        self.ver = {('in', f): 0 for f in ('ipv4', 'flowspec', 'sr_policy', 'mpls_vpn')}
        self.ver.update({('out', f): 0 for f in ('ipv4', 'flowspec', 'sr_policy', 'mpls_vpn')})

    def apply(self, effects):
        for e in effects:
            if e[0] == 'drop':
                self.__init__()
                continue
            side, fam, what, k, a = e
            t = self.tab[(side, fam)]
            if what == 'wd':
                if k in t:
                    del t[k]
                    self.ver[(side, fam)] += 1
            else:
                if t.get(k) != a:
                    self.ver[(side, fam)] += 1
                t[k] = a

    def key(self):
        return tuple(sorted((k, tuple(sorted(v.items()))) for k, v in self.tab.items()))


def establish(w):
    for ev in (('TICK', 0), ('CONN_OK', 0), ('RX', 0, 'OPEN_OK'), ('RX', 0, 'KA')):
        w.step(ev, M)


def reestablish(w, how='peer-close'):
    old = w.fsm.protocol
    if how == 'peer-close':
        w.step(('PEER_CLOSE', 0), M)
    elif how == 'notification':
        w.step(('RX', 0, 'NOTIF_CEASE'), M)
        w.step(('CLOSE_DONE', 0), M)
    else:
        w.step(('OP_STOP',), M)
        w.step(('CLOSE_DONE', 0), M)
        w.step(('OP_START',), M)
    w.rib_after_drop = dict(old.adj_rib_in.get('ipv4', {})) if old is not None else {}
    sc = explore.Script(w.cfg)

    class H(object):
        messages = M
    explore.run_script(w, H, sc, max_steps=30, until=lambda ww, t: ww.reported_state() == 'ESTABLISHED')
    if w.reported_state() != 'ESTABLISHED':
        raise explore.HarnessError('C19 driver: could not re-establish after DROP')


def observe(w):
    """what the agent reports: through REST where an endpoint exists, directly otherwise"""
    p = w.fsm.protocol
    out = {}
    st, recv = w.rest('GET', '/v1/peer/<ip>/version/received')
    st2, sent = w.rest('GET', '/v1/peer/<ip>/version/send')
    out['ver_in'] = dict(dict(recv)['version']) if st == 200 else None
    out['ver_out'] = dict(dict(sent)['version']) if st2 == 200 else None
    rib = {}
    for pfx, at in p.adj_rib_in.get('ipv4', {}).items():
        rib[pfx] = at.get(4)
    out['rib_in'] = rib
    st3, js, raw = w.rest('POST', '/v1/peer/<ip>/adj-rib-out', json={'data': [x[0] for x in P.values()]}, raw=True)
    ro = {}
    if st3 == 200 and isinstance(js, dict) and js.get('status'):
        for pfx, at in js['data'].items():
            if at is not None:
                ro[pfx] = at.get('4')
    out['rib_out'] = ro
    return out


M_IBGP = session_messages(remote_as=65001)


def impl_fingerprint(w):
    """what the protocol object remembers (every dict / list / set attribute except the counters): two histories are merged only
    if the dictionary model AND this agree - a table that is stale behind an unchanged REST view keeps its history apart"""
    import hashlib
    p = w.fsm.protocol
    if p is None:
        return None
    skip = ('msg_sent_stat', 'msg_recv_stat', 'send_version', 'receive_version')
    items = []
    for k, v in sorted(vars(p).items()):
        if k in skip or not isinstance(v, (dict, list, set, tuple)):
            continue
        items.append((k, repr(W._summ(v))))
    return hashlib.sha1(repr(items).encode()).hexdigest()[:16]


def run_history(group, hist):
    """returns (violations at the last step, model key, exceptions)"""
    global M
    O = ops(group)
    if group == 'ibgp':
        w = W.AgentWorld(dict(CFG, remote_as=65001))
        M = M_IBGP
    else:
        w = W.AgentWorld(CFG)
        M = M_EBGP
    establish(w)
    model = Model()
    base = {('in', f): 0 for f in ('ipv4', 'flowspec', 'sr_policy', 'mpls_vpn')}
    base.update({('out', f): 0 for f in ('ipv4', 'flowspec', 'sr_policy', 'mpls_vpn')})
    viol = []
    for i, name in enumerate(hist):
        kind, payload, eff = O[name]
        before = observe(w)
        mv_before = dict(model.ver)
        if kind == 'rx':
            obs = w.step(('RX', 0, payload), M)
        elif kind == 'rest':
            s = w.sim
            s.effects = []
            st, js = w.rest('POST', '/v1/peer/<ip>/send/update', json=payload)
            s.drain_threads()
            obs = s.effects
            s.effects = None
            if name.endswith('-unsavable'):
                if st == 200 and dict(js).get('status'):
                    # a tree that can file such a request after all is not wrong: the model of this operation assumes the refusal,
                    # so the history is not judged from here on
                    return viol, (model.key(), 'unsavable request accepted'), list(w.exceptions)
            elif st != 200 or not dict(js).get('status'):
                if i == len(hist) - 1:
                    viol.append(('C19|REST send/update refused a well-formed request|%s' % name.split('-')[1], {'status': st, 'json': js}))
        else:
            try:
                reestablish(w, payload)
            except (W.ReplayDivergence, explore.HarnessError) as e:
                # the session did not end / did not come back the way this kind of drop must go: the agent is not where the
                # operations so far must have brought it (on a correct tree this cannot happen)
                viol.append(('C19|session drop (%s) did not go its way after %s' % (payload, '-'.join((hist[i - 1] if i else 'start').split('-')[:2])),
                             {'error': str(e)[:200], 'history': list(hist[:i + 1])}))
                return viol, (model.key(), 'diverged'), list(w.exceptions)
            obs = []
        model.apply(eff)
        if i != len(hist) - 1:
            continue
        if w.reported_state() != 'ESTABLISHED':
            viol.append(('C19|session not Established after %s' % kind, None))
            continue
        after = observe(w)
        cls = name if kind == 'drop' else '-'.join(name.split('-')[:3 if ('fs' in name or 'vpn' in name) else 2])
        # Adj-RIB-In equals the model
        want_in = {(P[k][0] if k in P else P3[0]): MEDS[a] for k, a in model.tab[('in', 'ipv4')].items()}
        if after['rib_in'] != want_in:
            viol.append(('C19|Adj-RIB-In differs from the model after %s' % cls, {'want': want_in, 'got': after['rib_in']}))
        want_out = {P[k][0]: MEDS[a] for k, a in model.tab[('out', 'ipv4')].items()}
        if after['rib_out'] != want_out:
            viol.append(('C19|Adj-RIB-Out differs from the model after %s' % cls, {'want': want_out, 'got': after['rib_out']}))
        if kind == 'drop':
            if getattr(w, 'rib_after_drop', {}):
                viol.append(('C19|Adj-RIB-In not empty right after the session dropped', {'left': sorted(w.rib_after_drop)}))
            continue       # a new connection restarts its counters; only the emptied RIB is required
        # version increments of this one operation
        for side, key in (('in', 'ver_in'), ('out', 'ver_out')):
            for fam in ('ipv4', 'flowspec', 'sr_policy', 'mpls_vpn'):
                want = model.ver[(side, fam)] - mv_before[(side, fam)]
                got = after[key][fam] - before[key][fam]
                if want != got:
                    viol.append(('C19|%s version of %s changed by %+d instead of %+d after %s' % (
                        'received' if side == 'in' else 'sent', fam, got, want, cls),
                        {'history': list(hist)}))
    return viol, (model.key(), impl_fingerprint(w)), list(w.exceptions)


def expand(args):
    group, hist = args
    out = []
    for name in ops(group):
        h = hist + (name,)
        v, k, ex = run_history(group, h)
        if ex:
            v.append(('C19|exception escaped during %s' % name.split('-')[0], {'exc': ex}))
        out.append((name, v, k))
    return out


def run(tier, seed):
    tm = report.Timer()
    col = report.Collector(PROP)
    depth = {'quick': {'ipv4': 4, 'flowspec': 4, 'vpn': 4, 'mixed': 4, 'ibgp': 4}, 'thorough': {'ipv4': 6, 'flowspec': 7, 'vpn': 7, 'mixed': 7, 'ibgp': 7}}[tier]
    states = transitions = 0
    samples = []
    levels = {}
    for group in ('ipv4', 'flowspec', 'vpn', 'mixed', 'ibgp'):
        seen = {(Model().key(), None): ()}
        frontier = [()]
        for d in range(depth[group]):
            res = explore.pmap(expand, [(group, h) for h in frontier])
            nxt = []
            for h, succ in zip(frontier, res):
                for name, v, k in succ:
                    transitions += 1
                    hh = h + (name,)
                    for key, det in v:
                        col.add(key, {'group': group, 'history': list(hh)}, det)
                    k = (k, name)        # every (model state, last operation) pair is expanded
                    if k not in seen:
                        seen[k] = hh
                        nxt.append(hh)
            frontier = nxt
            levels.setdefault(group, []).append(len(nxt))
        states += len(seen)
        samples.append({'group': group, 'history': list(sorted(seen.values(), key=lambda x: (-len(x), x))[0])})
    # RIB maintenance on: two sends in two worker threads / a send and a received UPDATE (vf/threads.py, vf/concurrent.py)
    from .. import concurrent
    cts = concurrent.tasks(PROP, tier)
    classes = set()
    for t, (n, viol, cl) in zip(cts, explore.pmap(concurrent.task3, cts, chunk=1)):
        transitions += n
        classes |= cl
        for k, det in viol:
            col.add(k, {x: det[x] for x in det if x in ('specs', 'start', 'cuts', 'label', 'bound', 'cold')}, det)
    explore.close_pool()
    n_new, n_known, summary = col.finish('c19-history')
    cov = {
        'thread_interleavings': concurrent.coverage(classes)[1],
        'states': states, 'transitions': transitions, 'traces_validated_against_impl': transitions,
        'samples': samples, 'max_depth': depth, 'new_states_per_level': levels,
        'explanation': 'operation alphabets per family group (received announce / withdraw / announce+withdraw / re-announce same and '
                       'different attributes over 2 prefixes (+ one non-octet prefix in its canonical and two trailing-bit encodings), 2 flowspec rules, 2 VPNv4 routes; malformed UPDATEs carrying the same routes (no effect allowed); an iBGP group with repeated identical sends with and without LOCAL_PREF; REST send/update of the same shapes; '
                       'DROP = peer closes and the cooperative script re-establishes); all sequences to the stated depth de-duplicated '
                       'on (dictionary model state, last operation); after every operation Adj-RIB-In/Out and the per-family version increments '
                       '(read through GET version/<action> and POST adj-rib-out) must equal the model\'s',
        'violation_keys': summary,
    }
    report.write_evidence(PROP, tier, seed, 'model_checking', cov, report.ASSUMPTIONS_E1, tm.wall(), n_new)
    return 1 if n_new else 0


def replay(path):
    import json
    d = json.load(open(path))
    w = d['witness']
    if '|threads|' in d['key']:
        from .. import concurrent
        return concurrent.cli_replay(PROP, d)
    a, b = report.twice(run_history, w['group'], tuple(w['history']))
    if repr(a) != repr(b):
        print('HARNESS-ERROR: replay is not deterministic')
        return 2
    print('group', w['group'], 'operations', w['history'])
    for k, det in a[0]:
        print(k, det)
    return 1 if d['key'] in [k for k, _ in a[0]] else 0
