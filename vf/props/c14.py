"""C14 - OPEN, NOTIFICATION, KEEPALIVE and ROUTE-REFRESH encode and decode faithfully (DESIGN 7, C14).
Engine E3: small-scope exhaustive input shapes; round trip through yabgp's own encoder + decoder, and
decoding of the reference encoder's output for every capability combination / ordering / packaging."""
import itertools
import struct

from .. import explore, report, budget
from ..ref import wire

PROP = 'C14'
AS_VALUES = (1, 23456, 65535, 65536, 2 ** 31, 2 ** 32 - 1)
HOLDS = (0, 1, 3, 255, 256, 65535)
IDS = (1, 0x0A000001, 0x7FFFFFFF, 0x80000000, 0xFFFFFFFF,
       # boundaries of the IPv4 address classes / special ranges (RFC 6286: any non-zero 32-bit value is a BGP identifier)
       0x7F000001, 0xA9FE0001, 0xBFFFFFFF, 0xC0000000, 0xDFFFFFFF, 0xE0000000, 0xE0000001, 0xEFFFFFFF, 0xF0000000, 0xFFFFFFFE)
ADD_PATH = (None, 'ipv4_receive', 'ipv4_send', 'ipv4_both')
AFIS = [(1, 1), (2, 1), (1, 128)]
DIR = {1: 'receive', 2: 'send', 3: 'both'}
NAME = {(1, 1): 'ipv4', (1, 2): 'ipv4_mcast', (2, 1): 'ipv6', (1, 4): 'ipv4_lu', (2, 4): 'ipv6_lu', (1, 133): 'flowspec',
        (1, 128): 'vpnv4', (2, 128): 'vpnv6', (25, 70): 'evpn', (16388, 71): 'bgpls', (1, 73): 'ipv4_srte', (2, 133): 'ipv6_flowspec'}


def dotted(i):
    return '%d.%d.%d.%d' % (i >> 24 & 255, i >> 16 & 255, i >> 8 & 255, i & 255)


def norm(x):
    if isinstance(x, dict):
        return {str(k): norm(v) for k, v in x.items()}
    if isinstance(x, (list, tuple)):
        return [norm(v) for v in x]
    return x


# ------------------------------------------------------------------ half 1: yabgp construct -> yabgp parse
def expected_from_inputs(asn, hold, bgp_id, caps):
    exp = {}
    if caps.get('afi_safi'):
        exp['afi_safi'] = [tuple(x) for x in caps['afi_safi']]
    for k in ('cisco_route_refresh', 'route_refresh', 'enhanced_route_refresh'):
        if caps.get(k):
            exp[k] = True
    if caps.get('four_bytes_as') or asn > 65535:
        exp['four_bytes_as'] = True
    if 'ext_nexthop' in caps:
        exp['ext_nexthop'] = [{'afi_safi': list(e['afi_safi']), 'nexthop_afi': e['nexthop_afi']} for e in caps['ext_nexthop']]
    if caps.get('add_path'):
        exp['add_path'] = [{'afi_safi': 'ipv4', 'send/receive': caps['add_path'].split('_')[1]}]
    return {'version': 4, 'asn': asn, 'hold_time': hold, 'bgp_id': dotted(bgp_id), 'capabilities': exp}


def roundtrip_cases(tier):
    keys = ['afi0', 'afi1', 'afi2', 'afi3', 'route_refresh', 'cisco_route_refresh', 'four_bytes_as', 'ext_nexthop',
            'enhanced_route_refresh']
    capsets = []
    for afn in (None, 0, 1, 2, 3):
        for rr, crr, fb, en, err in itertools.product((False, True), repeat=5):
            for ap in ADD_PATH:
                c = {}
                if afn is not None:
                    c['afi_safi'] = AFIS[:afn]
                if rr:
                    c['route_refresh'] = True
                if crr:
                    c['cisco_route_refresh'] = True
                c['four_bytes_as'] = fb
                if en:
                    c['ext_nexthop'] = [{'afi_safi': [1, 1], 'nexthop_afi': 2}, {'afi_safi': [1, 128], 'nexthop_afi': 2}]
                if err:
                    c['enhanced_route_refresh'] = True
                c['add_path'] = ap
                capsets.append(c)
    cases = []
    for c in capsets:
        for asn in ((1, 65536) if tier == 'quick' else AS_VALUES):
            cases.append((asn, 180, 0x0A000001, c))
    rep = capsets[37]
    for asn, hold, i in itertools.product(AS_VALUES, HOLDS, IDS):
        cases.append((asn, hold, i, rep))
        cases.append((asn, hold, i, {}))
    for hold in range(0, 65536, 1 if tier == 'thorough' else 17):
        cases.append((65001, hold, 0x0A000001, rep))
    # more capabilities than the one-octet Optional Parameters Length holds (> 255 octets): the encoder may refuse, or must build an
    # OPEN that still says what was asked (the true AS number in particular)
    for n_en in (38, 42, 60):
        big = {'afi_safi': AFIS[:3], 'route_refresh': True, 'cisco_route_refresh': True, 'four_bytes_as': True, 'enhanced_route_refresh': True,
               'ext_nexthop': [{'afi_safi': [1, (1, 128, 4)[i % 3]], 'nexthop_afi': 2} for i in range(n_en)], 'add_path': ADD_PATH[-1]}
        for asn in (65001, 65536, 4200000000):
            cases.append((asn, 180, 0x0A000001, big))
    return cases


def task_roundtrip(chunk):
    from yabgp.message.open import Open
    v = []
    classes = set()
    mark, prev = 0, None
    for asn, hold, bid, caps in chunk:
        _tag(v, mark, 'rt', prev)
        mark, prev = len(v), (asn, hold, bid, caps)
        want = expected_from_inputs(asn, hold, bid, caps)
        cls = ('asn>65535' if asn > 65535 else 'asn<=65535', 'no-optional-parameters' if not want['capabilities'] else 'caps',
               'add_path' if caps.get('add_path') else '-', 'afi%d' % len(caps.get('afi_safi') or ()))
        classes.add(cls + (tuple(sorted(want['capabilities'])),))
        st, val, steps = budget.run(20000, lambda: Open(version=4, asn=asn, hold_time=hold, bgp_id=bid).construct(dict(caps)))
        oversize = len(caps.get('ext_nexthop') or ()) >= 38
        if oversize and st == 'raise':
            continue            # refused: these do not fit behind a one-octet length
        if oversize and st == 'ok':
            # built after all (something was left out to make it fit): whatever was left out, the AS number, hold time and identifier
            # are those asked for - in the fixed fields and in the 4-octet-AS capability
            try:
                ref = wire.parse_open(val[19:])
                as4 = [c for c in ref.get('caps', []) if c[0] == 65]
                said = struct.unpack('!I', as4[0][1])[0] if as4 else ref['asn']
                if said != asn or ref['hold'] != hold or ref['bgp_id'] != bid:
                    v.append(('C14|open|oversize capability set|constructed OPEN carries other values (reference decode)',
                              {'asn': asn, 'hold': hold, 'bgp_id': bid, 'announced_as': said, 'hex': val.hex()[:200]}))
            except (ValueError, struct.error, KeyError, IndexError) as e:
                v.append(('C14|open|oversize capability set|constructed OPEN does not parse: %s' % e, {'hex': val.hex()[:200]}))
            continue
        if st != 'ok':
            v.append(('C14|open|%s|construct: %s' % ('/'.join(cls), 'overrun' if st == 'overrun' else 'exception:' + type(val).__name__),
                      {'asn': asn, 'hold': hold, 'bgp_id': bid, 'caps': caps}))
            continue
        msg = val
        try:
            ref = wire.parse_open(msg[19:])
            if ref['asn'] != asn or ref['hold'] != hold or ref['bgp_id'] != bid:
                v.append(('C14|open|%s|constructed OPEN carries other values (reference decode)' % '/'.join(cls),
                          {'asn': asn, 'hold': hold, 'bgp_id': bid, 'ref': {k: ref[k] for k in ('asn', 'hold', 'bgp_id')}}))
        except ValueError as e:
            v.append(('C14|open|%s|constructed OPEN does not parse: %s' % ('/'.join(cls), e), {'hex': msg.hex()}))
        st, got, steps = budget.run(20000, lambda: Open().parse(msg[19:]))
        if st != 'ok':
            v.append(('C14|open|%s|parse: %s' % ('/'.join(cls), 'overrun' if st == 'overrun' else 'exception:' + type(got).__name__),
                      {'asn': asn, 'hold': hold, 'caps': caps, 'hex': msg.hex()}))
            continue
        if norm(got) != norm(want):
            if got is None:
                sym = 'diff:returns None'
            else:
                d = [k for k in want if norm(got.get(k)) != norm(want[k])]
                if d == ['capabilities']:
                    gc, wc = norm(got['capabilities']), norm(want['capabilities'])
                    d = ['capabilities.' + k for k in sorted(set(gc) | set(wc)) if gc.get(k) != wc.get(k)]
                sym = 'diff:' + ','.join(d)
            v.append(('C14|open|%s|%s' % ('/'.join(cls), sym), {'asn': asn, 'hold': hold, 'bgp_id': bid, 'caps': caps, 'got': got, 'want': want}))
    _tag(v, mark, 'rt', prev)
    return len(chunk), v, classes


def _tag(v, start, which, case):
    """attach the single case (picklable, exact) to the violations it produced"""
    for k, det in v[start:]:
        det['case'] = report.pack((which, [case]))


# ------------------------------------------------------------------ half 2: reference encoder -> yabgp parse
def cap_items():
    """(label, encoded capability, function applying the documented decoded contribution to a dict)"""
    items = []

    def mp(a, s):
        def f(d):
            d.setdefault('afi_safi', []).append((a, s))
        return ('mp%d/%d' % (a, s), wire.cap_mp(a, s), f)
    for a, s in AFIS:
        items.append(mp(a, s))

    def flag(code, key, value=b''):
        return (key, wire.cap(code, value), lambda d: d.__setitem__(key, True))
    items.append(flag(2, 'route_refresh'))
    items.append(flag(128, 'cisco_route_refresh'))
    items.append(flag(70, 'enhanced_route_refresh'))
    items.append(('graceful_restart', wire.cap_gr(0x4078, [(1, 1, 0x80)]), lambda d: d.__setitem__('graceful_restart', True)))
    items.append(('as4', None, lambda d: d.__setitem__('four_bytes_as', True)))       # value filled per case

    def ap(entries):
        def f(d):
            for a, s, x in entries:
                d.setdefault('add_path', []).append({'afi_safi': NAME[(a, s)], 'send/receive': DIR[x]})
        return ('addpath' + '+'.join('%d/%d:%d' % e for e in entries), wire.cap_addpath(entries), f)
    items.append(ap([(1, 1, 3)]))
    items.append(ap([(2, 1, 1), (1, 128, 2)]))
    en = [(1, 1, 2), (1, 128, 2)]
    items.append(('ext_nexthop', wire.cap_ext_nh(en),
                  lambda d: d.__setitem__('ext_nexthop', [{'afi_safi': [a, s], 'nexthop_afi': n} for a, s, n in en])))
    ll = [(1, 1, 0, 3600), (2, 1, 0x80, 0xFFFFFF)]
    items.append(('LLGR', wire.cap_llgr(ll), lambda d: d.__setitem__('LLGR', [{'afi_safi': [a, s], 'time': t} for a, s, f_, t in ll])))
    for code in (0, 3, 67, 200):
        for ln in range(0, 4):
            val = bytes(range(1, ln + 1))
            items.append(('unknown%d/%d' % (code, ln), wire.cap(code, val),
                          (lambda c, vv: (lambda d: d.__setitem__(str(c), repr(vv))))(code, val)))
    return items


def ref_cases(tier):
    items = cap_items()
    base = [i for i, it in enumerate(items) if not it[0].startswith('unknown')]            # 12 items
    unk = [i for i, it in enumerate(items) if it[0].startswith('unknown')]
    combos = []
    for r in range(0, len(base) + 1):
        for sub in itertools.combinations(base, r):
            combos.append(sub)
            if 0 < r <= 4 and (tier == 'thorough' or r <= 3):
                for perm in itertools.permutations(sub):
                    if perm != sub:
                        combos.append(perm)
            elif r > 4:
                for k in range(1, r, 1 if tier == 'thorough' else 3):
                    combos.append(sub[k:] + sub[:k])
                combos.append(sub[::-1])
    # unknown codes: alone, in pairs, and between known ones
    for u in unk:
        combos.append((u,))
        combos.append((base[0], u, base[3]))
        combos.append((u, base[7]))
    for u1, u2 in itertools.combinations(unk, 2):
        if tier == 'thorough' or (u1 + u2) % 5 == 0:
            combos.append((u1, u2))
    cases = []
    for c in combos:
        for pk in ('one_each', 'all_in_one', 'mixed'):
            for asn in (65002, 4200000000):
                cases.append((c, pk, asn))
    return cases


def task_ref(chunk):
    from yabgp.message.open import Open
    items = cap_items()
    v = []
    classes = set()
    mark, prev = 0, None
    for combo, pk, asn in chunk:
        _tag(v, mark, 'ref', prev)
        mark, prev = len(v), (combo, pk, asn)
        enc = []
        want_caps = {}
        has_as4 = False
        for i in combo:
            label, data, f = items[i]
            if label == 'as4':
                data = wire.cap_as4(asn)
                has_as4 = True
            enc.append(data)
            f(want_caps)
        if asn > 65535 and not has_as4:
            enc.append(wire.cap_as4(asn))
            want_caps['four_bytes_as'] = True
            has_as4 = True
        asn2 = asn if asn <= 65535 else 23456
        body = wire.open_body(asn2, 90, 0x0A000002, wire.opt_params(enc, pk))
        want = {'version': 4, 'asn': asn, 'hold_time': 90, 'bgp_id': '10.0.0.2', 'capabilities': want_caps}
        labels = tuple(items[i][0] for i in combo)
        kinds = tuple(sorted(set(l.split('/')[0].rstrip('0123456789') if l.startswith('unknown') else
                                 ('mp' if l.startswith('mp') else 'addpath' if l.startswith('addpath') else l) for l in labels)))
        cls = ('n=%d' % len(combo) if len(combo) < 3 else 'n>=3', pk, 'no-optional-parameters' if not enc else 'caps')
        classes.add(cls + (kinds,))
        st, got, steps = budget.run(300 + 60 * len(body), lambda: Open().parse(body))
        if st != 'ok':
            v.append(('C14|open-ref|%s|parse: %s' % ('+'.join(kinds) or 'none', 'overrun' if st == 'overrun' else 'exception:' + type(got).__name__),
                      {'caps': labels, 'packaging': pk, 'hex': body.hex(), 'error': None if st == 'overrun' else str(got)[:200]}))
            continue
        if norm(got) != norm(want):
            if got is None:
                sym = 'diff:returns None'
            else:
                d = [k for k in want if norm(got.get(k)) != norm(want[k])]
                if d == ['capabilities']:
                    gc, wc = norm(got['capabilities']), norm(want['capabilities'])
                    d = ['capabilities.' + k for k in sorted(set(gc) | set(wc)) if gc.get(k) != wc.get(k)]
                sym = 'diff:' + ','.join(d)
            v.append(('C14|open-ref|%s|%s|%s' % ('+'.join(kinds) or 'none', pk, sym),
                      {'caps': labels, 'packaging': pk, 'hex': body.hex(), 'got': got, 'want': want}))
    _tag(v, mark, 'ref', prev)
    return len(chunk), v, classes


# ------------------------------------------------------------------ half 3: the OPEN the application is told about
SESSION_CFGS = [{}, {'four_bytes_as': False}, {'four_bytes_as': False, 'route_refresh': False, 'cisco_route_refresh': False},
                {'local_as': 4200000000}, {'local_as': 65536, 'four_bytes_as': False}, {'local_as': 65535},
                {'add_path': 'ipv4_both'}, {'add_path': 'ipv4_receive'}, {'add_path': 'ipv4_send'}]


def session_cases(tier):
    items = cap_items()
    base = [i for i, it in enumerate(items) if not it[0].startswith('unknown')]
    combos = [()] + [(i,) for i in base] + [tuple(base[:k]) for k in (3, 6, len(base))] + [tuple(base[::-1])]
    if tier == 'thorough':
        combos += list(itertools.combinations(base, 2))
    return [(ci, c, pk, asn) for ci in range(len(SESSION_CFGS)) for c in combos for pk in ('one_each', 'all_in_one') for asn in (65002, 4200000000)]


def task_session(chunk):
    """a reference OPEN through dataReceived in OpenSent: what handler.open_received is handed must be what Open.parse decodes
    from those octets and what the reference encoder put in - whatever the local configuration is"""
    import copy
    from .. import world as W
    items = cap_items()
    v = []
    classes = set()
    mark, prev = 0, None
    for ci, combo, pk, asn in chunk:
        _tag(v, mark, 'session', prev)
        mark, prev = len(v), (ci, combo, pk, asn)
        enc, want_caps, has_as4 = [], {}, False
        for i in combo:
            label, data, f = items[i]
            if label == 'as4':
                data = wire.cap_as4(asn)
                has_as4 = True
            enc.append(data)
            f(want_caps)
        if asn > 65535 and not has_as4:
            enc.append(wire.cap_as4(asn))
            want_caps['four_bytes_as'] = True
        body = wire.open_body(asn if asn <= 65535 else 23456, 90, 0x0A000002, wire.opt_params(enc, pk))
        cfg = dict(SESSION_CFGS[ci], remote_as=asn)
        w = W.AgentWorld(cfg)
        got, sent = [], []
        w.handler.open_received = lambda peer, ts, m: got.append(copy.deepcopy(m))
        w.handler.send_open = lambda peer, ts, m: sent.append(copy.deepcopy(m))
        w.step(('TICK', 0))
        w.step(('CONN_OK', 0))
        # what the agent reports about its own OPEN is what it wrote (true AS number, not AS_TRANS)
        if len(sent) == 1:
            la = cfg.get('local_as', 65001)
            if sent[0].get('asn') != la or sent[0].get('hold_time') != 180 or sent[0].get('bgp_id') != '10.0.0.1':
                v.append(('C14|open-session|cfg%d|the OPEN reported to handler.send_open differs from the OPEN written' % ci,
                          {'cfg': cfg, 'reported': {k: sent[0].get(k) for k in ('asn', 'hold_time', 'bgp_id')}, 'written': {'asn': la, 'hold_time': 180, 'bgp_id': '10.0.0.1'}}))
        else:
            v.append(('C14|open-session|cfg%d|handler.send_open called %d times for one OPEN' % (ci, len(sent)), {'cfg': cfg}))
        w.step(('RX', 0, wire.frame(wire.OPEN, body)))
        labels = tuple(items[i][0] for i in combo)
        cls = ('cfg%d' % ci, pk, 'as4' if asn > 65535 else 'as2', len(combo))
        classes.add(cls + (len(got),))
        if len(got) != 1:
            # refused OPENs are C05's business; an accepted-but-unreported one is not
            if w.reported_state() == 'OPENCONFIRM':
                v.append(('C14|open-session|OPEN accepted but not reported to the application|cfg%d' % ci, {'caps': labels, 'cfg': cfg, 'hex': body.hex()}))
            continue
        want = {'version': 4, 'asn': asn, 'hold_time': 90, 'bgp_id': '10.0.0.2', 'capabilities': want_caps}
        if norm(got[0]) != norm(want):
            d = [k for k in want if norm(got[0].get(k)) != norm(want[k])]
            if d == ['capabilities']:
                gc, wc = norm(got[0]['capabilities']), norm(want['capabilities'])
                d = ['capabilities.' + k for k in sorted(set(gc) | set(wc)) if gc.get(k) != wc.get(k)]
            v.append(('C14|open-session|cfg%d|the OPEN handed to the application differs from the OPEN received: %s' % (ci, ','.join(d)),
                      {'caps': labels, 'packaging': pk, 'cfg': cfg, 'hex': body.hex(), 'got': got[0], 'want': want}))
            continue
        # what the session makes of it: 4-octet AS numbers iff both sides announced them (RFC 6793 4.1), wherever in the list the
        # capability stands
        p = w.fsm.protocol
        t0 = w.sim.connectors[0].transport
        we_announced = any(wire.cap_as4(cfg.get('local_as', 65001)) in d for _, d in t0.writes)      # read off the OPEN the agent wrote
        expect_as4 = bool(want_caps.get('four_bytes_as')) and we_announced
        if p is not None and bool(p.fourbytesas) != expect_as4:
            v.append(('C14|open-session|cfg%d|AS-number width of the session does not follow from the two OPENs' % ci,
                      {'caps': labels, 'packaging': pk, 'cfg': cfg, 'hex': body.hex(), 'four_octet_mode': bool(p.fourbytesas), 'both_announced': expect_as4}))
            continue
        # a second OPEN on the same connection (OpenConfirm): whatever the FSM does with it, nothing of it may be merged into what
        # was decoded from the first - neither in a second report nor in the remote capabilities the agent keeps, nor in the
        # AS-number width (the second OPEN says the opposite of the first about 4-octet AS numbers where it can)
        flip_as4 = (asn > 65535) or not want_caps.get('four_bytes_as')
        from oslo_config import cfg as ocfg
        before = norm(copy.deepcopy(ocfg.CONF.bgp.running_config['capability']['remote']))
        second = wire.open_body(asn if asn <= 65535 else 23456, 90, 0x0A000002,
                                wire.opt_params([wire.cap_mp(2, 1), wire.cap(73, b'\x01\x02'), wire.cap_addpath([(2, 1, 1)])] + ([wire.cap_as4(asn)] if flip_as4 else []), pk))
        w.step(('RX', 0, wire.frame(wire.OPEN, second)))
        if w.reported_state() == 'OPENCONFIRM':
            after = norm(copy.deepcopy(ocfg.CONF.bgp.running_config['capability']['remote']))
            alone = {'afi_safi': [(2, 1)], '73': repr(b'\x01\x02'), 'add_path': [{'afi_safi': 'ipv6', 'send/receive': 'receive'}]}
            if flip_as4:
                alone['four_bytes_as'] = True
            if w.fsm.protocol is not None and bool(w.fsm.protocol.fourbytesas) != expect_as4:
                v.append(('C14|open-session|cfg%d|a second OPEN in OpenConfirm changes the AS-number width of the session' % ci,
                          {'caps': labels, 'cfg': cfg, 'first_open_announced_4_octet': bool(want_caps.get('four_bytes_as')), 'second_open_announced_4_octet': flip_as4,
                           'four_octet_mode': bool(w.fsm.protocol.fourbytesas)}))
            if after != before and after != norm(alone):
                v.append(('C14|open-session|cfg%d|a second OPEN in OpenConfirm is merged into the capabilities decoded from the first' % ci,
                          {'caps': labels, 'cfg': cfg, 'before': before, 'after': after}))
            if len(got) == 2 and norm(got[1].get('capabilities')) != norm(alone):
                v.append(('C14|open-session|cfg%d|the second OPEN is reported with capabilities it did not carry' % ci,
                          {'caps': labels, 'cfg': cfg, 'reported': got[1].get('capabilities'), 'carried': alone}))
    _tag(v, mark, 'session', prev)
    return len(chunk), v, classes


def optlen_cases():
    """Optional Parameters Length = every value a classic RFC 4271 OPEN can carry (0, 2..255), filled with unknown capabilities"""
    out = []
    for total in [0] + list(range(2, 256)):
        for pk in ('one_param', 'two_params'):
            out.append((total, pk))
    return out


def task_optlen(chunk):
    from yabgp.message.open import Open
    v = []
    classes = set()
    for total, pk in chunk:
        def param(n, code):       # one optional parameter of n octets (n >= 2): type 2, a capability with an (n-4)-octet value
            if n < 4:
                return bytes([2, n - 2]) + bytes([code] * (n - 2)) if n == 2 else None
            return bytes([2, n - 2, code, n - 4]) + bytes((i * 3 + 1) & 255 for i in range(n - 4))
        if total == 0:
            params, want = b'', {}
        elif pk == 'one_param' or total < 8:
            if total == 3:
                continue
            params = param(total, 200)
            want = {'200': repr(params[4:])} if total >= 4 else {}
        else:
            a = total // 2
            b = total - a
            if a < 4 or b < 4:
                continue
            params = param(a, 200) + param(b, 201)
            want = {'200': repr(params[4:a]), '201': repr(params[a + 4:])}
        if params is None or len(params) != total:
            continue
        body = struct.pack('!BHHIB', 4, 65002, 90, 0x0A000002, total) + params
        st, got, steps = budget.run(300 + 60 * len(body), lambda: Open().parse(body))
        classes.add(('optlen', total >= 255, total % 2, pk, st))
        if st != 'ok':
            v.append(('C14|open-ref|optional-parameters-length=%s|parse: %s' % (total if total >= 250 else 'n', 'overrun' if st == 'overrun' else 'exception:' + type(got).__name__),
                      {'total': total, 'hex': body.hex(), 'error': None if st == 'overrun' else str(got)[:200], 'case': report.pack(('optlen', [(total, pk)]))}))
            continue
        if norm(got.get('capabilities')) != norm(want) or got.get('asn') != 65002:
            v.append(('C14|open-ref|optional-parameters-length=%s|diff:capabilities' % (total if total >= 250 else 'n'),
                      {'total': total, 'hex': body.hex(), 'got': got, 'want': want, 'case': report.pack(('optlen', [(total, pk)]))}))
    return len(chunk), v, classes


# ------------------------------------------------------------------ NOTIFICATION / ROUTE-REFRESH / KEEPALIVE
def task_small(args):
    from yabgp.message.notification import Notification
    from yabgp.message.route_refresh import RouteRefresh
    from yabgp.message.keepalive import KeepAlive
    kind, lo, hi = args
    v = []
    n = 0
    classes = set()
    if kind == 'notif':
        for code in range(lo, hi):
            for sub in range(256):
                # the largest data fields a 4096-octet message can carry, for three subcodes per code
                for dl in (0, 1, 2, 20) + ((4074, 4075) if sub in (0, 1, 255) else ()):
                    data = bytes((i * 7 + code) & 255 for i in range(dl))
                    n += 1
                    try:
                        m = Notification().construct(code, sub, data)
                        ok = m == wire.notification(code, sub, data)
                        got = Notification.parse(m[19:])
                    except Exception as e:    # noqa
                        v.append(('C14|notification|exception:%s' % type(e).__name__, {'code': code, 'sub': sub, 'len': dl}))
                        continue
                    classes.add(('notif', code in (1, 2, 3, 4, 5, 6), dl))
                    if not ok:
                        v.append(('C14|notification|constructed bytes differ from the reference encoding', {'code': code, 'sub': sub, 'hex': m.hex()}))
                    if tuple(got) != (code, sub, data):
                        v.append(('C14|notification|diff:decoded values', {'code': code, 'sub': sub, 'got': got}))
    elif kind == 'rr':
        pairs = [(1, 1), (1, 2), (2, 1), (1, 4), (2, 4), (1, 133), (1, 128), (2, 128), (25, 70), (16388, 71), (1, 73), (2, 133),
                 (0, 0), (65535, 255), (0, 255), (65535, 0)]
        for (afi, safi), res, ty in itertools.product(pairs, (0, 255), (5, 128)):
            n += 1
            try:
                m = RouteRefresh(afi, safi, res).construct(ty)
                got = RouteRefresh().parse(m[19:])
            except Exception as e:     # noqa
                v.append(('C14|route-refresh|exception:%s' % type(e).__name__, {'afi': afi, 'safi': safi, 'res': res, 'type': ty}))
                continue
            classes.add(('rr', ty, res, afi > 255))
            if m != wire.route_refresh(afi, safi, res, ty):
                v.append(('C14|route-refresh|constructed bytes differ from the reference encoding', {'afi': afi, 'safi': safi, 'hex': m.hex()}))
            if tuple(got) != (afi, res, safi):
                v.append(('C14|route-refresh|diff:decoded values', {'afi': afi, 'safi': safi, 'res': res, 'got': got}))
    else:
        n += 1
        m = KeepAlive().construct()
        classes.add(('ka',))
        if m != wire.keepalive():
            v.append(('C14|keepalive|constructed bytes differ from the reference encoding', {'hex': m.hex()}))
        try:
            KeepAlive.parse(m[19:])
        except Exception as e:   # noqa
            v.append(('C14|keepalive|exception:%s' % type(e).__name__, None))
    return n, v, classes


def _dispatch(t):
    if t[0] == 'threads':
        from .. import concurrent
        return concurrent.task3(t[1])
    return {'rt': task_roundtrip, 'ref': task_ref, 'small': task_small, 'session': task_session, 'optlen': task_optlen}[t[0]](t[1])


def run(tier, seed):
    tm = report.Timer()
    col = report.Collector(PROP)
    tasks = []
    rt = roundtrip_cases(tier)
    rf = ref_cases(tier)
    for i in range(0, len(rt), 500):
        tasks.append(('rt', rt[i:i + 500]))
    for i in range(0, len(rf), 500):
        tasks.append(('ref', rf[i:i + 500]))
    sc = session_cases(tier)
    for i in range(0, len(sc), 40):
        tasks.append(('session', sc[i:i + 40]))
    ol = optlen_cases()
    for i in range(0, len(ol), 128):
        tasks.append(('optlen', ol[i:i + 128]))
    for lo in range(0, 256, 16):
        tasks.append(('small', ('notif', lo, lo + 16)))
    tasks.append(('small', ('rr', 0, 0)))
    tasks.append(('small', ('ka', 0, 0)))
    # these messages are built by the reactor thread while REST worker threads build UPDATEs: every schedule of two threads with one
    # preemption, warm and from a cold start (vf/threads.py, vf/concurrent.py)
    from .. import concurrent
    tasks += [('threads', a) for a in concurrent.tasks(PROP, tier)]
    res = explore.pmap(_dispatch, tasks, chunk=1)
    explore.close_pool()
    total = 0
    classes = set()
    for t, (n, v, cl) in zip(tasks, res):
        total += n
        classes |= cl
        for k, det in v:
            det = det if isinstance(det, dict) else {}
            col.add(k, det, {x: y for x, y in det.items() if x != 'case'}, task=t if t[0] in ('small', 'threads') else None)
    n_new, n_known, summary = col.finish('c14-case')
    classes, interleavings = concurrent.coverage(classes)
    cov = {
        'thread_interleavings': interleavings,
        'evaluations': total, 'distinct_nontrivial': len(classes),
        'rule': 'round-trip half: every subset of the capability keys the encoder supports (afi_safi with None/0/1/2/3 families, '
                'route_refresh, cisco_route_refresh, four_bytes_as, ext_nexthop, enhanced_route_refresh, add_path x 4) x AS values, the '
                'AS x hold x identifier boundary product, every hold time; reference half: every subset of 12 capability kinds in '
                'canonical order, all permutations of subsets of <= %d, rotations and reversal beyond, unknown codes {0,3,67,200} with '
                'value lengths 0..3, x 3 packagings x 2- and 4-octet AS; every Optional Parameters Length 0, 2..255 filled with unknown capabilities; reference OPENs through dataReceived under 3 local configurations, the message handed to handler.open_received compared with the reference; NOTIFICATION: all 65536 (code, subcode) x data length '
                '{0,1,2,20}, every code x subcode {0,1,255} also with 4074 and 4075 data octets (message of 4096); ROUTE-REFRESH: 16 AFI/SAFI x reserved x both types; KEEPALIVE. distinct = (shape class, capability kinds)'
                % (4 if tier == 'thorough' else 3),
        'samples': [{'half': 'round-trip', 'asn': c[0], 'hold': c[1], 'bgp_id': c[2], 'caps': c[3]} for c in report.pick(rt, seed, 2)]
        + [{'half': 'reference', 'caps': [cap_items()[i][0] for i in c[0]], 'packaging': c[1], 'asn': c[2]} for c in report.pick(rf, seed, 2)],
        'roundtrip_cases': len(rt), 'reference_cases': len(rf), 'session_cases': len(sc), 'optional_parameter_length_cases': len(ol), 'exhaustive': True, 'violation_keys': summary,
    }
    report.write_evidence(PROP, tier, seed, 'exploration', cov,
                          ['reference OPEN encoder/decoder in vf/ref/wire.py (RFC 4271, 5492, 2858, 2918, 4724, 6793, 7911, 7313, 8950, 9494)',
                           'documented decoded key mapping taken from yabgp/message/open.py and its unit tests'], tm.wall(), n_new)
    return 1 if n_new else 0


def replay(path):
    import json
    d = json.load(open(path))
    w = d['witness'] or {}
    if '|threads|' in d['key']:
        from .. import concurrent
        return concurrent.cli_replay(PROP, d)
    print(json.dumps(d.get('detail'), indent=1, default=str)[:2000])
    if 'case' in w:
        t = report.unpack(w['case'])
        a, b = report.twice(_dispatch, t)
        if repr(a[1]) != repr(b[1]):
            print('HARNESS-ERROR: replay is not deterministic')
            return 2
        keys = [k for k, _ in a[1]]
        print('violation keys of the case on replay:', keys)
        return 1 if d['key'] in keys else 0
    return report.replay_in_task(d, _dispatch)
