"""C20 - the on-disk message log stays well-formed and gap-free across rotation / restart / crash
(DESIGN 7, C20). Engine E4: every handler-event history up to a bound x rotation thresholds x a restart
after the history, clean or with the last record torn at EVERY byte offset x every continuation, on an
in-memory file system that is itself compared with a real directory."""
import builtins
import itertools
import json
import os as real_os
import shutil
import tempfile

from oslo_config import cfg

from .. import explore, report, fakefs

PROP = 'C20'
CONF = cfg.CONF
PEER = '10.0.0.2'
T0 = 1700000000.0


class Clock(object):
    def __init__(self, advance=True):
        self.now = T0
        self.advance = advance

    def time(self):
        return self.now

    def tick(self):
        if self.advance:
            self.now += 1.0


class FakePeer(object):
    class _F(object):
        peer_addr = PEER
    factory = _F()
    msg_recv_stat = {'Keepalives': 1}


BIG = ['10.%d.%d.0/24' % (i // 256, i % 256) for i in range(700)]
EVENTS = {
    'send_open': lambda h, p, c: h.send_open(p, c.time(), {'version': 4, 'asn': 65001, 'hold_time': 180, 'bgp_id': '10.0.0.1', 'capabilities': {'four_bytes_as': True}}),
    'open_received': lambda h, p, c: h.open_received(p, c.time(), {'version': 4, 'asn': 65002, 'hold_time': 90, 'bgp_id': '10.0.0.2', 'capabilities': {'route_refresh': True}}),
    'update_received': lambda h, p, c: h.update_received(p, c.time(), {'attr': {1: 0, 3: '10.0.0.2'}, 'nlri': ['10.0.0.0/8'], 'withdraw': [], 'afi_safi': 'ipv4'}),
    'on_update_error': lambda h, p, c: h.on_update_error(p, c.time(), {'attr': {}, 'nlri': [], 'withdraw': [], 'hex': "b'\\x00\\x00'"}),
    'keepalive_received': lambda h, p, c: h.keepalive_received(p, c.time()),
    'route_refresh_received': lambda h, p, c: h.route_refresh_received(p, {'afi': 1, 'res': 0, 'safi': 1}, 5),
    'notification_received': lambda h, p, c: h.notification_received(p, {'error': 'Cease', 'sub_error': 'Peer De-configured', 'data': "b''"}),
    'on_connection_lost': lambda h, p, c: h.on_connection_lost(p),
    'on_connection_failed': lambda h, p, c: h.on_connection_failed(PEER, 'Connection refused'),
    'big_update': lambda h, p, c: h.update_received(p, c.time(), {'attr': {1: 0}, 'nlri': BIG, 'withdraw': [], 'afi_safi': 'ipv4'}),
}


def get_event(name):
    """EVENTS plus events whose payload is what the real decoder makes of a message: 'upd:<hex body>:<asn4>' / 'open:<hex body>'"""
    if name in EVENTS:
        return EVENTS[name]
    kind, hx = name.split(':', 1)
    if kind == 'upd':
        from yabgp.message.update import Update
        from yabgp.common import constants as bgp_cons
        hx, a4 = hx.split(':')
        r = Update.parse(None, bytes.fromhex(hx), a4 == '1')
        afi_safi = None
        at = r['attr'] or {}
        if r['nlri'] or r['withdraw']:
            afi_safi = 'ipv4'
        elif isinstance(at.get(14), dict):
            afi_safi = bgp_cons.AFI_SAFI_DICT.get(tuple(at[14]['afi_safi']))
        elif isinstance(at.get(15), dict):
            afi_safi = bgp_cons.AFI_SAFI_DICT.get(tuple(at[15]['afi_safi']))
        payload = {'attr': r['attr'], 'nlri': r['nlri'], 'withdraw': r['withdraw'], 'afi_safi': afi_safi}   # as BGP._update_received builds it
        return lambda h, p, c: h.update_received(p, c.time(), payload)
    if kind == 'open':
        from yabgp.message.open import Open
        payload = Open().parse(bytes.fromhex(hx))
        return lambda h, p, c: h.open_received(p, c.time(), payload)
    raise KeyError(name)


def decoded_payload_events():
    """one event per message of the unit-test corpus (and a few families the tests lack) that the agent's decoder accepts: what
    reaches the log in production is the decoder's output, not a hand-written JSON-clean dict"""
    import struct
    from .. import seeds, budget
    from ..ref import wire
    from yabgp.message.update import Update
    from yabgp.message.open import Open
    out = []
    seen = set()
    bodies = []
    for s_ in seeds.unit_test_bytes():
        for body in (s_, s_[19:] if s_[:16] == b'\xff' * 16 and len(s_) > 19 else None):
            if body is not None and 4 <= len(body) <= 4077:
                bodies.append(body)

    def mp(afi, safi, nlri):
        v = struct.pack('!HBB', afi, safi, 4) + b'\x0a\x00\x00\x01\x00' + nlri
        a = b'\x40\x01\x01\x00\x40\x02\x00' + struct.pack('!BBH', 0x90, 14, len(v)) + v
        return b'\x00\x00' + struct.pack('!H', len(a)) + a

    def unreach(afi, safi, nlri):
        v = struct.pack('!HB', afi, safi) + nlri
        a = struct.pack('!BBH', 0x90, 15, len(v)) + v
        return b'\x00\x00' + struct.pack('!H', len(a)) + a
    for afi, safi in ((1, 16), (1, 2), (2, 2), (3, 1), (25, 65), (16388, 72), (1, 129), (2, 129), (65535, 255)):
        bodies.append(mp(afi, safi, b'\x18\x0a\x01\x01'))
        bodies.append(unreach(afi, safi, b'\x18\x0a\x01\x01'))
    # the largest values a decoder hands out: one 2000- / 3900-octet TLV in a BGP-LS attribute (SID fields decode to integers
    # of any length)
    lsmp = struct.pack('!HBB', 16388, 71, 4) + b'\x0a\x00\x00\x01\x00' + struct.pack('!HH', 1, 21) + b'\x02' + b'\x00' * 7 + b'\x01' + \
            struct.pack('!HH', 256, 8) + struct.pack('!HHI', 512, 4, 65000)
    for t in (1088, 1099, 1158, 1025, 266):
        for ln in (2000, 3900):
            ls = struct.pack('!HH', t, ln) + bytes((i * 7 + 1) & 255 for i in range(ln))
            a = struct.pack('!BBH', 0x90, 14, len(lsmp)) + lsmp + struct.pack('!BBH', 0x90, 29, len(ls)) + ls
            bodies.append(b'\x00\x00' + struct.pack('!H', len(a)) + a)
    for body in bodies:
        for a4 in (True, False):
            st, r, _ = budget.run(200000, Update.parse, None, body, a4)
            if st == 'ok' and isinstance(r, dict) and not r.get('sub_error') and (r['attr'] or r['nlri'] or r['withdraw']):
                name = 'upd:%s:%d' % (body.hex(), a4)
                if body not in seen:
                    seen.add(body)
                    out.append(name)
                break
        st, r, _ = budget.run(200000, lambda: Open().parse(body))
        if st == 'ok' and isinstance(r, dict) and ('open', body) not in seen:
            seen.add(('open', body))
            out.append('open:' + body.hex())
    return out


QUICK_ALPHABET = ['update_received', 'open_received', 'keepalive_received', 'on_connection_lost']
FULL_ALPHABET = list(EVENTS)
THRESHOLDS = {'inf': 500 * 1024 * 1024, 'every-update': 1, 'every-2nd-update': 200}


_conf_sig = [None]


def configure(threshold, write_keepalive, write_dir):
    sig = (threshold, write_keepalive, write_dir)
    if _conf_sig[0] != sig:
        CONF.set_override('write_disk', True, group='message')
        CONF.set_override('write_dir', write_dir, group='message')
        CONF.set_override('write_msg_max_size', threshold, group='message')
        CONF.set_override('write_keepalive', write_keepalive, group='message')
        _conf_sig[0] = sig
    CONF.bgp.running_config = {'remote_addr': PEER}


class Sim(object):
    """One log life: handler generations over one (fake or real) file system."""

    def __init__(self, threshold, advance=True, real_dir=None, write_keepalive=True):
        import yabgp.handler.default_handler as dh
        self.dh = dh
        self.real = real_dir is not None
        self.clock = Clock(advance)
        dh.time = self.clock
        if self.real:
            dh.os = real_os
            dh.open = builtins.open
            self.write_dir = real_dir
            self.fs = None
        else:
            self.fs = fakefs.FakeOS()
            dh.os = self.fs
            dh.open = self.fs.open_
            self.write_dir = '/data/bgp/'
        configure(threshold, write_keepalive, self.write_dir)
        self.msg_path = self.write_dir.rstrip('/') + '/' + PEER + '/msg/'
        self.handler = None
        self.peer = FakePeer()
        self.problems = []

    def restart(self):
        """a new agent process: new DefaultHandler, init()"""
        h = self.dh.DefaultHandler()
        try:
            h.init()
        except SystemExit as e:
            self.problems.append('restart refused: init() called sys.exit')
            self.handler = None
            return False
        except Exception as e:     # noqa
            self.problems.append('restart refused: init() raised %s' % type(e).__name__)
            self.handler = None
            return False
        self.handler = h
        return True

    def event(self, name):
        self.clock.tick()
        before = self.snapshot()
        try:
            get_event(name)(self.handler, self.peer, self.clock)
        except Exception as e:   # noqa
            self.problems.append('handler callback %s raised %s' % (name.split(':')[0], type(e).__name__))
        after = self.snapshot()
        return before, after

    def snapshot(self):
        if self.real:
            out = {}
            for n in sorted(real_os.listdir(self.msg_path)):
                with builtins.open(self.msg_path + n) as f:
                    out[n] = f.read()
            return out
        return {k[len(self.msg_path):]: v for k, v in self.fs.files.items() if k.startswith(self.msg_path)}

    def crash(self, before, after, offset):
        """keep only the first `offset` characters of what the last event appended; undo a rotation that followed"""
        assert not self.real
        grown = [n for n in after if after[n] != before.get(n, '')]
        new_empty = [n for n in after if n not in before and after[n] == '']
        target = [n for n in grown if n not in new_empty]
        if len(target) != 1:
            raise explore.HarnessError('crash model: last event touched %r' % (grown,))
        n = target[0]
        old = before.get(n, '')
        appended = after[n][len(old):]
        for e in new_empty:
            del self.fs.files[self.msg_path + e]
        self.fs.files[self.msg_path + n] = old + appended[:offset]
        return appended[:offset], appended


def audit(snapshot, expected_records, fragments):
    """snapshot: {file name: text}. Returns list of symptom strings."""
    out = []
    seqs = []
    frag_seen = []
    for name in sorted(snapshot):
        text = snapshot[name]
        lines = text.split('\n')
        if lines and lines[-1] == '':
            lines = lines[:-1]
        elif lines:
            pass      # last line has no newline
        for ln in lines:
            try:
                rec = json.loads(ln)
                ok = isinstance(rec, dict) and set(rec) == {'t', 'seq', 'type', 'msg'}
            except ValueError:
                rec, ok = None, False
            if ok:
                seqs.append(rec['seq'])
            else:
                frag_seen.append(ln)
    want_frags = [f for f in fragments if f != '']
    bad = list(frag_seen)
    for f in want_frags:
        if f in bad:
            bad.remove(f)
    if bad:
        b = bad[0]
        if any(b.startswith(f) and len(b) > len(f) for f in want_frags):
            out.append('a record written after the restart is glued to the torn fragment (no line of its own)')
        elif b == '':
            out.append('empty line in the log')
        else:
            out.append('line that is not a complete JSON record with keys t,seq,type,msg')
    # the statement fixes the step (exactly one), not the first number
    if seqs and seqs != list(range(seqs[0], seqs[0] + len(seqs))):
        if len(set(seqs)) != len(seqs):
            out.append('sequence numbers reused')
        elif sorted(seqs) == list(range(min(seqs), min(seqs) + len(seqs))):
            out.append('sequence numbers out of order across files')
        else:
            out.append('sequence numbers have a gap')
    if len(seqs) not in expected_records and not out:
        expected_records = min(expected_records)
        out.append('%s complete records than reported events' % ('fewer' if len(seqs) < expected_records else 'more'))
    return out


def writes(name, write_keepalive=True):
    return write_keepalive or name != 'keepalive_received'


def scenario(threshold_name, hist, crash_offset, cont, second, advance=True):
    """Execute one scenario on the in-memory FS. crash_offset: None (clean restart) or int.
    Returns (symptoms, class info)."""
    s = Sim(THRESHOLDS[threshold_name], advance)
    s.restart()
    expected = 0
    last = None
    for ev in hist:
        last = s.event(ev)
        expected += 1 if writes(ev) else 0
    fragments = []
    crash_cls = 'clean'
    residue = 'complete'
    if crash_offset is not None and hist:
        frag, full = s.crash(last[0], last[1], crash_offset)
        expected -= 1
        fragments.append(frag)
        crash_cls = 'torn-at-0' if crash_offset == 0 else ('torn-before-newline' if crash_offset == len(full) - 1 else 'torn-mid-record')
        residue = 'nothing-of-last-record' if crash_offset == 0 else 'partial-line'
    snap = s.snapshot()
    if snap:
        newest = sorted(snap)[-1]
        if snap[newest] == '':
            residue = 'empty-newest-file' if len(snap) > 1 else 'empty-only-file'
    if not s.restart():
        return [(p, crash_cls, residue) for p in s.problems], (crash_cls, residue)
    for ev in cont:
        s.event(ev)
        expected += 1 if writes(ev) else 0
    if second is not None:
        if not s.restart():
            return [(p, crash_cls + '+clean-restart', residue) for p in s.problems], (crash_cls, residue)
        for ev in second:
            s.event(ev)
            expected += 1 if writes(ev) else 0
    exp = {expected}
    if crash_cls == 'torn-before-newline':
        exp.add(expected + 1)      # the record is complete, only its newline is missing: it may count
    sym = list(s.problems) + audit(s.snapshot(), exp, fragments)
    return [(x, crash_cls, residue) for x in sym], (crash_cls, residue)


def scenario_fault(threshold_name, hist, fault, cont, second):
    """a transient I/O error instead of a crash: the last event of `hist` meets one failing os.fsync (the record is already in
    the file) or one failing write (nothing of it is); the agent lives on (its catch-all swallows the error), more events follow,
    then optionally a restart and more events.  Numbers must stay unique and consecutive."""
    s = Sim(THRESHOLDS[threshold_name], True)
    s.restart()
    expected = 0
    for i, ev in enumerate(hist):
        if i == len(hist) - 1:
            s.fs.fault = fault
            n = len(s.problems)
            s.event(ev)
            fired = s.fs.fault is None
            s.fs.fault = None
            del s.problems[n:]            # the callback raising is the injected error itself
            if writes(ev) and not (fired and fault == 'write'):
                expected += 1
        else:
            s.event(ev)
            expected += 1 if writes(ev) else 0
    for ev in cont:
        s.event(ev)
        expected += 1 if writes(ev) else 0
    if second is not None:
        if not s.restart():
            return [(p, fault + '-error', 'complete') for p in s.problems]
        for ev in second:
            s.event(ev)
            expected += 1 if writes(ev) else 0
    sym = list(s.problems) + audit(s.snapshot(), {expected}, [])
    return [(x, fault + '-error', 'complete') for x in sym]


def task_fault(args):
    thr, hist, conts, seconds = args[1:]
    out = []
    n = 0
    classes = set()
    for fault in ('fsync', 'write'):
        for cont in conts:
            for sec in seconds:
                sym = scenario_fault(thr, hist, fault, cont, sec)
                n += 1
                classes.add(('fault', thr, fault, len(hist), len(cont), sec is not None, bool(sym)))
                for s_, cls, residue in sym:
                    out.append(('C20|%s|%s|%s' % (cls, residue, s_),
                                {'threshold': thr, 'history': list(hist), 'fault': fault, 'crash_offset': None, 'continuation': list(cont),
                                 'second': None if sec is None else list(sec), 'advance': True}))
    return n, out, classes


PEER_ADDRS = ('10.0.0.2', '2001:db8::2', '2001:db8:0:0::2', '2001:DB8::2', '::ffff:10.0.0.2')
AGENT_HISTORY = [('TICK', 0), ('CONN_REFUSED', 0), ('TICK', 0), ('CONN_OK', 0), ('RX', 0, 'OPEN_OK'), ('RX', 0, 'KA'), ('RX', 0, 'UPD'),
                 ('RX', 0, 'UPD_MALFORMED'), ('RX', 0, 'RR'), ('RX', 0, 'KA'), ('PEER_CLOSE', 0),
                 ('TICK', 0), ('CONN_OK', 0), ('RX', 0, 'OPEN_OK'), ('RX', 0, 'KA'), ('RX', 0, 'NOTIF_CEASE')]
LOGGING = ('on_update_error', 'update_received', 'keepalive_received', 'send_open', 'open_received', 'route_refresh_received',
           'notification_received', 'on_connection_lost', 'on_connection_failed')


def _agent_path_or_symptom(addr):
    try:
        return report.fresh(agent_path, addr)
    except Exception as e:      # noqa
        # the scripted history (refused attempt, two sessions) cannot even be played with this spelling of the address: on the
        # unchanged tree it can with every spelling, so this is the agent's doing (e.g. the handler raising on every record)
        return ['the two scripted sessions cannot be played with this spelling of the peer address: %s' % str(e).splitlines()[-1][:160]], 0


def agent_path(addr):
    """the log behind a real agent: BGPPeering / FSM / BGP built by prepare_twisted_service() with the DefaultHandler, peer
    address given in several textual forms; every callback the agent makes must be one record"""
    from .. import world as W
    from ..alphabet import session_messages
    import yabgp.handler.default_handler as dh
    fs = fakefs.FakeOS()
    dh.os = fs
    dh.open = fs.open_
    _conf_sig[0] = None
    CONF.set_override('write_dir', '/data/bgp/', group='message')
    CONF.set_override('write_msg_max_size', 400, group='message')
    CONF.set_override('write_keepalive', True, group='message')
    calls = []

    def factory(world):
        h = dh.DefaultHandler()
        for name in LOGGING:
            def wrap(orig, name=name):
                def f(*a, **k):
                    calls.append(name)
                    return orig(*a, **k)
                return f
            setattr(h, name, wrap(getattr(h, name)))
        return h
    W._last_overrides[0] = None
    w = W.AgentWorld({'remote_addr': addr, 'write_disk': True}, handler_factory=factory)
    m = session_messages()
    for ev in AGENT_HISTORY:
        w.step(ev, m)
    W._last_overrides[0] = None
    path = '/data/bgp/' + addr.lower() + '/msg/'
    snap = {k[len(path):]: v for k, v in fs.files.items() if k.startswith(path)}
    sym = audit(snap, {len(calls)}, [])
    if w.exceptions:
        sym.append('exception escaped: %r' % (w.exceptions[0],))
    return sym, len(calls)


def last_record_len(threshold_name, hist, advance=True):
    s = Sim(THRESHOLDS[threshold_name], advance)
    s.restart()
    last = None
    for ev in hist:
        last = s.event(ev)
    before, after = last
    grown = [n for n in after if after[n] != before.get(n, '') and not (n not in before and after[n] == '')]
    if not grown:
        return 0
    n = grown[0]
    return len(after[n]) - len(before.get(n, ''))


def task_payload(names):
    out = []
    n = 0
    classes = set()
    for name in names:
        hist = ('open_received', name)
        ln = last_record_len('inf', hist)
        for off in (None, 1, max(1, ln // 2), max(1, ln - 1)) if ln else (None,):
            sym, cls = scenario('inf', hist, off, ('update_received',), None, True)
            n += 1
            classes.add(('payload', name.split(':')[0], cls, bool(sym)))
            for s_, crash_cls, residue in sym:
                out.append(('C20|decoded-payload|%s|%s|%s' % (name.split(':')[0], crash_cls, s_),
                            {'threshold': 'inf', 'history': list(hist), 'crash_offset': off, 'continuation': ['update_received'], 'second': None, 'advance': True}))
    return n, out, classes


def task(args):
    if args[0] == 'payload':
        return task_payload(args[1])
    if args[0] == 'fault':
        return task_fault(args)
    thr, hist, conts, seconds, advance, all_offsets = args
    out = []
    n = 0
    classes = set()
    n_last = last_record_len(thr, hist, advance) if hist else 0
    offsets = [None]
    if n_last:
        if all_offsets or n_last <= 400:
            offsets += list(range(0, n_last))
        else:
            # very long record: every offset in the first and last 150 characters, every 64th in between,
            # and the 8 KiB stdio buffer boundaries
            offs = set(range(0, 150)) | set(range(n_last - 150, n_last)) | set(range(0, n_last, 64))
            offs |= {o for k in range(1, n_last // 8192 + 1) for o in (8192 * k - 1, 8192 * k, 8192 * k + 1)}
            offsets += sorted(o for o in offs if 0 <= o < n_last)
    for off in offsets:
        for cont in conts:
            for sec in (seconds if cont else [None]):
                sym, cls = scenario(thr, hist, off, cont, sec, advance)
                n += 1
                classes.add((thr, len(hist), cls, len(cont), sec is not None))
                for s, crash_cls, residue in sym:
                    key = 'C20|%s|%s|%s' % (crash_cls, residue, s)
                    out.append((key, {'threshold': thr, 'history': list(hist), 'crash_offset': off, 'continuation': list(cont),
                                      'second': None if sec is None else list(sec), 'advance': advance}))
    return n, out, classes


def bind_shim_to_reality(alphabet):
    """every history of length <= 2 on a real temporary directory must give byte-identical files"""
    n = 0
    for thr in THRESHOLDS:
        for hist in [h for k in (1, 2) for h in itertools.product(alphabet, repeat=k)]:
            s = Sim(THRESHOLDS[thr])
            s.restart()
            for ev in hist:
                s.event(ev)
            s.restart()
            s.event('open_received')
            fake = s.snapshot()
            d = tempfile.mkdtemp(prefix='vf-c20-')
            try:
                r = Sim(THRESHOLDS[thr], real_dir=d + '/')
                r.restart()
                for ev in hist:
                    r.event(ev)
                r.restart()
                r.event('open_received')
                real = r.snapshot()
                for h in (r.handler,):
                    for path, f in (h.peer_files.values() if h else []):
                        try:
                            f.close()
                        except Exception:   # noqa
                            pass
            finally:
                shutil.rmtree(d, ignore_errors=True)
            n += 1
            if fake != real:
                raise explore.HarnessError('in-memory file system differs from a real directory for history %r threshold %s:\n fake=%r\n real=%r'
                                           % (hist, thr, fake, real))
    return n


def run(tier, seed):
    tm = report.Timer()
    col = report.Collector(PROP)
    nbind = bind_shim_to_reality(QUICK_ALPHABET + ['big_update'])
    tasks = []
    if tier == 'quick':
        alpha, hl, cl = QUICK_ALPHABET, 3, 2
    else:
        alpha, hl, cl = FULL_ALPHABET, 3, 2
    hists = [h for k in range(0, hl + 1) for h in itertools.product(alpha, repeat=k)]
    if tier == 'thorough':
        # the full alphabet to length 2, length 3 over the five callbacks that differ in what they write
        # (the full cube x every offset x every continuation is ~40 M scenarios)
        five = ['update_received', 'open_received', 'keepalive_received', 'on_connection_lost', 'big_update']
        hists = [h for k in range(0, 3) for h in itertools.product(alpha, repeat=k)] + list(itertools.product(five, repeat=3))
    calpha = QUICK_ALPHABET if tier == 'quick' else ['update_received', 'open_received', 'keepalive_received', 'on_connection_lost', 'big_update']
    conts = [c for k in range(0, cl + 1) for c in itertools.product(calpha, repeat=k)]
    conts = [c for c in conts if len(c) < 2 or c in (('update_received', 'update_received'), ('open_received', 'update_received'),
                                                     ('big_update', 'update_received'), ('update_received', 'big_update'))]
    seconds = [None, ('update_received',)] if tier == 'quick' else [None, ('open_received', 'update_received')]
    for thr in THRESHOLDS:
        for h in hists:
            tasks.append((thr, h, conts, seconds, True, 'big_update' not in h))     # a 10 kB record: offsets near both ends, every 64th, buffer boundaries
    # equal timestamps (clock not advancing): rotation re-opens the same file name
    for thr in THRESHOLDS:
        for h in [x for x in hists if len(x) <= 2]:
            tasks.append((thr, h, conts[:1 + len(calpha)], [None], False, False))
    if tier == 'quick':
        for thr in THRESHOLDS:
            for h in (('big_update',), ('update_received', 'big_update'), ('big_update', 'update_received')):
                tasks.append((thr, h, conts[:1 + len(calpha)], [None, ('update_received',)], True, False))
    # transient I/O errors (one failing fsync / one failing write) on the last event of every history of length 1..2
    for thr in THRESHOLDS:
        for h in [x for x in hists if 1 <= len(x) <= 2]:
            tasks.append(('fault', thr, h, [c for c in conts if 1 <= len(c) <= 2], [None, ('update_received',)]))
    # what the decoder really hands to the handler: one scenario per decodable message, clean restart and two torn offsets
    decoded = decoded_payload_events()
    for i in range(0, len(decoded), 8):
        tasks.append(('payload', decoded[i:i + 8]))
    results = explore.pmap(task, tasks, chunk=1)
    explore.close_pool()
    agent_events = 0
    for addr in PEER_ADDRS:
        sym, ncalls = _agent_path_or_symptom(addr)
        agent_events += ncalls
        for s_ in sym:
            col.add('C20|agent-path|%s|%s' % ('ipv4' if ':' not in addr else 'ipv6', s_), {'agent_path': addr}, {'peer_address': addr, 'callbacks': ncalls})
    total = 0
    classes = set()
    for n, out, cl_ in results:
        total += n
        classes |= cl_
        for key, wit in out:
            col.add(key, wit, None)
    n_new, n_known, summary = col.finish('c20-scenario')
    cov = {
        'evaluations': total, 'distinct_nontrivial': len(classes),
        'rule': 'histories: every sequence of <= %d handler callbacks over %s (thorough: full alphabet to length 2, length 3 over the 5 callbacks that write differently) x rotation thresholds %s; a restart after the history, '
                'clean or with the last record torn at every byte offset (0 .. len-1, i.e. including "nothing" and "complete line without its '
                'newline"; a rotation that followed the torn write is undone); then every continuation of <= %d events, optionally a '
                'second clean restart and more events; final audit of all files. Clock advancing and frozen (equal timestamps). Plus: one failing os.fsync / one failing write on the last event of every history of length 1..2 (the agent lives on), continuations, optional restart; plus one scenario per message of the unit tests the decoder accepts (the payload is the decoder\'s output). '
                'distinct_nontrivial = distinct (threshold, history length, crash class, residue class, continuation length, second restart)'
                % (hl, alpha, list(THRESHOLDS), cl),
        'samples': [{'threshold': t[0], 'history': list(t[1]), 'crash': 'clean and every byte offset of the last record',
                     'continuations': [list(c) for c in report.pick(t[2], seed, 2)], 'clock_advances': t[4]} for t in report.pick([x for x in tasks if x[0] not in ('payload', 'fault')], seed, 3)],
        'agent_path_callbacks': agent_events, 'agent_path_peer_addresses': list(PEER_ADDRS),
        'transient_io_error_histories': sum(1 for x in tasks if x[0] == 'fault'),
        'decoded_payload_events': len(decoded),
        'histories': len(hists), 'continuations': len(conts), 'shim_vs_real_directory_histories': nbind,
        'exhaustive': True, 'violation_keys': summary,
    }
    report.write_evidence(PROP, tier, seed, 'fault_enumeration', cov,
                          ['the in-memory file system replaces os/open inside default_handler only; compared byte-for-byte with a real '
                           'temporary directory on every history of length <= 2',
                           'crash model: any prefix of the bytes appended by the last event may be on disk; earlier records are durable '
                           '(write_msg flushes and fsyncs every record)',
                           'simplejson is a stdlib-json shim; the hand-written payloads use JSON-native types only, the decoded-payload events carry whatever the agent\'s decoder returns for every unit-test message it accepts'], tm.wall(), n_new)
    return 1 if n_new else 0


def replay(path):
    d = json.load(open(path))
    w = d['witness']
    if w.get('agent_path'):
        a, b = _agent_path_or_symptom(w['agent_path']), _agent_path_or_symptom(w['agent_path'])
        if a != b:
            print('HARNESS-ERROR: replay is not deterministic')
            return 2
        keys = ['C20|agent-path|%s|%s' % ('ipv4' if ':' not in w['agent_path'] else 'ipv6', x) for x in a[0]]
        print('peer address', w['agent_path'], 'callbacks', a[1], 'symptoms', keys)
        return 1 if d['key'] in keys else 0
    if w.get('fault'):
        a, b = report.twice(scenario_fault, w['threshold'], tuple(w['history']), w['fault'], tuple(w['continuation']),
                            None if w['second'] is None else tuple(w['second']))
        if a != b:
            print('HARNESS-ERROR: replay is not deterministic')
            return 2
        keys = ['C20|%s|%s|%s' % (c, r, x) for x, c, r in a]
        print('scenario:', w)
        print('symptoms:', keys)
        return 1 if d['key'] in keys else 0
    a, b = report.twice(scenario, w['threshold'], tuple(w['history']), w['crash_offset'], tuple(w['continuation']),
                        None if w['second'] is None else tuple(w['second']), w['advance'])
    if a != b:
        print('HARNESS-ERROR: replay is not deterministic')
        return 2
    print('scenario:', w)
    s = Sim(THRESHOLDS[w['threshold']], w['advance'])
    s.restart()
    last = None
    for ev in w['history']:
        last = s.event(ev)
    if w['crash_offset'] is not None:
        s.crash(last[0], last[1], w['crash_offset'])
    print('files at the restart:')
    for n, t in sorted(s.snapshot().items()):
        print('  %s: %r' % (n, t[-300:]))
    keys = ['C20|%s|%s|%s' % (c, r, x) for x, c, r in a[0]]
    keys += ['C20|decoded-payload|%s|%s|%s' % (h.split(':')[0], c, x) for x, c, r in a[0] for h in w['history'][1:2] if ':' in h]
    print('symptoms:', keys)
    return 1 if d['key'] in keys else 0
