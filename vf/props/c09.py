"""C09 - decoding agrees with an independent RFC encoder, including legal variants (DESIGN 7, C09).
The C06 / C07 value pools are pushed through the reference encoder with each encoding variant switched
on (each alone on the whole pool, all combinations on representative messages); the agent must decode
exactly the encoded values. Error half: single-field corruptions the decoder claims to check."""
import itertools
import struct

from .. import explore, report, codec, budget
from ..ref import upd, pools, wire

PROP = 'C09'


def codes_of(msg):
    return set(int(k) for k in (msg.get('attr') or {}))


def variants_for(msg, asn4):
    """(label, asn4, add_path, opts, msg') - each switch alone"""
    out = [('plain', asn4, False, None, msg)]
    codes = codes_of(msg)
    if codes:
        out.append(('ext-len', asn4, False, {'ext_len': set(codes)}, msg))
        if any(upd.ATTR_FLAGS.get(c, 0) & 0xC0 == 0xC0 for c in codes):
            # an optional transitive attribute that crossed a speaker which did not know it carries the Partial bit
            out.append(('partial-bit', asn4, False, {'partial': set(codes)}, msg))
            out.append(('partial-bit+ext-len', asn4, False, {'partial': set(codes), 'ext_len': set(codes)}, msg))
        if len(codes) > 1:
            out.append(('order-reversed', asn4, False, {'order': sorted(codes, reverse=True)}, msg))
            rot = sorted(codes)
            out.append(('order-rotated', asn4, False, {'order': rot[1:] + rot[:1]}, msg))
    out.append(('trailing-bits', asn4, False, {'trailing_bits': 'ipv4-unicast'}, msg))
    out.append(('trailing-bits-every-family', asn4, False, {'trailing_bits': True}, msg))
    if 2 in codes:
        out.append(('aspath-split', asn4, False, {'split_aspath': 1}, msg))
        out.append(('aspath-split2', asn4, False, {'split_aspath': 2}, msg))
    mp = (msg.get('attr') or {}).get(14)
    if isinstance(mp, dict) and tuple(mp.get('afi_safi', ()))[1:] in ((4,), (128,)):
        # labeled families: traffic-class bits set in every label entry (RFC 8277 2.2: ignored on receipt)
        out.append(('label-tc-bits', asn4, False, {'label_tc': 7}, msg))
    out.append(('other-as-width', not asn4, False, None, msg))
    out.append(('add-path-table-all-false', asn4, False, {'ap_table_explicit': True}, msg))
    out.append(('add-path-ipv4-others-false', asn4, [(1, 1)], {'path_id': 9, 'ap_table_explicit': True}, msg))
    out.append(('add-path', asn4, True, {'path_id': 7}, msg))
    out.append(('add-path-id0', asn4, True, {'path_id': 0}, msg))        # path identifier 0 is a value like any other
    out.append(('add-path-ipv4', asn4, [(1, 1)], {'path_id': 4294967295}, msg))
    if not asn4 and codes and 17 not in codes:
        m2 = {k: v for k, v in msg.items()}
        a = dict(msg['attr'])
        a[17] = [(2, [4200000000, 65536]), (1, [70000])]
        a[18] = (4200000000, '10.0.0.9')
        m2['attr'] = a
        out.append(('as4-path-present', False, False, None, m2))
    return out


def decode(data, asn4, add_path, explicit_false=False):
    from yabgp.message.update import Update
    ap = upd.afi_add_path(add_path) if add_path else None
    if explicit_false:
        # the table names every family and says False for those add-path was not agreed for (what a session that
        # negotiated it for some families holds): a listed-but-False family carries no path identifiers
        ap = dict((upd.FAMILIES[f], False) for f in upd.PREFIX_FAMILIES)
        ap.update(upd.afi_add_path(add_path) if add_path else {})
    return budget.run(300 + 60 * len(data), Update.parse, None, data[19:], asn4, ap)


def check(msg, asn4, add_path, opts):
    """reference encode -> yabgp decode -> compare with the reference's expected form"""
    ok, why = upd.in_range(msg, asn4, add_path, opts)
    if not ok:
        return None, 'out-of-range'
    data = upd.encode_update(msg, asn4, add_path, opts)
    if len(data) > 4096:
        return None, 'out-of-range'
    st, got, steps = decode(data, asn4, add_path, bool((opts or {}).get('ap_table_explicit')))
    if st == 'overrun':
        return 'no result within the work budget', {'hex': data.hex()[:400]}
    if st == 'raise':
        return 'exception:%s' % type(got).__name__, {'hex': data.hex()[:400], 'error': str(got)[:200]}
    if got.get('sub_error'):
        return 'sub_error:%s' % got['sub_error'], {'hex': data.hex()[:400]}
    want = codec.norm(upd.expected(msg, asn4, add_path, opts))
    have = codec.norm({'attr': got['attr'] or {}, 'nlri': got['nlri'], 'withdraw': got['withdraw']})
    d = codec.first_diff(want, have)
    if d:
        return 'diff:%s' % d, {'hex': data.hex()[:400], 'want': want, 'got': have}
    return None, None


def task_valid(args):
    which, lo, hi, tier = args
    from . import c06
    gen = c06.cases_of(which, tier)
    out = []
    classes = set()
    n = 0
    for fam, cv, msg, asn4 in codec.sliced(gen, lo, hi):
        # (IPv4 unicast carried in MP_REACH / MP_UNREACH is a legal encoding a peer may choose: decoding it is C09's business although
        #  the agent's own encoder never produces it)
        for label, a4, ap, opts, m in variants_for(msg, asn4):
            n += 1
            sym, det = check(m, a4, ap, opts)
            classes.add((fam, label, sym or det))
            if sym:
                d = {'family': fam, 'class_vector': list(cv), 'variant': label, 'msg': m, 'asn4': a4, 'add_path': ap,
                     'opts': {k: (sorted(v) if isinstance(v, set) else v) for k, v in (opts or {}).items()}}
                d.update(det or {})
                out.append(('C09|valid|%s|%s|%s|%s' % (fam, label, '/'.join(cv), sym), d))
    return n, out, classes


def representative_messages():
    return [
        ({'attr': {1: 0, 2: [(2, [64512, 65001, 65002]), (1, [100, 200])], 3: '10.0.0.9', 4: 50, 5: 200, 8: ['64512:100', 'NO_EXPORT']},
          'nlri': ['192.0.2.0/25', '10.128.0.0/9'], 'withdraw': ['198.51.100.64/26']}, False),
        ({'attr': {1: 2, 2: [(2, [4200000000, 65001])], 3: '10.0.0.9', 7: (4200000000, '10.0.0.1'), 16: [[2, '64512:100']], 32: ['4200000000:1:2']},
          'nlri': ['203.0.113.8/29']}, True),
        ({'attr': {1: 0, 2: [(2, [64512])], 5: 100, 14: {'afi_safi': (2, 1), 'nexthop': '2001:db8::1', 'nlri': ['2001:db8:1::/49', '::/3']}}}, True),
    ]


def task_combos(args):
    out = []
    classes = set()
    n = 0
    for msg, asn4 in representative_messages():
        codes = sorted(codes_of(msg))
        switches = {
            'ext_len': [None, set(codes)],
            'trailing_bits': [None, True],
            'split_aspath': [None, 1],
            'order': [None] + [list(p) for p in itertools.permutations(codes[:5])][1:],
        }
        for el, tb, sp, order in itertools.product(switches['ext_len'], switches['trailing_bits'], switches['split_aspath'], switches['order']):
            for ap in (False, True):
                opts = {}
                if el:
                    opts['ext_len'] = el
                if tb:
                    opts['trailing_bits'] = 'ipv4-unicast'
                if sp:
                    opts['split_aspath'] = sp
                if order:
                    opts['order'] = order + codes[5:]
                n += 1
                sym, det = check(msg, asn4, ap, opts or None)
                label = '+'.join(sorted(k for k in opts)) + ('+add-path' if ap else '') or 'plain'
                classes.add(('combo', label.replace('order', 'perm'), sym or det))
                if sym:
                    d = {'family': 'representative', 'class_vector': [label], 'variant': label, 'msg': msg, 'asn4': asn4, 'add_path': ap,
                         'opts': {k: (sorted(v) if isinstance(v, set) else v) for k, v in opts.items()}}
                    d.update(det or {})
                    out.append(('C09|valid|representative|%s|%s' % (label, sym), d))
    return n, out, classes


# ------------------------------------------------------------------------------------------ error half
FIXED = {1: 1, 3: 4, 4: 4, 5: 4, 6: 0, 7: None, 9: 4}     # 7: 6 (2-octet AS) or 8 (4-octet AS)
FLAGS = {1: 0x40, 2: 0x40, 3: 0x40, 4: 0x80, 5: 0x40, 6: 0x40, 7: 0xC0, 9: 0x80}


def error_cases():
    base = {1: b'\x00', 2: struct.pack('!BBI', 2, 1, 65002), 3: b'\x0a\x00\x00\x02', 4: b'\x00\x00\x00\x0a', 5: b'\x00\x00\x00\x64',
            6: b'', 7: struct.pack('!I', 65002) + b'\x0a\x00\x00\x01', 9: b'\x0a\x00\x00\x03'}

    def body(attrs, nlri=b'\x18\x0a\x01\x02', wd=b''):
        a = b''.join(upd.wrap_attr(FLAGS[c], c, v, False) for c, v in attrs)
        return struct.pack('!H', len(wd)) + wd + struct.pack('!H', len(a)) + a + nlri
    cases = []
    order = (1, 2, 3, 4, 5, 6, 7, 9)
    for o in (3, 255):
        cases.append(('origin=%d' % o, 1, body([(c, (bytes([o]) if c == 1 else base[c])) for c in order]), True))
    for pl in (33, 255):
        cases.append(('nlri-prefix-length=%d' % pl, 'nlri', body([(c, base[c]) for c in order], nlri=bytes([pl]) + b'\x0a\x01\x02\x03\x04'), True))
        cases.append(('withdrawn-prefix-length=%d' % pl, 'withdraw', body([(c, base[c]) for c in order], wd=bytes([pl]) + b'\x0a\x01\x02\x03\x04'), True))
    for st in (0, 5, 255):
        cases.append(('aspath-segment-type=%d' % st, 2, body([(c, (struct.pack('!BBI', st, 1, 65002) if c == 2 else base[c])) for c in order]), True))
    for code, right in FIXED.items():
        for asn4 in (True, False):
            r = right if right is not None else (8 if asn4 else 6)
            for ln in range(0, 9):
                if ln == r:
                    continue
                if code != 7 and not asn4:
                    continue
                val = (base[code] + b'\x01\x02\x03\x04\x05\x06\x07\x08')[:ln]
                b = body([(c, (val if c == code else (base[c] if c != 7 else (base[7] if asn4 else struct.pack('!H', 65002) + b'\x0a\x00\x00\x01')))) for c in order])
                if not asn4:
                    b = body([(c, (val if c == code else (struct.pack('!BBH', 2, 1, 65002) if c == 2 else
                                                          (struct.pack('!H', 65002) + b'\x0a\x00\x00\x01' if c == 7 else base[c])))) for c in order])
                cases.append(('attr%d-length=%d' % (code, ln), code, b, asn4))
    return cases


def task_errors(args):
    from yabgp.message.update import Update
    out = []
    classes = set()
    n = 0
    for label, where, body, asn4 in error_cases():
        n += 1
        st, got, steps = budget.run(300 + 60 * len(body), Update.parse, None, body, asn4)
        if st != 'ok':
            out.append(('C09|error-half|%s|%s' % (label, 'overrun' if st == 'overrun' else 'exception:' + type(got).__name__), {'hex': body.hex()}))
            continue
        classes.add((label.split('=')[0], bool(got.get('sub_error'))))
        if not got.get('sub_error'):
            out.append(('C09|error-half|%s|no error reported for the malformation' % label, {'hex': body.hex(), 'asn4': asn4,
                                                                                              'decoded': codec.norm({k: got[k] for k in ('attr', 'nlri', 'withdraw')})}))
            continue
        if isinstance(where, int) and where in (got.get('attr') or {}):
            out.append(('C09|error-half|%s|a value is reported for the corrupted attribute' % label,
                        {'hex': body.hex(), 'value': codec.norm((got['attr'] or {}).get(where))}))
        # through dataReceived: on_update_error, not update_received
    return n, out, classes


def task_session(args):
    """the same valid / corrupted messages through dataReceived: update_received vs on_update_error"""
    from .. import world as W
    from ..alphabet import session_messages
    M = session_messages()
    out = []
    n = 0
    classes = set()
    est = [('TICK', 0), ('CONN_OK', 0), ('RX', 0, 'OPEN_OK'), ('RX', 0, 'KA')]
    for label, where, body, asn4 in error_cases():
        if not asn4:
            continue
        n += 1
        w = W.replay({}, est, M)
        obs = w.step(('RX', 0, wire.frame(wire.UPDATE, body)))
        cbs = [e[1] for e in obs if e[0] == 'cb']
        classes.add(('session', label.split('=')[0], tuple(cbs)))
        if cbs != ['on_update_error']:
            out.append(('C09|error-half|%s|session reported %s instead of on_update_error' % (label, cbs), {'hex': body.hex()}))
    for msg, asn4 in representative_messages():
        if not asn4:
            continue
        n += 1
        w = W.replay({}, est, M)
        obs = w.step(('RX', 0, upd.encode_update(msg, True, False, {'ext_len': codes_of(msg)})))
        cbs = [e[1] for e in obs if e[0] == 'cb']
        classes.add(('session', 'valid', tuple(cbs)))
        if cbs != ['update_received']:
            out.append(('C09|valid|session reported %s instead of update_received' % cbs, {'msg': msg}))
    return n, out, classes


def _dispatch(t):
    return {'valid': task_valid, 'combos': task_combos, 'errors': task_errors, 'session': task_session}[t[0]](t[1])


def run(tier, seed):
    tm = report.Timer()
    col = report.Collector(PROP)
    tasks = [('combos', ()), ('errors', ()), ('session', ())]
    for which in ('c06', 'c07'):
        from . import c06
        total = sum(1 for _ in c06.cases_of(which, tier))
        step = 1000
        for lo in range(0, total, step):
            tasks.append(('valid', (which, lo, lo + step, tier)))
    res = explore.pmap(_dispatch, tasks, chunk=1)
    explore.close_pool()
    total = 0
    classes = set()
    for t, (n, out, cl) in zip(tasks, res):
        total += n
        classes |= cl
        for k, det in out:
            col.add(k, dict(det, case=report.pack(det['msg'])) if 'msg' in det else det, det, task=t)
    n_new, n_known, summary = col.finish('c09-case')
    cov = {
        'evaluations': total, 'distinct_nontrivial': len(classes),
        'rule': 'valid half: every case of the C06 and C07 pools encoded by the reference encoder plain and with each variant alone '
                '(extended-length flag on every attribute, trailing bits in IPv4 prefixes, attribute order reversed / rotated, AS_PATH '
                'split into 1- and 2-AS segments, the other AS width, add-path identifiers for all families / IPv4 only, AS4_PATH + '
                'AS4_AGGREGATOR present, traffic-class bits set in the label entries of labeled / VPN routes), all combinations of the switches with all permutations of 5 attributes on 3 representative '
                'messages; error half: ORIGIN in {3,255}, prefix length in {33,255} (NLRI and withdrawn), AS_PATH segment type in {0,5,255}, '
                'every wrong length 0..8 of each fixed-length attribute, also through dataReceived. distinct = (family, variant, outcome)',
        'samples': [{'family': c[0], 'class_vector': list(c[1]), 'msg': c[2], 'asn4': c[3], 'variants': [v[0] for v in variants_for(c[2], c[3])]}
                    for i in report.pick(range(60000), seed, 2) for c in itertools.islice(pools.c06_cases(tier), i, i + 1)]
        + [{'error_half': e[0], 'body': e[2].hex()} for e in report.pick(error_cases(), seed, 1)],
        'exhaustive': True, 'violation_keys': summary,
    }
    report.write_evidence(PROP, tier, seed, 'exploration', cov,
                          ['reference encoder vf/ref/upd.py (imports nothing from yabgp); IPv6 text compared by value'], tm.wall(), n_new)
    return 1 if n_new else 0


def replay(path):
    import json
    d = json.load(open(path))
    w = d['witness']
    if 'msg' not in w or 'asn4' not in w or '|session reported' in d['key']:
        # error half / session half: the task that produced it is small; run it as a whole
        from yabgp.message.update import Update
        if 'hex' in w:
            body = bytes.fromhex(w['hex'])
            for asn4 in (True, False):
                print('asn4=%s ->' % asn4, budget.run(100000, Update.parse, None, body, asn4)[:2])
        rc = report.replay_in_task(d, _dispatch)
        return rc

    def fix(x):
        if isinstance(x, dict):
            return {(int(k) if isinstance(k, str) and k.lstrip('-').isdigit() else k): fix(v) for k, v in x.items()}
        if isinstance(x, list):
            return [fix(v) for v in x]
        return x
    msg = report.unpack(w['case']) if 'case' in w else fix(w['msg'])
    opts = dict(w.get('opts') or {})
    if 'ext_len' in opts:
        opts['ext_len'] = set(opts['ext_len'])
    ap = w.get('add_path')
    if isinstance(ap, list):
        ap = [tuple(x) for x in ap]
    r1, r2 = report.twice(check, msg, w['asn4'], ap, opts or None)
    if repr(r1) != repr(r2):
        print('HARNESS-ERROR: replay is not deterministic')
        return 2
    print('input:', msg, 'asn4', w['asn4'], 'add_path', ap, 'opts', opts)
    print('result:', r1[0])
    print('detail:', json.dumps(r1[1], default=str)[:1500] if r1[1] else None)
    if r1[0] and d['key'].endswith(r1[0]):
        return 1
    return report.replay_in_task(d, _dispatch)
