"""C11 - every decoder terminates on every input; UPDATE decoding never raises (DESIGN 7, C11).
Engine E3 + the deterministic work meter: exhaustive short inputs per decoder entry point, exhaustive
TLV type x length x fill x single-octet override sweeps, single mutations of the unit-test corpus,
inputs padded to 4096 octets. Verdict: interpreter steps of yabgp code <= 300 + 60 * len(input)."""
import itertools
import os
import struct

from .. import explore, report, budget, seeds

PROP = 'C11'
FILLS = (0x00, 0xFF, None)     # None = counting 1,2,3...


def fill(n, kind):
    if kind is None:
        return bytes((i + 1) & 0xFF for i in range(n))
    return bytes([kind]) * n


def entry_points():
    from yabgp.message.update import Update
    from yabgp.message.open import Open, Capability
    from yabgp.message.notification import Notification
    from yabgp.message.route_refresh import RouteRefresh
    from yabgp.message.keepalive import KeepAlive
    from yabgp.message.attribute.linkstate.linkstate import LinkState
    import yabgp.message.attribute.linkstate  # noqa  (registers the TLV classes)
    from yabgp.message.attribute.sr.bgpprefixsid import BGPPrefixSID
    from yabgp.message.attribute.nlri.linkstate import BGPLS
    from yabgp.message.attribute.origin import Origin
    from yabgp.message.attribute.aspath import ASPath
    from yabgp.message.attribute.nexthop import NextHop
    from yabgp.message.attribute.med import MED
    from yabgp.message.attribute.localpref import LocalPreference
    from yabgp.message.attribute.atomicaggregate import AtomicAggregate
    from yabgp.message.attribute.aggregator import Aggregator
    from yabgp.message.attribute.community import Community
    from yabgp.message.attribute.originatorid import OriginatorID
    from yabgp.message.attribute.clusterlist import ClusterList
    from yabgp.message.attribute.extcommunity import ExtCommunity
    from yabgp.message.attribute.largecommunity import LargeCommunity
    from yabgp.message.attribute.pmsitunnel import PMSITunnel
    from yabgp.message.attribute.mpreachnlri import MpReachNLRI
    from yabgp.message.attribute.mpunreachnlri import MpUnReachNLRI

    def capa(b):
        c = Capability()
        c.parse(b)
        return c
    ep = {
        'Update.parse': lambda b: Update.parse(None, b, True),
        'Update.parse(add-path ipv4)': lambda b: Update.parse(None, b, True, {'ipv4': True}),
        'Update.parse(asn2)': lambda b: Update.parse(None, b, False),
        'Update.parse(addpath)': lambda b: Update.parse(None, b, True, {'ipv4': True, 'ipv6': True, 'vpnv4': True, 'ipv4_lu': True}),
        'Open.parse': lambda b: Open().parse(b),
        'Capability.parse': capa,
        'Notification.parse': lambda b: Notification.parse(b),
        'RouteRefresh.parse': lambda b: RouteRefresh().parse(b),
        'KeepAlive.parse': lambda b: KeepAlive.parse(b),
        'LinkState.unpack': lambda b: LinkState.unpack(b),
        'LinkState.unpack(proto=2)': lambda b: LinkState.unpack(b, 2),
        'LinkState.unpack(proto=3)': lambda b: LinkState.unpack(b, 3),
        'BGPPrefixSID.unpack': lambda b: BGPPrefixSID.unpack(b),
        'BGPLS.parse': lambda b: BGPLS.parse(b),
        'Origin.parse': lambda b: Origin.parse(b),
        'ASPath.parse(2)': lambda b: ASPath.parse(b, False),
        'ASPath.parse(4)': lambda b: ASPath.parse(b, True),
        'NextHop.parse': lambda b: NextHop.parse(b),
        'MED.parse': lambda b: MED.parse(b),
        'LocalPreference.parse': lambda b: LocalPreference.parse(b),
        'AtomicAggregate.parse': lambda b: AtomicAggregate.parse(b),
        'Aggregator.parse(2)': lambda b: Aggregator.parse(b, False),
        'Aggregator.parse(4)': lambda b: Aggregator.parse(b, True),
        'Community.parse': lambda b: Community.parse(b),
        'OriginatorID.parse': lambda b: OriginatorID.parse(b),
        'ClusterList.parse': lambda b: ClusterList.parse(b),
        'ExtCommunity.parse': lambda b: ExtCommunity.parse(b),
        'LargeCommunity.parse': lambda b: LargeCommunity.parse(b),
        'PMSITunnel.parse': lambda b: PMSITunnel.parse(b),
        'MpReachNLRI.parse': lambda b: MpReachNLRI.parse(b),
        'MpUnReachNLRI.parse': lambda b: MpUnReachNLRI.parse(b),
    }
    return ep


FAMILIES = [(1, 1), (1, 2), (2, 1), (1, 4), (2, 4), (1, 133), (1, 128), (2, 128), (25, 70), (16388, 71), (1, 73), (2, 133), (16388, 72), (9, 9)]
NH = {(1, 1): 4, (1, 2): 4, (2, 1): 16, (1, 4): 4, (2, 4): 16, (1, 133): 0, (1, 128): 12, (2, 128): 24, (25, 70): 4, (16388, 71): 4,
      (1, 73): 4, (2, 133): 0, (16388, 72): 4, (9, 9): 0}


def all_short(maxlen):
    for n in range(0, maxlen + 1):
        for t in itertools.product(range(256), repeat=n):
            yield bytes(t)


def gen_short(tier):
    """(entry point, input) for all byte strings of length 0..2 (3 for the cheapest decoders in thorough)"""
    for name in entry_points():
        yield ('short', name, 2)
    if tier == 'thorough':
        for name in ('Notification.parse', 'RouteRefresh.parse', 'Origin.parse', 'MED.parse', 'AtomicAggregate.parse', 'Capability.parse'):
            yield ('short3', name, 3)
    for fam in FAMILIES:
        yield ('mpreach', fam, 2)
        yield ('mpunreach', fam, 2)


def linkstate_types():
    from yabgp.message.attribute.linkstate.linkstate import LinkState
    import yabgp.message.attribute.linkstate  # noqa
    return sorted(LinkState.registered_tlvs)


def run_one(fn, data, limit=None):
    limit = limit if limit is not None else 300 + 60 * len(data)
    return budget.run(limit, fn, data)


def task(args):
    kind = args[0]
    ep = entry_points()
    v = []
    n = 0
    classes = set()

    def check(name, data, cls, must_not_raise=False, witness=None):
        nonlocal n
        n += 1
        st, val, steps = run_one(ep[name], data)
        classes.add((name, cls, st if st != 'raise' else 'raise:' + type(val).__name__))
        if st == 'overrun':
            v.append(('C11|%s|%s|no result within the work budget' % (name, cls),
                      {'entry': name, 'hex': data.hex(), 'len': len(data), 'steps': steps, 'budget': 300 + 60 * len(data),
                       'must_not_raise': must_not_raise}))
        elif st == 'raise' and must_not_raise:
            v.append(('C11|%s|%s|raised %s instead of returning a result with an error sub-code' % (name, cls, type(val).__name__),
                      {'entry': name, 'hex': data.hex(), 'error': str(val)[:200], 'must_not_raise': True}))
        return st, val

    def in_range(body):
        if len(body) < 4:
            return False
        wl = struct.unpack('!H', body[:2])[0]
        if 2 + wl + 2 > len(body):
            return False
        al = struct.unpack('!H', body[2 + wl:4 + wl])[0]
        return 2 + wl + 2 + al <= len(body)

    if kind in ('short', 'short3'):
        name, maxlen = args[1], args[2]
        for data in all_short(maxlen):
            check(name, data, 'len<=%d' % maxlen, must_not_raise=name.startswith('Update.parse') and in_range(data))
    elif kind in ('mpreach', 'mpunreach'):
        fam, maxlen = args[1], args[2]
        for data in all_short(maxlen):
            if kind == 'mpreach':
                val = struct.pack('!HBB', fam[0], fam[1], NH[fam]) + bytes(range(1, NH[fam] + 1)) + b'\x00' + data
                code = 14
            else:
                val = struct.pack('!HB', fam[0], fam[1]) + data
                code = 15
            check('MpReachNLRI.parse' if kind == 'mpreach' else 'MpUnReachNLRI.parse', val, 'afi%d/safi%d nlri<=%d' % (fam[0], fam[1], maxlen))
            body = b'\x00\x00' + struct.pack('!H', len(val) + 4) + struct.pack('!BBH', 0x90, code, len(val)) + val
            check('Update.parse', body, 'attr%d afi%d/safi%d nlri<=%d' % (code, fam[0], fam[1], maxlen), must_not_raise=True)
    elif kind == 'attrsweep':
        lo, hi = args[1], args[2]
        values = (b'', b'\x00', b'\xff', b'\x00\x00', b'\x01\x02', b'\xff\xff')
        for t in range(lo, hi):
            for flags in (0x00, 0x10, 0x40, 0x80, 0xC0, 0xD0, 0xFF):
                for val in values:
                    for dl in sorted({0, 1, 2, len(val), max(0, len(val) - 1), len(val) + 1, 255, 65535}):
                        if flags & 0x10:
                            a = struct.pack('!BBH', flags, t, dl) + val
                        else:
                            a = struct.pack('!BBB', flags, t, dl & 0xFF) + val
                        body = b'\x00\x00' + struct.pack('!H', len(a)) + a
                        check('Update.parse', body, 'attr type sweep', must_not_raise=True)
                        check('Update.parse(asn2)', body, 'attr type sweep', must_not_raise=True)
    elif kind == 'lstlv':
        types, maxlen = args[1], args[2]
        overrides = (0, 1, 2, 3, 4, 5, 8, 255)
        for t in types:
            for ln in range(0, maxlen + 1):
                for f in FILLS:
                    base = fill(ln, f)
                    variants = [base]
                    for pos in range(ln):
                        for o in overrides:
                            if base[pos] != o:
                                variants.append(base[:pos] + bytes([o]) + base[pos + 1:])
                    for val in variants:
                        tlv = struct.pack('!HH', t, ln) + val
                        for name in ('LinkState.unpack', 'LinkState.unpack(proto=2)', 'LinkState.unpack(proto=3)'):
                            check(name, tlv, 'tlv %d' % t)
                # declared length longer / shorter than the bytes present
                for f in FILLS:
                    check('LinkState.unpack', struct.pack('!HH', t, ln + 3) + fill(ln, f), 'tlv %d truncated' % t)
            # inside an UPDATE, after a BGP-LS MP_REACH (protocol id known)
            mp = struct.pack('!HBB', 16388, 71, 4) + b'\x0a\x00\x00\x01\x00' + struct.pack('!HH', 1, 21) + b'\x02' + b'\x00' * 7 + b'\x01' + \
            struct.pack('!HH', 256, 8) + struct.pack('!HHI', 512, 4, 65000)
            for ln in (0, 1, 4, 7, 8):
                ls = struct.pack('!HH', t, ln) + fill(ln, None)
                body = b'\x00\x00' + struct.pack('!H', len(mp) + 4 + len(ls) + 4) + struct.pack('!BBH', 0x90, 14, len(mp)) + mp + \
                    struct.pack('!BBH', 0x90, 29, len(ls)) + ls
                check('Update.parse', body, 'bgp-ls attr tlv %d' % t, must_not_raise=True)
    elif kind == 'runs':
        # a long run of one character class ended by one octet of another (what makes a careless regular expression explode),
        # as the value of every link-state TLV
        for t in args[1]:
            for ch in (b'A', b'1', b' ', b'a.', b'\\'):
                for n_ in (30, 44):
                    for end in (b'\x00', b'\xff', b'\n', b''):
                        val = (ch * n_)[:n_] + end
                        tlv = struct.pack('!HH', t, len(val)) + val
                        for name in ('LinkState.unpack', 'LinkState.unpack(proto=2)'):
                            check(name, tlv, 'tlv %d character run' % t)
    elif kind == 'floats':
        # float fields: the IEEE-754 values that are not numbers or not finite, the extremes and a fraction
        specials = [bytes.fromhex(h) for h in ('7f800000', 'ff800000', '7fc00000', 'ffc00001', '00000000', '80000000', '00000001', '7f7fffff', 'ff7fffff', '3f000000', '4a7fffff')]
        for f in specials:
            for asn in (0, 100, 65535):
                ec = struct.pack('!HH', 0x8006, asn) + f
                for tail in (b'', struct.pack('!HHI', 0x0002, 100, 1)):
                    val = ec + tail
                    check('ExtCommunity.parse', val, 'traffic-rate float special')
                    body = b'\x00\x00' + struct.pack('!H', len(val) + 3) + struct.pack('!BBB', 0xC0, 16, len(val)) + val
                    check('Update.parse', body, 'traffic-rate float special', must_not_raise=True)
            # link-state TLVs with IEEE-754 bandwidth fields (1089 max link bw, 1090 reservable, 1091 unreserved x 8)
            for t, reps in ((1089, 1), (1090, 1), (1091, 8)):
                tlv = struct.pack('!HH', t, 4 * reps) + f * reps
                check('LinkState.unpack', tlv, 'tlv %d float special' % t)
    elif kind == 'dupattr':
        # the same attribute type twice (and three times) in one UPDATE, with and without a BGP-LS MP_REACH in front
        mp = struct.pack('!HBB', 16388, 71, 4) + b'\x0a\x00\x00\x01\x00' + struct.pack('!HH', 1, 21) + b'\x02' + b'\x00' * 7 + b'\x01' + \
            struct.pack('!HH', 256, 8) + struct.pack('!HHI', 512, 4, 65000)
        mpa = struct.pack('!BBH', 0x90, 14, len(mp)) + mp
        for t in range(args[1], args[2]):
            for val in (b'', b'\x00', b'\x01\x02\x03\x04', struct.pack('!HH', 1099, 7) + b'\x30\x00\x00\x00\x00\x5d\xc1'):
                for flags in (0x40, 0xC0, 0x80):
                    one = struct.pack('!BBB', flags, t, len(val)) + val
                    for attrs in (one + one, one + one + one, mpa + one + one, one + mpa + one):
                        body = b'\x00\x00' + struct.pack('!H', len(attrs)) + attrs
                        check('Update.parse', body, 'attribute type repeated', must_not_raise=True)
    elif kind == 'v4tails':
        # every IPv4 withdrawn-routes / NLRI field that ends in an arbitrary tail of <= 2 octets, behind nothing, a good prefix, a
        # path identifier, a path identifier + good prefix - with and without ADD-PATH for IPv4 unicast
        lo, hi = args[1], args[2]
        good = b'\x18\x0a\x01\x01'
        pid = b'\x00\x00\x00\x07'
        tails = [bytes(t) for n_ in range(0, 3) for t in itertools.product(range(256), repeat=n_)][lo:hi]
        for tail in tails:
            for ctx in (b'', good, pid, pid + good):
                field = ctx + tail
                for body in (struct.pack('!H', len(field)) + field + b'\x00\x00', b'\x00\x00\x00\x00' + field):
                    for name in ('Update.parse', 'Update.parse(add-path ipv4)'):
                        check(name, body, 'ipv4 field tail', must_not_raise=True)
    elif kind == 'pmsi':
        # PMSI tunnel attribute (22): every tunnel type x identifiers built as RFC 6388 mLDP FEC elements (type, address family, root
        # address, opaque value made of basic / extended / unknown / truncated opaque elements) and as plain addresses
        import itertools as _it
        basic = lambda v: b'\x01' + struct.pack('!H', len(v)) + v                       # noqa
        ext = lambda t, v: b'\xff' + struct.pack('!HH', t, len(v)) + v                  # noqa
        elems = [basic(b'\x00\x00\x00\x01'), basic(b''), ext(1, b'\x00\x00\x00\x01'), ext(0, b''), b'\xff', b'\xff\x00', b'\xff\x00\x01\x00',
                 b'\x09\x00\x02\xaa\xbb', b'\x01\x00\x09\xaa', b'\x07\x00\x08' + bytes(8)]
        opaques = [b''] + elems + [a + b for a, b in _it.product(elems, repeat=2)]
        idents = [b'', b'\x0a\x00\x00\x01', b'\x0a\x00\x00\x01\xe0\x00\x00\x01', bytes(16)]
        for fec in (6, 7, 8, 0, 255):
            for af, root in ((1, b'\x0a\x00\x00\x01'), (2, bytes(15) + b'\x01'), (0, b''), (1, b'\x0a')):
                for op in opaques:
                    idents.append(bytes([fec]) + struct.pack('!HB', af, len(root)) + root + struct.pack('!H', len(op)) + op)
                idents.append(bytes([fec]) + struct.pack('!HB', af, len(root)) + root + struct.pack('!H', 40) + elems[2])      # opaque length overruns
        for ttype in args[1]:
            for flags in (0, 1):
                for ident in idents:
                    val = bytes([flags, ttype]) + b'\x00\x03\xe9' + ident
                    if len(val) > 255:
                        continue
                    body = b'\x00\x00' + struct.pack('!H', 3 + len(val) + 4) + b'\x40\x01\x01\x00' + struct.pack('!BBB', 0xC0, 22, len(val)) + val
                    check('Update.parse', body, 'pmsi tunnel type %d' % ttype, must_not_raise=True)
    elif kind == 'drift':
        # the work for the same octets must not grow with the number of earlier decodes in the process (an error object, a cache, a
        # list that is kept and grows): every interpreter step is counted here, library code included, for the 5th and the 150th call
        import sys as _sys
        mon_ = _sys.monitoring
        cnt = [0]

        def _ev(*a):
            cnt[0] += 1
        body_ok = bytes.fromhex('0000001c400101004002060201000000fde940030' + '40a000002c00808fde90001fde90002' + '180a0101')
        bad = [('prefix length 33', b'\x00\x00\x00\x00\x21\x0a\x00\x00\x00\x00'), ('withdrawn prefix length 200', b'\x00\x02\xc8\x0a\x00\x00'),
               ('attribute length overruns', b'\x00\x00\x00\x04\x40\x01\x09\x00'), ('ORIGIN 7', b'\x00\x00\x00\x04\x40\x01\x01\x07'),
               ('AS_PATH segment overruns', b'\x00\x00\x00\x07\x40\x02\x04\x02\x09\x00\x01'), ('unknown well-known attribute', b'\x00\x00\x00\x04\x40\x63\x01\x00'),
               ('MP_REACH unknown family', b'\x00\x00\x00\x08\x80\x0e\x05\x00\x63\x63\x00\x00'), ('well-formed', body_ok)]
        for label, body in bad:
            from yabgp.message.update import Update
            costs = []
            for i in range(150):
                if i in (4, 149):
                    budget.uninstall()
                    mon_.use_tool_id(5, 'vf-drift')
                    mon_.register_callback(5, mon_.events.PY_START, _ev)
                    mon_.register_callback(5, mon_.events.JUMP, _ev)
                    mon_.set_events(5, mon_.events.PY_START | mon_.events.JUMP)
                    cnt[0] = 0
                try:
                    Update.parse(None, body, True)
                except Exception:      # noqa  (what is raised is judged elsewhere)
                    pass
                if i in (4, 149):
                    costs.append(cnt[0])
                    mon_.set_events(5, 0)
                    mon_.free_tool_id(5)
            n += 150
            classes.add(('Update.parse', 'drift', label, costs[1] <= costs[0] * 1.2 + 20))
            if costs[1] > costs[0] * 1.2 + 20:
                v.append(('C11|Update.parse|%s|the work for the same octets grows with the number of earlier decodes' % label,
                          {'entry': 'Update.parse', 'hex': body.hex(), 'interpreter_steps_5th_call': costs[0], 'interpreter_steps_150th_call': costs[1]}))
    elif kind == 'nested':
        # TLVs nested in themselves (depth 2..40, the inner TLV at several offsets of the value, innermost complete or cut short):
        # work must stay linear in the input
        for t in args[1]:
            for depth in (2, 5, 20, 40):
                for pad in (0, 4, 6, 8, 12, 22):
                    # (cut 2 / 3: at every level a malformed sibling stands behind the nested TLV - a sub-TLV decoder that raises, a
                    # length that overruns: an error path that decodes the level again doubles the work per level)
                    for cut in (False, True, 2, 3):
                        inner = struct.pack('!HH', t, 4) + b'\x01\x02\x03\x04'
                        if cut is True:
                            inner = inner[:5]
                        sib = {2: struct.pack('!HH', 1252, 1) + b'\x00', 3: struct.pack('!HH', t, 9) + b'\x01'}.get(cut, b'') if cut is not True else b''
                        for _ in range(depth):
                            val = b'\x00' * pad + inner + sib
                            if len(val) > 4000:
                                break
                            inner = struct.pack('!HH', t, len(val)) + val
                        if len(inner) > 4000:
                            continue
                        for name in ('LinkState.unpack', 'LinkState.unpack(proto=2)'):
                            check(name, inner, 'tlv %d nested in itself' % t)
                        mp = struct.pack('!HBB', 16388, 71, 4) + b'\x0a\x00\x00\x01\x00' + struct.pack('!HH', 1, 21) + b'\x02' + b'\x00' * 7 + b'\x01' + \
            struct.pack('!HH', 256, 8) + struct.pack('!HHI', 512, 4, 65000)
                        body = b'\x00\x00' + struct.pack('!H', len(mp) + 4 + len(inner) + 4) + struct.pack('!BBH', 0x90, 14, len(mp)) + mp + \
                            struct.pack('!BBH', 0x90, 29, len(inner)) + inner
                        if len(body) <= 4077:
                            check('Update.parse', body, 'bgp-ls attr tlv nested in itself', must_not_raise=True)
    elif kind == 'hugetlv':
        # one TLV of 2000 / 3900 octets inside the BGP-LS attribute, a malformed ORIGIN behind it (the error path sees the big value)
        mp = struct.pack('!HBB', 16388, 71, 4) + b'\x0a\x00\x00\x01\x00' + struct.pack('!HH', 1, 21) + b'\x02' + b'\x00' * 7 + b'\x01' + \
            struct.pack('!HH', 256, 8) + struct.pack('!HHI', 512, 4, 65000)
        for t in args[1]:
            for ln in (2000, 3900):
                for f in FILLS:
                    ls = struct.pack('!HH', t, ln) + fill(ln, f)
                    for tail in (b'', struct.pack('!BBB', 0x40, 1, 2) + b'\x00\x00'):
                        a = struct.pack('!BBH', 0x90, 14, len(mp)) + mp + struct.pack('!BBH', 0x90, 29, len(ls)) + ls + tail
                        body = b'\x00\x00' + struct.pack('!H', len(a)) + a
                        check('Update.parse', body, 'bgp-ls attr huge tlv%s' % (' + bad origin' if tail else ''), must_not_raise=True)
    elif kind == 'bgpls':
        for nt in range(0, 8):
            for proto in (0, 1, 2, 3, 4, 5, 6, 7):
                for dt in list(range(256, 266)) + list(range(512, 519)) + [1161, 0, 65535]:
                    for ln in range(0, 21):
                        for f in FILLS:
                            d = struct.pack('!HH', dt, ln) + fill(ln, f)
                            inner = bytes([proto]) + b'\x00' * 8 + d
                            nl = struct.pack('!HH', nt, len(inner)) + inner
                            check('BGPLS.parse', nl, 'nlri type %d' % nt)
                            if dt in (256, 257):
                                # node descriptor container holding one sub-TLV of every kind
                                for st_ in range(512, 519):
                                    sub = struct.pack('!HH', st_, ln) + fill(ln, f)
                                    d2 = struct.pack('!HH', dt, len(sub)) + sub
                                    inner2 = bytes([proto]) + b'\x00' * 8 + d2
                                    check('BGPLS.parse', struct.pack('!HH', nt, len(inner2)) + inner2, 'nlri type %d node sub-tlv' % nt)
    elif kind == 'prefixsid':
        for t in range(0, 8):
            for ln in range(0, 41):
                for f in FILLS:
                    check('BGPPrefixSID.unpack', bytes([t]) + struct.pack('!H', ln) + fill(ln, f), 'tlv %d' % t)
                    check('BGPPrefixSID.unpack', bytes([t]) + struct.pack('!H', ln + 2) + fill(ln, f), 'tlv %d truncated' % t)
                    val = bytes([t]) + struct.pack('!H', ln) + fill(ln, f)
                    body = b'\x00\x00' + struct.pack('!H', len(val) + 4) + struct.pack('!BBH', 0xD0, 40, len(val)) + val
                    check('Update.parse', body, 'prefix-sid attr', must_not_raise=True)
    elif kind == 'openparams':
        lo, hi = args[1], args[2]
        for code in range(lo, hi):
            for cl in range(0, 9):
                for pt in (0, 1, 2, 3, 255):
                    for pl in (0, 1, 2, cl + 1, cl + 2, cl + 3, 12, 255):
                        capv = bytes([code, cl]) + bytes(range(1, cl + 1))
                        params = bytes([pt, pl]) + capv
                        body = struct.pack('!BHHIB', 4, 65002, 90, 0x0A000002, len(params)) + params
                        check('Open.parse', body, 'optional parameter sweep')
    elif kind == 'seeds':
        lst, mode = args[1], args[2]
        wrap_types = (2, 8, 14, 15, 16, 22, 23, 29, 32, 40)
        for s in lst:
            variants = [s] + (seeds.mutations(s) if mode == 'mut' else [])
            for m in variants:
                check('Update.parse', m, 'unit-test corpus as body', must_not_raise=in_range(m))
                if len(m) <= 600:
                    for t in wrap_types:
                        body = b'\x00\x00' + struct.pack('!H', len(m) + 4) + struct.pack('!BBH', 0xD0, t, len(m)) + m
                        check('Update.parse', body, 'unit-test corpus as attribute %d' % t, must_not_raise=True)
                check('Open.parse', m, 'unit-test corpus')
                check('LinkState.unpack', m, 'unit-test corpus')
                check('BGPLS.parse', m, 'unit-test corpus')
                check('BGPPrefixSID.unpack', m, 'unit-test corpus')
            if mode == 'pad':
                for f in (0x00, 0xFF, None):
                    pad = s + fill(max(0, 4096 - 19 - len(s)), f)
                    rep = (s * (4077 // max(1, len(s)) + 1))[:4077]
                    for data in (pad, rep):
                        check('Update.parse', data, 'padded to 4096', must_not_raise=in_range(data))
                        check('LinkState.unpack', data, 'padded to 4096')
                        check('BGPLS.parse', data, 'padded to 4096')
                        check('BGPPrefixSID.unpack', data, 'padded to 4096')
                        check('Open.parse', data, 'padded to 4096')
                        for t in (2, 8, 14, 15, 16, 29, 32, 40):
                            d = data[:4000]
                            body = b'\x00\x00' + struct.pack('!H', len(d) + 4) + struct.pack('!BBH', 0xD0, t, len(d)) + d
                            check('Update.parse', body, 'padded to 4096 as attribute %d' % t, must_not_raise=True)
    return n, v, classes


TASK_LIMIT = {'quick': 420, 'thorough': 1500}


def run(tier, seed):
    tm = report.Timer()
    col = report.Collector(PROP)
    tasks = list(gen_short(tier))
    for lo in range(0, 256, 16):
        tasks.append(('attrsweep', lo, lo + 16))
        tasks.append(('openparams', lo, lo + 16))
    lt = linkstate_types()
    maxlen = 16 if tier == 'quick' else 40
    for i in range(0, len(lt), 2):
        tasks.append(('lstlv', lt[i:i + 2], maxlen))
    tasks.append(('lstlv', [0, 255, 1000, 65535], maxlen))
    for i in range(0, len(lt), 8):
        tasks.append(('nested', lt[i:i + 8]))
        tasks.append(('hugetlv', lt[i:i + 8]))
    tasks.append(('drift',))
    for tt in range(0, 10, 2):
        tasks.append(('pmsi', [tt, tt + 1] + ([200 + tt] if tier == 'thorough' else [])))
    for lo in range(0, 256, 32):
        tasks.append(('dupattr', lo, lo + 32))
    for i in range(0, len(lt), 16):
        tasks.append(('runs', lt[i:i + 16]))
    tasks.append(('floats',))
    ntails = 1 + 256 + 65536
    for lo in range(0, ntails, 2200):
        tasks.append(('v4tails', lo, lo + 2200))
    tasks.append(('bgpls',))
    tasks.append(('prefixsid',))
    corpus = seeds.unit_test_bytes()
    short = corpus if tier == 'thorough' else [s for s in corpus if len(s) <= 80]
    for i in range(0, len(short), 6):
        tasks.append(('seeds', short[i:i + 6], 'mut'))
    for i in range(0, len(corpus), 20):
        tasks.append(('seeds', corpus[i:i + 20], 'pad'))
    # a task takes under a minute on the unchanged tree (quick; under five in thorough): one that is still running after TASK_LIMIT
    # seconds is stopped and reported - the decoders of its cases do not finish "within a small bounded amount of work", whatever the
    # step meter (which sees yabgp's own code only) says
    limit = float(os.environ.get('VERIF_TASK_LIMIT', TASK_LIMIT[tier]))
    res = explore.pmap(task, tasks, chunk=1, task_limit=limit)
    res = [r if not isinstance(r, explore.TaskTimedOut) else
           (0, [('C11|task %s|the decoding task did not finish within %d s of wall clock' % (t[0], limit),
                 {'entry': 'task', 'hex': '', 'task': repr(t)[:300], 'limit_s': limit})], set()) for t, r in zip(tasks, res)]
    explore.close_pool()
    total = 0
    classes = set()
    for t, (n, v, cl) in zip(tasks, res):
        total += n
        classes |= cl
        for k, det in v:
            col.add(k, det, dict(det, hex=det['hex'][:300]), task=t)
    n_new, n_known, summary = col.finish('c11-input')
    cov = {
        'evaluations': total, 'distinct_nontrivial': len(classes),
        'rule': 'per decoder entry point (%d of them): all byte strings of length 0..2; MP_REACH/MP_UNREACH per family with all NLRI strings '
                'of length 0..2 (also inside Update.parse); every attribute type 0..255 x 7 flag octets x declared-length variants x 6 '
                'values; every registered link-state TLV type (%d) x length 0..%d x 3 fills x every single-octet override from '
                '{0,1,2,3,4,5,8,255} at every position x 3 protocol ids; BGP-LS NLRI types x protocol x descriptor TLVs x length 0..20; '
                'Prefix-SID TLV types x length 0..40; every link-state TLV nested in itself (depth 2..40, 6 offsets, innermost whole / cut) and as one 2000- / 3900-octet TLV followed by a malformed ORIGIN; every IPv4 NLRI / withdrawn field ending in any tail of <= 2 octets behind 4 contexts, with and without ADD-PATH; every attribute type 0..255 twice / three times in one UPDATE; OPEN optional parameter x capability code 0..255 x length 0..8; every byte string '
                'of the unit tests (%d seeds) with all single-octet mutations and truncations, as UPDATE body and as the value of 10 '
                'attribute types; every seed padded/repeated to 4096 octets. Verdict by the deterministic step meter (300 + 60*len). '
                'distinct_nontrivial = distinct (entry point, input class, outcome kind)' % (len(entry_points()), len(lt), maxlen, len(corpus)),
        'samples': [{'task': [(x.hex() if isinstance(x, bytes) else ([y.hex() if isinstance(y, bytes) else y for y in x][:3] if isinstance(x, (list, tuple)) else x)) for x in t]}
                    for t in report.pick(tasks, seed, 4)],
        'exhaustive': True, 'violation_keys': summary,
    }
    report.write_evidence(PROP, tier, seed, 'exploration', cov,
                          ['work is measured in interpreter steps (function entries + backward jumps) of code under /repo only; library '
                           'code (struct, binascii, netaddr) is not metered', 'no random inputs are used: exhaustive menus replace them'],
                          tm.wall(), n_new)
    return 1 if n_new else 0


def replay(path):
    import json
    d = json.load(open(path))
    w = d['witness']
    ep = entry_points()
    data = bytes.fromhex(w['hex'])
    r = [(x[0], x[1] if x[0] != 'ok' else repr(x[1])[:300], x[2]) for x in report.twice(lambda: (lambda y: (y[0], y[1] if y[0] != 'ok' else repr(y[1])[:300], y[2]))(run_one(ep[w['entry']], data)))]
    print('entry point', w['entry'], 'input (%d octets)' % len(data), w['hex'][:600])
    print('outcome:', r[0][0], repr(r[0][1])[:300], 'steps', r[0][2], 'budget', 300 + 60 * len(data))
    if (r[0][0], r[0][2]) != (r[1][0], r[1][2]):
        print('HARNESS-ERROR: replay is not deterministic')
        return 2
    want = 'overrun' if 'work budget' in d['key'] else 'raise'
    if r[0][0] == want and (want == 'overrun' or (w.get('must_not_raise') and type(r[0][1]).__name__ in d['key'])):
        return 1
    return report.replay_in_task(d, task, lambda r_: [k for k, _ in r_[1]])
