"""C15 - list decoders are compositional; attribute order is irrelevant (DESIGN 7, C15).
Purely differential: for all ordered pairs (a, b) of well-formed element encodings of one list kind,
D(a || b) == D(a) ++ D(b); with an unknown TLV u between known ones D(a || u || b) == D(a) ++ [render(u)] ++
D(b); permuting the attributes of an UPDATE does not change the decoded attribute map."""
import itertools
import struct

from .. import explore, report, budget, codec
from ..ref import pools, upd, wire

PROP = 'C15'


def decoders():
    from yabgp.message.update import Update
    from yabgp.message.attribute.nlri.ipv4_unicast import IPv4Unicast
    from yabgp.message.attribute.nlri.ipv6_unicast import IPv6Unicast
    from yabgp.message.attribute.nlri.labeled_unicast.ipv4 import IPv4LabeledUnicast
    from yabgp.message.attribute.nlri.labeled_unicast.ipv6 import IPv6LabeledUnicast
    from yabgp.message.attribute.nlri.ipv4_mpls_vpn import IPv4MPLSVPN
    from yabgp.message.attribute.nlri.ipv6_mpls_vpn import IPv6MPLSVPN
    from yabgp.message.attribute.nlri.evpn import EVPN
    from yabgp.message.attribute.mpreachnlri import MpReachNLRI
    from yabgp.message.attribute.community import Community
    from yabgp.message.attribute.extcommunity import ExtCommunity
    from yabgp.message.attribute.largecommunity import LargeCommunity
    from yabgp.message.attribute.clusterlist import ClusterList
    from yabgp.message.attribute.aspath import ASPath
    from yabgp.message.attribute.linkstate.linkstate import LinkState
    import yabgp.message.attribute.linkstate  # noqa
    from yabgp.message.attribute.sr.bgpprefixsid import BGPPrefixSID
    from yabgp.message.attribute.nlri.linkstate import BGPLS
    from yabgp.message.open import Open

    def fs(data):
        v = MpReachNLRI.parse(struct.pack('!HBB', 1, 133, 0) + b'\x00' + data)
        return v['nlri']

    def caps(data):
        o = Open()
        o.parse(struct.pack('!BHHIB', 4, 65002, 90, 0x0A000002, len(data) + 2) + struct.pack('!BB', 2, len(data)) + data)
        return o.capa_dict

    def caps_each(data_list):
        o = Open()
        params = b''.join(struct.pack('!BB', 2, len(d)) + d for d in data_list)
        o.parse(struct.pack('!BHHIB', 4, 65002, 90, 0x0A000002, len(params)) + params)
        return o.capa_dict

    def descr(data):
        inner = b'\x02' + b'\x00' * 8 + data
        r = BGPLS.parse(struct.pack('!HH', 2, len(inner)) + inner)
        return r[0]['descriptors']

    def node_sub(data):
        inner = b'\x02' + b'\x00' * 8 + struct.pack('!HH', 256, len(data)) + data
        r = BGPLS.parse(struct.pack('!HH', 1, len(inner)) + inner)
        return r[0]['descriptors'][0]['value']      # the sub-TLVs of one node descriptor form one dict
    return {
        'ipv4_prefix': lambda d: Update.parse_prefix_list(d, False),
        'ipv4_prefix_addpath': lambda d: Update.parse_prefix_list(d, True),
        'ipv4_prefix(mp)': lambda d: IPv4Unicast.parse(d, False),
        'ipv6_prefix': lambda d: IPv6Unicast.parse(d, False),
        'ipv6_prefix_addpath': lambda d: IPv6Unicast.parse(d, True),
        'ipv4_lu': lambda d: IPv4LabeledUnicast.parse(d, False),
        'ipv6_lu': lambda d: IPv6LabeledUnicast.parse(d, False),
        'ipv4_lu_withdraw': lambda d: IPv4LabeledUnicast.parse(d, False, True),
        'ipv6_lu_withdraw': lambda d: IPv6LabeledUnicast.parse(d, False, True),
        'vpnv4': lambda d: IPv4MPLSVPN.parse(d, False, False),
        'vpnv6': lambda d: IPv6MPLSVPN.parse(d, False, False),
        'vpnv4_withdraw': lambda d: IPv4MPLSVPN.parse(d, True, False),
        'vpnv6_withdraw': lambda d: IPv6MPLSVPN.parse(d, True, False),
        'evpn': lambda d: EVPN.parse(d),
        'flowspec': fs,
        'community': lambda d: Community.parse(d),
        'ext_community': lambda d: ExtCommunity.parse(d),
        'large_community': lambda d: LargeCommunity.parse(d),
        'cluster_id': lambda d: ClusterList.parse(d),
        'aspath_seg2': lambda d: ASPath.parse(d, False),
        'aspath_seg4': lambda d: ASPath.parse(d, True),
        'linkstate_tlv': lambda d: LinkState.unpack(d).value,
        'linkstate_tlv(proto=2)': lambda d: LinkState.unpack(d, 2).value,
        'prefix_sid_tlv': lambda d: BGPPrefixSID.unpack(d),
        'bgpls_nlri': lambda d: BGPLS.parse(d),
        'bgpls_descriptor': descr,
        'bgpls_node_subtlv': node_sub,
        'open_capability': caps,
        'open_capability(one-per-parameter)': caps_each,
    }


def fill(n, kind):
    if kind is None:
        return bytes((i + 1) & 0xFF for i in range(n))
    return bytes([kind]) * n


def tlv_pools(decs):
    """element pools for the TLV kinds: a body is kept when the decoder renders it alone without error
    (the oracle is differential, so "well-formed" means "decodable alone") - minimal and maximal length kept"""
    from yabgp.message.attribute.linkstate.linkstate import LinkState
    from yabgp.message.attribute.sr.bgpprefixsid import BGPPrefixSID
    out = {}

    def ok(name, data):
        st, v, steps = budget.run(20000, decs[name], data)
        return st == 'ok'
    ls = []
    for t in sorted(LinkState.registered_tlvs):
        good = []
        for ln in range(0, 41):
            for f in (0x00, None, 0xFF):
                e = struct.pack('!HH', t, ln) + fill(ln, f)
                if ok('linkstate_tlv', e) and ok('linkstate_tlv(proto=2)', e):
                    good.append(e)
                    break
        if good:
            ls += [good[0], good[-1]] if len(good) > 1 else good
    ls.append(struct.pack('!HH', 9999, 3) + b'\x01\x02\x03')      # unknown type
    out['linkstate_tlv'] = ls
    out['linkstate_tlv(proto=2)'] = ls
    ps = []
    for t in list(sorted(BGPPrefixSID.registered_tlvs)) + [0, 7, 200]:
        good = []
        for ln in range(0, 41):
            e = bytes([t]) + struct.pack('!H', ln) + fill(ln, None)
            if ok('prefix_sid_tlv', e):
                good.append(e)
        if good:
            ps += [good[0], good[-1]] if len(good) > 1 else good
    out['prefix_sid_tlv'] = ps
    # BGP-LS NLRIs (5 types) and descriptors
    nl = []
    for nt in (1, 2, 3, 4, 6, 5):
        for body in (b'\x02' + b'\x00' * 8, b'\x03' + b'\x00' * 7 + b'\x01' + struct.pack('!HH', 256, 8) + struct.pack('!HHI', 512, 4, 65000),
                     b'\x01' + b'\xff' * 8 + struct.pack('!HH', 256, 16) + struct.pack('!HHI', 512, 4, 65000) + struct.pack('!HHI', 513, 4, 1)):
            e = struct.pack('!HH', nt, len(body)) + body
            if ok('bgpls_nlri', e):
                nl.append(e)
    out['bgpls_nlri'] = nl
    ds = []
    for dt in list(range(256, 266)) + [1161, 9999]:
        for ln in range(0, 33):
            e = struct.pack('!HH', dt, ln) + fill(ln, None)
            if ok('bgpls_descriptor', e):
                ds.append(e)
                break
        for ln in range(32, 0, -1):
            e = struct.pack('!HH', dt, ln) + fill(ln, 0x00)
            if ok('bgpls_descriptor', e):
                ds.append(e)
                break
    out['bgpls_descriptor'] = ds
    ns = []
    for st_ in list(range(512, 519)) + [9999]:
        for ln in range(0, 13):
            e = struct.pack('!HH', st_, ln) + fill(ln, None)
            if ok('bgpls_node_subtlv', e):
                ns.append(e)
    out['bgpls_node_subtlv'] = ns
    cp = [wire.cap_mp(1, 1), wire.cap_mp(2, 1), wire.cap_mp(1, 128), wire.cap(2), wire.cap(128), wire.cap(70), wire.cap_gr(0x4078, [(1, 1, 0x80)]),
          wire.cap_as4(65002), wire.cap_addpath([(1, 1, 3)]), wire.cap_addpath([(2, 1, 1), (1, 128, 2)]), wire.cap_ext_nh([(1, 1, 2)]),
          wire.cap_llgr([(1, 1, 0, 3600)]), wire.cap(0), wire.cap(3, b'\x01'), wire.cap(67, b'\x01\x02'), wire.cap(200, b'\x01\x02\x03')]
    out['open_capability'] = cp
    out['open_capability(one-per-parameter)'] = cp
    return out


def join(kind, a, b, idempotent=False):
    """expected D(a||b) from D(a), D(b): list concatenation, or dict union for the map-valued kinds.
    For a list-valued key present on both sides of a dict union both readings of "union" are accepted:
    concatenation (multiprotocol, add-path accumulate) and, with idempotent=True, "the later instance
    replaces an equal earlier one" (a repeated capability)."""
    if isinstance(a, dict) and isinstance(b, dict):
        out = {}
        for k in list(a) + [k for k in b if k not in a]:
            if k in a and k in b and isinstance(a[k], list):
                out[k] = b[k] if (idempotent and a[k] == b[k]) else a[k] + b[k]
            elif k in b:
                out[k] = b[k]
            else:
                out[k] = a[k]
        return out
    return list(a) + list(b)


def task_pairs(args):
    kind, elems, idx_pairs, triples = args
    dec = decoders()[kind]
    cache = {}
    out = []
    n = 0
    classes = set()

    def D(data, key=None):
        arg = data
        st, v, steps = budget.run(3000 + 100 * (len(data) if isinstance(data, bytes) else sum(map(len, data))), dec, arg)
        return st, (codec.norm(v) if st == 'ok' else v)
    for i, e in enumerate(elems):
        cache[i] = D(e if 'one-per-parameter' not in kind else [e])
    for combo in idx_pairs:
        n += 1
        parts = [elems[i] for i in combo]
        if any(cache[i][0] != 'ok' for i in combo):
            continue
        st, got = D(b''.join(parts) if 'one-per-parameter' not in kind else parts)
        want = cache[combo[0]][1]
        want2 = want
        for i in combo[1:]:
            want = join(kind, want, cache[i][1])
            want2 = join(kind, want2, cache[i][1], True)
        widths = tuple(len(p) for p in parts)
        classes.add((kind, widths if len(widths) < 3 else 'triple', st))
        if st != 'ok':
            out.append(('C15|%s|%s|decoding the concatenation: %s' % (kind, 'pair' if len(combo) == 2 else 'triple',
                                                                       'no result within budget' if st == 'overrun' else 'exception:' + type(got).__name__),
                        {'kind': kind, 'elements': [p.hex() for p in parts]}))
        elif got != want and got != want2:
            d = codec.first_diff(want, got) or '.'
            out.append(('C15|%s|%s|D(a||b) != D(a) ++ D(b) at %s' % (kind, 'pair' if len(combo) == 2 else 'triple', d),
                        {'kind': kind, 'elements': [p.hex() for p in parts], 'separately': [cache[i][1] for i in combo], 'together': got}))
    return n, out, classes


ATTRS13 = {1: 0, 2: [(2, [64512, 65001]), (1, [100, 200])], 3: '10.0.0.9', 4: 50, 5: 200, 6: '', 7: (64512, '10.0.0.1'),
           8: ['64512:100', 'NO_EXPORT'], 9: '10.0.0.3', 10: ['10.0.0.5', '10.0.0.6'], 16: [[2, '64512:100'], [32777, 40]],
           32: ['64512:1:2'], 14: {'afi_safi': (2, 1), 'nexthop': '2001:db8::1', 'nlri': ['2001:db8:1::/48']}}


ATTRS_AS2 = {1: 0, 2: [(2, [64500, 23456, 23456]), (1, [64496, 64497])], 3: '10.0.0.9', 5: 200, 7: (23456, '10.0.0.1'),
             17: [(2, [4200000000, 65536]), (1, [70000])], 18: (4200000000, '10.0.0.9'), 8: ['64512:100']}


def task_perms(args):
    from yabgp.message.update import Update
    subsets = args
    out = []
    n = 0
    classes = set()
    for sub in subsets:
        base = None
        # a subset tagged 'as2' is a 2-octet-AS session carrying AS4_PATH / AS4_AGGREGATOR (RFC 6793 transition attributes)
        asn4 = not (sub and sub[0] == 'as2')
        table = ATTRS13 if asn4 else ATTRS_AS2
        sub = sub if asn4 else sub[1:]
        for perm in itertools.permutations(sub):
            msg = {'attr': {c: table[c] for c in sub}, 'nlri': ['192.0.2.0/24']}
            data = upd.encode_update(msg, asn4, False, {'order': list(perm)})
            st, got, steps = budget.run(300 + 60 * len(data), Update.parse, None, data[19:], asn4)
            n += 1
            if st != 'ok' or got.get('sub_error'):
                out.append(('C15|attribute-order|decoding failed for an order of %d attributes' % len(sub), {'order': perm, 'hex': data.hex()}))
                continue
            v = codec.norm(got['attr'])
            if base is None:
                base = v
            elif v != base:
                out.append(('C15|attribute-order|decoded attributes depend on their order (%s)' % codec.first_diff(base, v),
                            {'order': perm, 'first_order': sub, 'hex': data.hex()}))
        classes.add(('perm', len(sub)))
    return n, out, classes


def corpus_updates():
    """UPDATE bodies among the byte strings of the unit tests (incl. BGP-LS, EVPN, PMSI ...): (body, raw attributes)"""
    from .. import seeds
    out = []
    for s in seeds.unit_test_bytes():
        for body in (s, s[19:] if s[:16] == b'\xff' * 16 and len(s) > 19 and s[18] == 2 else None):
            if body is None:
                continue
            try:
                wd, attrs, nlri = wire.parse_update(body)
            except ValueError:
                continue
            if len(attrs) >= 2 and len(set(a[1] for a in attrs)) == len(attrs):
                out.append((body, attrs))
    return out


def task_corpus_perms(args):
    from yabgp.message.update import Update
    out = []
    n = 0
    classes = set()
    for body, attrs in args:
        wl = struct.unpack('!H', body[:2])[0]
        al = struct.unpack('!H', body[2 + wl:4 + wl])[0]
        head, tail = body[:2 + wl], body[4 + wl + al:]

        def enc(order):
            a = b''.join(upd.wrap_attr(f & 0xEF, c, v, bool(f & 0x10) or len(v) > 255) for f, c, v in order)
            return head + struct.pack('!H', len(a)) + a + tail
        if len(attrs) <= 5:
            orders = list(itertools.permutations(attrs))
        else:
            orders = [attrs[k:] + attrs[:k] for k in range(len(attrs))] + [attrs[::-1]]
        for asn4 in (True, False):
            st, base, steps = budget.run(100000, Update.parse, None, enc(attrs), asn4)
            if st != 'ok' or base.get('sub_error'):
                continue
            want = codec.norm(base['attr'])
            for order in orders:
                n += 1
                st, got, steps = budget.run(100000, Update.parse, None, enc(list(order)), asn4)
                codes = tuple(c for f, c, v in order)
                if st != 'ok' or got.get('sub_error'):
                    out.append(('C15|attribute-order|a unit-test UPDATE stops decoding when its attributes are reordered (codes %s)' % sorted(codes),
                                {'order': codes, 'hex': enc(list(order)).hex(), 'asn4': asn4}))
                    break
                have = codec.norm(got['attr'])
                if have != want:
                    out.append(('C15|attribute-order|decoded attributes of a unit-test UPDATE depend on their order (codes %s: %s)'
                                % (sorted(codes), codec.first_diff(want, have)), {'order': codes, 'hex': enc(list(order)).hex(), 'asn4': asn4}))
                    break
            classes.add(('corpus-perm', tuple(sorted(c for f, c, v in attrs))))
    return n, out, classes


def full_message_orders():
    """rotations and reversal of the full 13-attribute message"""
    from yabgp.message.update import Update
    codes = sorted(ATTRS13)
    base = None
    nfull = 0
    extra = []
    for order in [codes[k:] + codes[:k] for k in range(len(codes))] + [codes[::-1]]:
        data = upd.encode_update({'attr': ATTRS13, 'nlri': ['192.0.2.0/24']}, True, False, {'order': order})
        st, got, steps = budget.run(300 + 60 * len(data), Update.parse, None, data[19:], True)
        nfull += 1
        if st != 'ok':
            extra.append(('C15|attribute-order|decoding failed for an order of the full message', {'order': order, 'hex': data.hex()}))
            continue
        v = codec.norm(got['attr'])
        if base is None and not got.get('sub_error'):
            base = v
        elif v != base or got.get('sub_error'):
            extra.append(('C15|attribute-order|decoded attributes depend on their order (full message)', {'order': order}))
    return nfull, extra


def bgpls_mix_cases(decs):
    """UPDATEs that carry a BGP-LS MP_REACH (node NLRI of protocol A), a BGP-LS MP_UNREACH (protocol B) and a BGP-LS
    attribute (29) whose decoding depends on the protocol: (A, B, attribute value)"""
    ls = tlv_pools(decs)['linkstate_tlv']
    from .. import seeds
    extra = []
    for s_ in seeds.unit_test_bytes():          # multi-TLV attribute values of the unit tests
        b, n = s_, 0
        while len(b) >= 4 and 4 + struct.unpack('!H', b[2:4])[0] <= len(b):
            b = b[4 + struct.unpack('!H', b[2:4])[0]:]
            n += 1
        if not b and n >= 2 and all(ok_ == 'ok' for ok_ in [budget.run(100000, decs['linkstate_tlv(proto=2)'], s_)[0]]):
            extra.append(s_)
    out = []
    for a in (1, 2, 3, 6):
        for b in (1, 2, 3, 6):
            for v in ls + extra[:6]:
                out.append((a, b, v))
    return out


def task_bgpls_mix(args):
    from yabgp.message.update import Update

    def node(proto):
        body = bytes([proto]) + b'\x00' * 7 + b'\x01' + struct.pack('!HH', 256, 8) + struct.pack('!HHI', 512, 4, 65000)
        return struct.pack('!HH', 1, len(body)) + body
    out = []
    n = 0
    classes = set()
    for a, b, lsv in args:
        attrs = [(0x40, 1, b'\x00'),
                 (0x80, 14, struct.pack('!HBB', 16388, 71, 4) + b'\x0a\x00\x00\x01' + b'\x00' + node(a)),
                 (0x80, 15, struct.pack('!HB', 16388, 71) + node(b)),
                 (0x80, 29, lsv)]
        base = None
        for order in itertools.permutations(attrs):
            blob = b''.join(upd.wrap_attr(f, c, v, len(v) > 255) for f, c, v in order)
            body = b'\x00\x00' + struct.pack('!H', len(blob)) + blob
            st, got, steps = budget.run(100000, Update.parse, None, body, True)
            n += 1
            codes = tuple(c for f, c, v in order)
            if st != 'ok':
                out.append(('C15|attribute-order|a BGP-LS UPDATE stops decoding in some attribute order', {'order': codes, 'hex': body.hex(), 'protocols': (a, b)}))
                break
            have = (codec.norm(got['attr']), got.get('sub_error'))
            if base is None:
                base = have
            elif have != base:
                out.append(('C15|attribute-order|decoded attributes of a BGP-LS UPDATE depend on their order (%s)'
                            % (codec.first_diff(base[0], have[0]) or 'error code'), {'order': codes, 'hex': body.hex(), 'protocols': (a, b)}))
                break
        classes.add(('bgpls-mix', a == b, struct.unpack('!H', lsv[:2])[0]))
    return n, out, classes


def task_stateless(args):
    """a decoder is a function of its octets: every UPDATE of the unit tests, every truncation and single-octet mutation of the link-state
    ones among them, decoded in one process three times - in order, again, and in reverse order after all the malformed ones have been
    seen - must give the same result each time"""
    from yabgp.message.update import Update
    from .. import seeds
    if args and args[0] == 'containers':
        # every registered link-state TLV as a container: a well-formed sub-TLV behind 0..22 octets of fixed part decodes the same
        # before and after six containers whose sub-TLV is cut short / overruns (a refused decode must leave nothing behind)
        decs = decoders()
        out, n = [], 0
        good_sub = struct.pack('!HH', 1252, 4) + b'\x20\x10\x10\x00'
        bad_subs = (struct.pack('!HH', 1252, 4) + b'\x20', struct.pack('!HH', 1252, 1) + b'\x00', struct.pack('!HH', 1252, 9) + b'\x20\x10\x10\x00')
        for t in args[1]:
            for pad in (0, 4, 6, 8, 12, 22):
                def tlv(sub):
                    val = b'\x00' * pad + sub
                    return struct.pack('!HH', t, len(val)) + val
                for name in ('linkstate_tlv', 'linkstate_tlv(proto=2)'):
                    def dec(e):
                        st, val, steps = budget.run(20000, decs[name], e)
                        return (st, repr(val) if st == 'ok' else type(val).__name__ if st == 'raise' else None)
                    r0 = dec(tlv(good_sub))
                    for _ in range(2):
                        for b in bad_subs:
                            dec(tlv(b))
                    r1 = dec(tlv(good_sub))
                    n += 8
                    if r0 != r1:
                        out.append(('C15|stateless|the same octets decode differently depending on what was decoded before',
                                    {'hex': tlv(good_sub).hex(), 'decoder': name, 'first': str(r0[1])[:300], 'later': str(r1[1])[:300],
                                     'in_between': [tlv(b).hex() for b in bad_subs]}))
        return n, out, set([('stateless-containers', True)])
    bodies = []
    for body in args:
        bodies.append(body)
        bodies += seeds.mutations(body)
    def dec(b):
        st, val, steps = budget.run(300 + 60 * len(b), Update.parse, None, b, True)
        return (st, repr(val) if st == 'ok' else type(val).__name__ if st == 'raise' else None)
    first = [dec(b) for b in bodies]
    second = [dec(b) for b in bodies]
    third = [dec(b) for b in reversed(bodies)][::-1]
    out = []
    for b, x, y, z in zip(bodies, first, second, third):
        if not (x == y == z):
            out.append(('C15|stateless|the same octets decode differently depending on what was decoded before',
                        {'hex': b.hex()[:600], 'first': x[1][:300] if x[1] else x[0], 'later': (y if y != x else z)[1][:300] if (y if y != x else z)[1] else (y if y != x else z)[0]}))
            if len(out) >= 5:
                break
    return 3 * len(bodies), out, set([('stateless', len(bodies) > 0)])


def _dispatch(t):
    if t[0] == 'stateless':
        return task_stateless(t[1])
    if t[0] == 'bgpls-mix':
        return task_bgpls_mix(t[1])
    return {'pairs': task_pairs, 'perms': task_perms, 'corpus': task_corpus_perms}[t[0]](t[1])


def run(tier, seed):
    tm = report.Timer()
    col = report.Collector(PROP)
    decs = decoders()
    ep = dict(pools.element_pools())
    ep['ipv4_prefix(mp)'] = ep['ipv4_prefix']
    # (computed in a forked child: the pools are found by trying the decoders, and the process that forks the tasks must not have
    # decoded anything - what a decoder keeps from an earlier call would be inherited by every task)
    ep.update(report.fresh(tlv_pools, decs))
    cap = 120 if tier == 'quick' else 300
    tasks = []
    sizes = {}
    for kind in sorted(ep):
        if kind not in decs:
            continue
        el = ep[kind]
        if len(el) > cap:
            step = len(el) / float(cap)
            el = [el[int(i * step)] for i in range(cap)]
        sizes[kind] = len(el)
        pairs = list(itertools.product(range(len(el)), repeat=2))
        triples = []
        if len(el) <= 40 and tier == 'thorough':
            triples = list(itertools.product(range(len(el)), repeat=3))
        elif kind in ('linkstate_tlv', 'prefix_sid_tlv', 'bgpls_descriptor', 'open_capability'):
            # a || unknown || b for the TLV kinds: the last element of these pools is an unknown type
            u = len(el) - 1
            triples = [(a, u, b) for a in range(len(el)) for b in range(len(el))]
        combos = pairs + triples
        for i in range(0, len(combos), 4000):
            tasks.append(('pairs', (kind, el, combos[i:i + 4000], None)))
    codes = sorted(ATTRS13)
    subs = [s for k in range(2, (5 if tier == 'thorough' else 4) + 1) for s in itertools.combinations(codes, k)]
    subs += [tuple(codes)]      # the full message: only a few orders (13! is out of reach): handled below
    small = [s for s in subs if len(s) <= 5]
    c2 = sorted(ATTRS_AS2)
    small += [('as2',) + s_ for k in range(2, 5) for s_ in itertools.combinations(c2, k) if set(s_) & {17, 18}]
    for i in range(0, len(small), 60):
        tasks.append(('perms', small[i:i + 60]))
    cu = corpus_updates()
    for i in range(0, len(cu), 4):
        tasks.append(('corpus', cu[i:i + 4]))
    mix = report.fresh(bgpls_mix_cases, decs)
    for i in range(0, len(mix), 150):
        tasks.append(('bgpls-mix', mix[i:i + 150]))
    # the decoders keep nothing: the unit tests' UPDATEs (their mutations too, for those that carry link-state or SR attributes) three times
    st_pool = [b for b, _ in cu if len(b) <= 400]
    for i in range(0, len(st_pool), 3):
        tasks.append(('stateless', st_pool[i:i + 3]))
    from yabgp.message.attribute.linkstate.linkstate import LinkState
    lt = sorted(LinkState.registered_tlvs)
    for i in range(0, len(lt), 20):
        tasks.append(('stateless', ('containers', lt[i:i + 20])))
    res = explore.pmap(_dispatch, tasks, chunk=1)
    nfull, extra = full_message_orders()
    explore.close_pool()
    total = nfull
    classes = set()
    for t, (n, out, cl) in zip(tasks, res):
        total += n
        classes |= cl
        for k, det in out:
            col.add(k, det, det, task=None if t[0] == 'pairs' else t)
    for k, det in extra:
        col.add(k, det, det)
    n_new, n_known, summary = col.finish('c15-case')
    cov = {
        'evaluations': total, 'distinct_nontrivial': len(classes),
        'rule': 'per list kind (%d kinds) a pool of well-formed element encodings covering every element width (reference encoder; for the '
                'TLV kinds every registered type with its shortest and longest body that decodes alone); all ordered pairs (a, b), all '
                'triples for pools <= 40 (thorough), a || unknown || b for the TLV kinds: D(a||b) must equal D(a) ++ D(b) (dict union for OPEN '
                'capabilities); all orders of every <= %d-subset of a 13-attribute UPDATE (and, on a 2-octet-AS session, of every <= 4-subset of 8 attributes that contains AS4_PATH or AS4_AGGREGATOR) plus rotations / reversal of the full one; all 24 orders of BGP-LS UPDATEs with MP_REACH (protocol A) + MP_UNREACH (protocol B) + attribute 29 for A, B in {1,2,3,6} x every link-state TLV of the pool. '
                'distinct_nontrivial = distinct (kind, element widths)' % (len(sizes), 5 if tier == 'thorough' else 4),
        'samples': [{'kind': k, 'a': report.pick(ep[k], seed, 1)[0].hex(), 'b': report.pick(ep[k], seed + 1, 1)[0].hex()} for k in report.pick(sorted(sizes), seed, 3)],
        'pool_sizes': sizes, 'unit_test_updates_permuted': len(cu), 'bgpls_mix_cases': len(mix), 'exhaustive': True, 'violation_keys': summary,
    }
    report.write_evidence(PROP, tier, seed, 'exploration', cov,
                          ['purely differential oracle: no reference decoder involved; element pools from the reference encoder (vf/ref) and, '
                           'for TLV kinds, from bodies the decoder accepts alone'], tm.wall(), n_new)
    return 1 if n_new else 0


def replay(path):
    import json
    d = json.load(open(path))
    w = d['witness']
    if 'elements' not in w:
        print(json.dumps(d.get('detail'), indent=1)[:1500])
        if 'task' in d:
            rc = report.replay_in_task(d, _dispatch)
            return rc
        return 1 if d['key'] in [k for k, _ in report.fresh(full_message_orders)[1]] else 0
    parts = [bytes.fromhex(x) for x in w['elements']]
    t = (w['kind'], parts, [tuple(range(len(parts)))], None)
    a, b = report.twice(task_pairs, t)
    if repr(a[1]) != repr(b[1]):
        print('HARNESS-ERROR: replay is not deterministic')
        return 2
    print('kind', w['kind'], 'elements', w['elements'])
    for k, det in a[1]:
        print(k)
        print('  separately:', det.get('separately'))
        print('  together  :', det.get('together'))
    return 1 if d['key'] in [k for k, _ in a[1]] else 0
