"""C17 - decoded community text is accepted back by the REST API and re-encodes the same (DESIGN 7, C17).
Starts from BYTES: every extended-community kind the decoder renders x field boundary values, every
community class, large-community field boundaries; decode -> POST the text to json_to_bin -> the octets
produced must denote the same value (reference decoding) and render the identical text again."""
import itertools
import struct

from .. import explore, report, world as W, budget
from ..ref import wire
from ..alphabet import session_messages

PROP = 'C17'
M = session_messages()
# the operator polls the state while the agent is still Idle (what the API answers then must not stick), then the session comes up
M = dict(M)
M['@early_poll'] = ('GET', '/v1/peer/<ip>/state', None)
EST = [('REST', 'early_poll'), ('TICK', 0), ('CONN_OK', 0), ('RX', 0, 'OPEN_OK'), ('RX', 0, 'KA')]
U16 = (0, 1, 255, 256, 65535)
U32 = (0, 1, 65535, 65536, 2 ** 31, 2 ** 32 - 1)
AS4 = (65536, 2 ** 31, 2 ** 32 - 1, 1, 65535)
IPS = (0, 1, 0x0A000001, 0x7FFFFFFF, 0xFFFFFFFF)
MACS = (b'\x00' * 6, b'\xff' * 6, bytes.fromhex('0a1b2c3d4e5f'), bytes.fromhex('000000000001'))


def ext_pool():
    """(kind, 8 octets)"""
    out = []
    for t in (0x0002, 0x0003, 0x8008, 0x4004):
        for a, n in itertools.product(U16, U32):
            out.append(('%04x' % t, struct.pack('!HHI', t, a, n)))
    for t in (0x0102, 0x0103):
        for ip, n in itertools.product(IPS, U16):
            out.append(('%04x' % t, struct.pack('!HIH', t, ip, n)))
    for t in (0x0202, 0x0203):
        for a, n in itertools.product(AS4, U16):
            out.append(('%04x' % t, struct.pack('!HIH', t, a, n)))
    for res, c in itertools.product((0, 0x4000, 0x8000, 0xC000, 0xFFFF), U32):
        out.append(('030b', struct.pack('!HHI', 0x030b, res, c)))
    for res, tt in itertools.product((0, 0xFFFF), (0, 1, 8, 15, 65535)):
        out.append(('030c', struct.pack('!HHHH', 0x030c, res, 0, tt)))
    for ip, f in itertools.product(IPS, (0, 1, 65535)):
        out.append(('0800', struct.pack('!HIH', 0x0800, ip, f)))
    for a, r in itertools.product(U16, (0.0, 1.0, 1000.0, 16777216.0, 4294967296.0)):
        out.append(('8006', struct.pack('!HHf', 0x8006, a, r)))
    for pad, bits in itertools.product((0, 0xFF), range(4)):
        out.append(('8007', struct.pack('!HIBB', 0x8007, 0, pad if False else 0, bits) if pad == 0 else
                    struct.pack('!H', 0x8007) + b'\xff' * 5 + bytes([0xFC | bits])))
    for pad, d in itertools.product((0,), range(64)):
        out.append(('8009', struct.pack('!HIBB', 0x8009, 0, 0, d)))
    out.append(('8009', struct.pack('!H', 0x8009) + b'\xff' * 5 + bytes([63])))
    for fl, lab in itertools.product((0, 1, 255), (0, 1, 16, 2 ** 20 - 1)):
        out.append(('0601', struct.pack('!HBH', 0x0601, fl, 0) + struct.pack('!I', lab << 4)[1:]))
        out.append(('0601', struct.pack('!HBH', 0x0601, fl, 0) + struct.pack('!I', lab << 4 | 1)[1:]))
    for fl, seq in itertools.product((0, 1, 255), U32):
        out.append(('0600', struct.pack('!HBBI', 0x0600, fl, 0, seq)))
    for t in (0x0602, 0x0603):
        for mac in MACS:
            out.append(('%04x' % t, struct.pack('!H', t) + mac))
    return out


def ext_abstract(b):
    """reference reading of 8 octets: the VALUE an extended community denotes (reserved fields ignored)"""
    t = struct.unpack('!H', b[:2])[0]
    v = b[2:]
    if t in (0x0002, 0x0202, 0x0102):
        if t == 0x0002:
            a, n = struct.unpack('!HI', v)
        elif t == 0x0202:
            a, n = struct.unpack('!IH', v)
        else:
            a, n = struct.unpack('!IH', v)
            return ('route-target', 'ip', a, n)
        return ('route-target', 'as', a, n)
    if t in (0x0003, 0x0203, 0x0103):
        if t == 0x0003:
            a, n = struct.unpack('!HI', v)
        elif t == 0x0203:
            a, n = struct.unpack('!IH', v)
        else:
            a, n = struct.unpack('!IH', v)
            return ('route-origin', 'ip', a, n)
        return ('route-origin', 'as', a, n)
    if t == 0x8008:
        return ('redirect-vrf',) + struct.unpack('!HI', v)
    if t == 0x4004:
        return ('dmzlink-bw',) + struct.unpack('!HI', v)
    if t == 0x030b:
        return ('color', struct.unpack('!I', v[2:])[0])
    if t == 0x030c:
        return ('encapsulation', struct.unpack('!H', v[4:])[0])
    if t == 0x0800:
        return ('redirect-nexthop',) + struct.unpack('!IH', v)
    if t == 0x8006:
        return ('traffic-rate',) + struct.unpack('!Hf', v)
    if t == 0x8007:
        return ('traffic-action', v[5] >> 1 & 1, v[5] & 1)
    if t == 0x8009:
        return ('traffic-marking', v[5] & 0x3F)
    if t == 0x0601:
        return ('esi-label', v[0], struct.unpack('!I', b'\x00' + v[3:])[0] >> 4)
    if t == 0x0600:
        return ('mac-mobility', v[0], struct.unpack('!I', v[2:])[0])
    if t == 0x0602:
        return ('es-import', v)
    if t == 0x0603:
        return ('router-mac', v)
    return ('unknown', b)


def comm_pool():
    wk = [0xFFFF0000, 0xFFFF0001, 0xFFFF0002, 0xFFFF0003, 0xFFFF0004, 0xFFFF0005, 0xFFFF029A, 0xFFFFFF01, 0xFFFFFF02,
          0xFFFFFF03, 0xFFFFFF04]
    other = [0, 1, 65535, 65536, 0xFFFF0006, 0xFFFFFFFF, 0xFFFEFFFF, 0x00010000, 0x7FFFFFFF, 0x80000000, (65001 << 16) | 100]
    return [('wellknown', struct.pack('!I', x)) for x in wk] + [('plain', struct.pack('!I', x)) for x in other]


def large_pool():
    vals = (0, 1, 2 ** 31, 2 ** 32 - 1)
    return [('large', struct.pack('!III', a, b, c)) for a, b, c in itertools.product(vals, repeat=3)]


def world(cfg=None):
    return W.replay(cfg or {}, EST, M)


def decode_attr(code, value):
    from yabgp.message.attribute.extcommunity import ExtCommunity
    from yabgp.message.attribute.community import Community
    from yabgp.message.attribute.largecommunity import LargeCommunity
    cls = {16: ExtCommunity, 8: Community, 32: LargeCommunity}[code]
    return cls.parse(value)


def roundtrip(w, code, raw_items, endpoint='json_to_bin', comma=False):
    """raw_items: list of element encodings of one attribute. Returns (symptom or None, detail).
    comma: post the elements in the REST interface's list syntax 'route-target:a:b,c:d' (one string, key written once)"""
    value = b''.join(raw_items)
    st, texts, steps = budget.run(50000, decode_attr, code, value)
    if st != 'ok':
        return 'decoder cannot render the value: %s' % ('overrun' if st == 'overrun' else type(texts).__name__), {'error': str(texts)[:200]}
    if len(texts) != len(raw_items) or not all(isinstance(t, str) for t in texts):
        return 'decoder rendered %r' % (texts,), None
    posted = texts
    if comma:
        keys = set(t.split(':', 1)[0] for t in texts)
        if len(keys) != 1:
            return None, None
        posted = [keys.pop() + ':' + ','.join(t.split(':', 1)[1] for t in texts)]
    body = {'attr': {'1': 0, '2': [], '3': '10.0.0.1', str(code): posted}, 'nlri': ['10.9.0.0/16']}
    if endpoint == 'send/update':
        # the second REST view has its own copy of the text -> value code: read what it put on the wire
        t = w.readable()[0].transport
        before = len(t.writes)
        try:
            status, js, rawresp = w.rest('POST', '/v1/peer/<ip>/send/update', json=body, raw=True)
            w.sim.drain_threads()
        except Exception as e:     # noqa
            return 'REST send/update raised %s' % type(e).__name__, {'text': texts, 'error': str(e)[:200]}
        new = [d for _, d in t.writes[before:]]
        if status != 200 or not isinstance(js, dict) or js.get('status') is not True or len(new) != 1:
            return 'REST send/update refused the decoder\'s own text (status %s)' % status, {'text': texts, 'json': js, 'written': len(new)}
        js = {'bin': new[0].hex()}
    else:
        try:
            status, js, rawresp = w.rest('POST', '/v1/peer/<ip>/json_to_bin', json=body, raw=True)
        except Exception as e:     # noqa
            return 'REST json_to_bin raised %s' % type(e).__name__, {'text': texts, 'error': str(e)[:200]}
        if status != 200 or not isinstance(js, dict) or 'bin' not in js:
            return 'REST json_to_bin refused the decoder\'s own text (status %s)' % status, {'text': texts, 'json': js}
    try:
        msg = bytes.fromhex(js['bin'])
        frames, err, rest = wire.deframe(msg)
        wd, attrs, nlri = wire.parse_update(frames[0][1])
    except Exception as e:   # noqa
        return 'json_to_bin returned bytes that are not an UPDATE', {'text': texts, 'bin': js.get('bin'), 'error': str(e)}
    got = [v for f, c, v in attrs if c == code]
    if len(got) != 1:
        return 'attribute %d missing from the produced UPDATE' % code, {'text': texts, 'bin': js['bin']}
    out = got[0]
    size = {16: 8, 8: 4, 32: 12}[code]
    if len(out) != len(value) or len(out) % size:
        return 'produced attribute has %d octets for %d elements' % (len(out), len(raw_items)), {'text': texts, 'produced': out.hex()}
    for i in range(0, len(out), size):
        a, b = value[i:i + size], out[i:i + size]
        same = (ext_abstract(a) == ext_abstract(b)) if code == 16 else (a == b)
        if not same:
            return 'produced octets denote another value', {'text': texts, 'original': a.hex(), 'produced': b.hex()}
    st, again, steps = budget.run(50000, decode_attr, code, out)
    if st != 'ok' or again != texts:
        return 'produced octets render a different text', {'text': texts, 'again': again if st == 'ok' else str(again), 'produced': out.hex()}
    return None, None


# non-default local configurations under which the same texts must be accepted: 4-octet AS support switched off locally
# (the peer still announces it), capabilities reduced
LOCAL_CFGS = {'x': None, 'as4-off': {'four_bytes_as': False}, 'caps-off': {'route_refresh': False, 'cisco_route_refresh': False, 'graceful_restart': False},
              'rib-on': {'rib': True}}


COMMA_KINDS = {'route-target': ('0002', '0102', '0202'), 'route-origin': ('0003', '0103', '0203')}      # type codes: 2-octet AS, IPv4, 4-octet AS


def oversize_posts(w):
    """lists too long for one attribute without the extended-length form (64 / 300 communities, 40 extended, 30 large): the agent
    may refuse or encode them - what matters is that the posts of this task that follow are handled as in a fresh process"""
    for code, texts in ((8, ['65001:%d' % i for i in range(64)]), (8, ['65001:%d' % i for i in range(300)]),
                        (16, ['route-target:65001:%d' % i for i in range(40)]), (32, ['65001:1:%d' % i for i in range(30)])):
        body = {'attr': {'1': 0, '2': [], '3': '10.0.0.1', str(code): texts}, 'nlri': ['10.9.0.0/16']}
        for path in ('/v1/peer/<ip>/json_to_bin', '/v1/peer/<ip>/send/update'):
            try:
                w.rest('POST', path, json=body)
                w.sim.drain_threads()
            except Exception:      # noqa  (a refusal of any kind is fine)
                pass


def task(args):
    kind, items = args
    w = world(LOCAL_CFGS.get(kind))
    v = []
    classes = set()
    n = 0
    oversize_posts(w)
    for entry in items:
        code, labels, raws = entry
        comma = bool(labels) and labels[-1] == 'comma-list'
        for endpoint in ('json_to_bin', 'send/update'):
            n += 1
            sym, det = roundtrip(w, code, raws, endpoint, comma)
            classes.add((code, labels, endpoint, sym))
            if sym:
                d = {'attr': code, 'kinds': labels, 'bytes': [r.hex() for r in raws], 'endpoint': endpoint}
                d.update(det or {})
                v.append(('C17|%s|%s|%s%s' % ({16: 'ext', 8: 'community', 32: 'large'}[code], '+'.join(labels), sym, '' if kind == 'x' else '|local ' + kind), d))
    return n, v, classes


def _dispatch(t):
    if t[0] == 'threads':
        from .. import concurrent
        return concurrent.task3(t[1])
    return task(t)


def run(tier, seed):
    tm = report.Timer()
    col = report.Collector(PROP)
    ext = ext_pool()
    singles = [(16, (k,), [b]) for k, b in ext] + [(8, (k,), [b]) for k, b in comm_pool()] + [(32, (k,), [b]) for k, b in large_pool()]
    # all pairs of different kinds in one request (one representative per kind, plus boundary-heavy second representative)
    reps = {}
    for k, b in ext:
        reps.setdefault(k, []).append(b)
    pairs = []
    for (k1, l1), (k2, l2) in itertools.permutations(sorted(reps.items()), 2):
        pairs.append((16, (k1, k2), [l1[len(l1) // 2], l2[-1]]))
    # two elements of the same kind with different values in one request (state shared between the elements of a request)
    for k, l in sorted(reps.items()):
        vals = [l[0], l[len(l) // 2], l[-1]]
        for a, b in itertools.permutations(range(len(vals)), 2):
            if vals[a] != vals[b]:
                pairs.append((16, (k, k), [vals[a], vals[b]]))
        if len(set(vals)) == 3:
            pairs.append((16, (k, k, k), vals))
    cp = comm_pool()
    for (k1, b1), (k2, b2) in itertools.permutations(cp, 2):
        pairs.append((8, (k1, k2), [b1, b2]))
    lp = large_pool()
    pairs += [(32, ('large', 'large'), [lp[i][1], lp[-1 - i][1]]) for i in range(0, len(lp), 3)]
    # long lists that still fit one attribute (255 value octets): 50 / 51 / 63 communities, 31 extended, 21 large
    cvals = [struct.pack('!I', (65001 << 16) | i) for i in range(63)]
    longs = [(8, ('n=%d' % k,), cvals[:k]) for k in (50, 51, 60, 63)]
    longs.append((16, ('n=31',), [bytes.fromhex('0002fde9') + struct.pack('!I', i) for i in range(31)]))
    longs.append((32, ('n=21',), [struct.pack('!III', 65001, 1, i) for i in range(21)]))
    # the list syntax of the REST interface (key once, values separated by commas): every ordered pair and triple of the three
    # route-target / route-origin forms (2-octet AS, IPv4 address, 4-octet AS), first and last value of each
    commas = []
    for base in ('route-target', 'route-origin'):
        forms = [reps[k] for k in COMMA_KINDS[base]]
        picks = [f[0] for f in forms] + [f[-1] for f in forms]
        for a, b in itertools.permutations(picks, 2):
            commas.append((16, (base, 'comma-list'), [a, b]))
        for a, b, c in itertools.permutations([f[len(f) // 2] for f in forms], 3):
            commas.append((16, (base, 'comma-list'), [a, b, c]))
    items = singles + pairs + longs + commas
    tasks = [('x', items[i:i + 150]) for i in range(0, len(items), 150)]
    for kind in ('as4-off', 'caps-off'):
        tasks += [(kind, singles[i:i + 150]) for i in range(0, len(singles), 150)]
    # with RIB maintenance on the agent also files what it sends: the lists of a request must reach the wire as written
    multi = pairs + commas
    tasks += [('rib-on', multi[i:i + 150]) for i in range(0, len(multi), 150)]
    # two requests translated by two worker threads at once: every schedule with one preemption (vf/threads.py, vf/concurrent.py)
    from .. import concurrent
    tasks += [('threads', a) for a in concurrent.tasks(PROP, tier)]
    res = explore.pmap(_dispatch, tasks, chunk=1)
    explore.close_pool()
    total = 0
    classes = set()
    for t, (n, v, cl) in zip(tasks, res):
        total += n
        classes |= cl
        for k, det in v:
            col.add(k, det, det, task=t)
    n_new, n_known, summary = col.finish('c17-case')
    classes, interleavings = concurrent.coverage(classes)
    cov = {
        'thread_interleavings': interleavings,
        'evaluations': total, 'distinct_nontrivial': len(classes),
        'rule': 'from bytes: %d extended communities (18 type codes x field boundary values), %d communities (all 11 well-known values + '
                'boundary values), %d large communities (each field in {0,1,2^31,2^32-1}); each decoded by the agent, the text posted '
                'to POST /v1/peer/<ip>/json_to_bin AND to POST /v1/peer/<ip>/send/update (which has its own copy of the text-to-value code; bytes read from the transport) in an Established 4-octet-AS session, the produced attribute compared by the reference '
                'reading of the value and re-decoded; plus all ordered pairs of different kinds, and pairs / triples of the same kind with different values, in one request; lists of 50..63 communities / 31 extended / 21 large (the longest one attribute holds); every task first posts oversize lists (64, 300 ...) whose outcome is not judged. distinct = (attribute, '
                'kinds, symptom)' % (len(ext), len(cp), len(lp)),
        'samples': [{'attribute': it[0], 'kinds': list(it[1]), 'bytes': [b.hex() for b in it[2]]} for it in report.pick(items, seed, 3)],
        'singles': len(singles), 'pairs': len(pairs), 'exhaustive': True, 'violation_keys': summary,
    }
    report.write_evidence(PROP, tier, seed, 'exploration', cov,
                          ['reference reading of extended community values (RFC 4360, 5668, 5575/8955, 7432, 9012, 7153); reserved fields and '
                           'the low nibble of the ESI-label field are not part of the value'] + report.ASSUMPTIONS_E1[:1], tm.wall(), n_new)
    return 1 if n_new else 0


def replay(path):
    import json
    d = json.load(open(path))
    w = d['witness']
    if '|threads|' in d['key']:
        from .. import concurrent
        return concurrent.cli_replay(PROP, d)
    raws = [bytes.fromhex(x) for x in w['bytes']]
    comma = 'comma-list' in (w.get('kinds') or ())
    r1, r2 = report.twice(lambda: roundtrip(world(), w['attr'], raws, w.get('endpoint', 'json_to_bin'), comma))
    if repr(r1) != repr(r2):
        print('HARNESS-ERROR: replay is not deterministic')
        return 2
    print('attribute', w['attr'], 'element bytes', w['bytes'])
    print('symptom:', r1[0])
    print('detail :', r1[1])
    if r1[0] and d['key'].endswith(r1[0]):
        return 1
    return report.replay_in_task(d, _dispatch)
