"""C13 - operator stop is final until operator start (DESIGN 7, C13)."""
from .. import explore, report, world as W
from ..alphabet import session_messages
from .c12 import generic_replay

PROP = 'C13'


def evclass(w, ev):
    if ev[0] == 'TICK':
        return 'TICK:%s' % w.last_info.get('callee')
    if ev[0] == 'RX':
        return 'RX:%s' % ev[2]
    return ev[0]


class Monitor(explore.BaseMonitor):
    def __init__(self, cfg, w):
        self.dead = False
        self.stopped = False
        self.started_from_stop = False

    def pre(self, w, ev):
        self.state_before = w.reported_state()
        self.key_before = w.key() if ev[0] == 'OP_START' else None
        p = w.fsm.protocol
        self.fsm_tid_before = p.transport.tid if (p is not None and p.transport is not None) else None
        self.readable_before = [c.cid for c in w.readable()]
        self.connecting_before = [c.cid for c in w.connecting()]

    def post(self, w, ev, obs, aobs):
        v = []
        writes = [e for e in obs if e[0] == 'write']
        awrites = [e for e in aobs if e[0] == 'write']
        connects = [e for e in obs if e[0] == 'connect']
        loses = [e[1] for e in obs if e[0] == 'lose']
        st = w.reported_state()
        was_stopped = self.stopped
        self.started_from_stop = False
        if ev[0] == 'OP_STOP':
            sb = self.state_before
            if sb == 'ESTABLISHED':
                ok = (len(awrites) == 1 and awrites[0][2] == 'NOTIF' and awrites[0][3] == 6
                      and writes[0][1] == self.fsm_tid_before)
                if not ok:
                    v.append(('C13|stop|%s|expected exactly one Cease, wrote %s' % (sb, [a[2:] for a in awrites]), None))
            else:
                for a in awrites:
                    if not (a[2] == 'NOTIF' and a[3] == 6):
                        v.append(('C13|stop|%s|unexpected write %s' % (sb, a[2:]), None))
            for cid in self.readable_before:
                if cid not in loses:
                    v.append(('C13|stop|%s|open connection not closed' % sb, None))
            if connects:
                v.append(('C13|stop|%s|connectTCP during stop' % sb, None))
            if st != 'IDLE':
                v.append(('C13|stop|%s|reported state %s after stop' % (sb, st), None))
            self.stopped = True
        elif ev[0] == 'OP_START':
            if was_stopped:
                if len(connects) != 1:
                    v.append(('C13|start-from-stopped|%d connectTCP calls' % len(connects), None))
                elif st != 'CONNECT':
                    v.append(('C13|start-from-stopped|reported state %s' % st, None))
                if awrites:
                    v.append(('C13|start-from-stopped|wrote %s' % [a[2:] for a in awrites], None))
                self.stopped = False
                self.started_from_stop = True
            elif self.state_before == 'ESTABLISHED':
                if writes or connects or loses or w.key() != self.key_before:
                    v.append(('C13|start-while-established|not a no-op', {'obs': aobs}))
        elif was_stopped:
            cls = evclass(w, ev)
            for a in awrites:
                v.append(('C13|after-stop|%s|wrote %s' % (cls, a[2]), None))
            if connects:
                v.append(('C13|after-stop|%s|connectTCP' % cls, None))
            if st != 'IDLE':
                v.append(('C13|after-stop|%s|reported state %s' % (cls, st), None))
        if self.stopped and w.readable():
            v.append(('C13|stopped|connection left open after %s' % evclass(w, ev), None))
        return v

    def key(self):
        return (self.stopped,)


class Harness(explore.BaseHarness):
    prop = PROP
    Monitor = Monitor
    messages = session_messages(full=True, holds=(90,))

    def rx_alphabet(self, w, mon):
        return ['OPEN_OK', 'KA', 'UPD', 'NOTIF_CEASE', 'BAD_MARKER']

    def extend(self, w, mon):
        return True

    def make_script(self, cfg, **kw):
        return explore.Script(cfg, **kw)

    def state_checks(self, cfg, history, w, mon):
        """after OP_START from the stopped state automatic recovery is in force again"""
        if not (history and history[-1][0] == 'OP_START' and mon.started_from_stop):
            return []
        v = []
        script = explore.Script(cfg, refuse_first=1)
        t0 = w.sim.now
        connects = []

        def on_step(ww, rec):
            for e in rec[4]:
                if e[0] == 'connect':
                    connects.append(ww.sim.now)
        tr = explore.run_script(w, self, script, max_steps=40,
                                until=lambda ww, t: ww.reported_state() == 'ESTABLISHED', on_step=on_step)
        if w.reported_state() != 'ESTABLISHED':
            v.append(('C13|start-from-stopped|no automatic recovery after a refused connect', {'trace': [(x[0], x[2]) for x in tr][-12:]}))
        return v


CONFIGS = {
    # the last configuration of each tier: TCP-MD5 configured and the kernel refusing the socket option (setsockopt raises
    # inside connect(), after connectTCP has already started the attempt)
    'quick': [{'retry': 30, 'idle_hold': 30}, {'retry': 10, 'idle_hold': 5}, {'retry': 10, 'idle_hold': 5, 'md5': 'secret', 'setsockopt_fails': True}],
    'thorough': [{'retry': r, 'idle_hold': i} for r in (10, 30, 40) for i in (5, 30)] + [
        {'retry': 10, 'idle_hold': 5, 'md5': 'secret', 'setsockopt_fails': True}, {'retry': 30, 'idle_hold': 30, 'md5': 'secret', 'setsockopt_fails': True},
        {'retry': 10, 'idle_hold': 5, 'md5': 'secret'}],
}
FROM_EST = {'quick': 6, 'thorough': 8}
DEPTH = {'quick': 7, 'thorough': 9}
DEVK = {'quick': 1, 'thorough': 2}


def run(tier, seed):
    tm = report.Timer()
    h = Harness()
    col = report.Collector(PROP)
    res = explore.BFSResult()
    dev = []
    for cfg in CONFIGS[tier]:
        explore.bfs(h, cfg, DEPTH[tier], col, seed=seed, result=res, merge_all=(tier == 'thorough'), merge_lookahead=2,
                    run_state_checks=True)
        explore.bfs(h, cfg, FROM_EST[tier], col, seed=seed, result=res, merge_all=(tier == 'thorough'), merge_lookahead=2,
                    run_state_checks=True, start=(('TICK', 0), ('CONN_OK', 0), ('RX', 0, 'OPEN_OK'), ('RX', 0, 'KA')))
        for kind in ('coop', 'lateclose', 'silent', 'refuse'):
            kk, win = (2, 10) if tier == 'quick' else (DEVK[tier], 24)
            st = explore.deviations(h, cfg, kk, 40, col, script_kw={'kind': kind}, window=win)
            dev.append({'cfg': cfg, 'script': kind, 'executions': st['executions'], 'events': st['events'], 'k': st['k'], 'window': st['window']})
    explore.close_pool()
    n_new, n_known, summary = col.finish('e1-history')
    cov = {
        'states': res.states, 'transitions': res.transitions,
        'traces_validated_against_impl': res.transitions + sum(d['executions'] for d in dev) + res.state_checks,
        'samples': res.samples, 'max_depth': res.max_depth, 'closed': res.closed,
        'depth_cap_hit': res.depth_cap_hit, 'distinct_observation_classes': len(res.obs_classes),
        'merges': res.merges, 'merges_checked': res.merges_checked, 'merges_refuted_and_undone': res.refinements[:5], 'n_merges_refuted': len(res.refinements), 'diverged_transitions': res.diverged,
        'nested_recovery_checks': res.state_checks,
        'configs': CONFIGS[tier], 'deviation_bounded': dev, 'violation_keys': summary,
        'explanation': 'BFS to depth %d over the full menu including OP_STOP/OP_START in every reachable state '
                       '(so: stop in every state reached within the depth, then every continuation up to the depth), '
                       'monitor: no write / no connectTCP / state Idle while stopped; plus <= %d deviations from the script'
                       % (DEPTH[tier], DEVK[tier]),
    }
    report.write_evidence(PROP, tier, seed, 'model_checking', cov, report.ASSUMPTIONS_E1, tm.wall(), n_new)
    return 1 if n_new else 0


def replay(path):
    return generic_replay(path, Harness())
