"""C10 - hostile peer input is contained: no crash, no hang, no collateral damage (DESIGN 7, C10).
A finite hostile pool (unit-test corpus + reference messages, all single-octet mutations and
truncations, framed as every message type and as the value of many attribute types) is delivered in
every session state that can receive bytes, followed by a suite of known-good messages whose
handling must equal a pristine agent's; closed sessions must recover (C02's continuation)."""
import struct

from .. import explore, report, world as W, seeds
from ..ref import wire
from ..alphabet import session_messages, simple_update, attr, update_body, PEER_ID
from . import c02

PROP = 'C10'
M = dict(session_messages())
M['OPEN_PEER_H0'] = wire.open_msg(65002, 0, PEER_ID, __import__('vf.alphabet', fromlist=['peer_caps']).peer_caps())
M['OPEN_RICH'] = wire.open_msg(65002, 90, PEER_ID, [wire.cap_mp(1, 1), wire.cap_mp(2, 1), wire.cap_mp(1, 133), wire.cap(wire.CAP_RR), wire.cap(wire.CAP_RR_OLD),
                                                    wire.cap(70), wire.cap_gr(0x4078, [(1, 1, 0x80)]), wire.cap_addpath([(1, 1, 3)]),
                                                    wire.cap_llgr([(1, 1, 0, 3600)]), wire.cap_ext_nh([(1, 1, 2)])])
STATES = {
    'opensent': [('TICK', 0), ('CONN_OK', 0)],
    'openconfirm': [('TICK', 0), ('CONN_OK', 0), ('RX', 0, 'OPEN_OK')],
    'established': [('TICK', 0), ('CONN_OK', 0), ('RX', 0, 'OPEN_OK'), ('RX', 0, 'KA')],
    'established-hold0': [('TICK', 0), ('CONN_OK', 0), ('RX', 0, 'OPEN_OK'), ('RX', 0, 'KA')],
    # hold time 0 because the PEER proposed it (180 configured): the configured and the negotiated value differ
    'established-peer-hold0': [('TICK', 0), ('CONN_OK', 0), ('RX', 0, 'OPEN_PEER_H0'), ('RX', 0, 'KA')],
    # 7 s after the last message: a restart of the hold timer is visible in the timer residues
    'established-later': [('TICK', 0), ('CONN_OK', 0), ('RX', 0, 'OPEN_OK'), ('RX', 0, 'KA'), ('WAIT', 7.0)],
    # the peer announced every capability the agent knows (enhanced route refresh, graceful restart, ADD-PATH, LLGR, extended next
    # hop): code that is switched on by the peer's capability set runs only here
    # the operator runs the agent with debug logging: whatever sits behind LOG.isEnabledFor(DEBUG) / builds LOG.debug arguments runs
    'established-debug-log': [('TICK', 0), ('CONN_OK', 0), ('RX', 0, 'OPEN_OK'), ('RX', 0, 'KA')],
    'established-rich': [('TICK', 0), ('CONN_OK', 0), ('RX', 0, 'OPEN_RICH'), ('RX', 0, 'KA')],
    'established-2nd-session': [('TICK', 0), ('CONN_OK', 0), ('RX', 0, 'OPEN_OK'), ('RX', 0, 'KA'), ('PEER_CLOSE', 0), ('TICK', 0),
                                ('CONN_OK', 0), ('RX', 0, 'OPEN_OK'), ('RX', 0, 'KA')],
}
CFG = {'established-hold0': {'hold': 0}, 'established-debug-log': {'debug_log': True}}
WRAP_TYPES = (2, 8, 14, 15, 16, 22, 23, 29, 32, 40)


def good_suite():
    v6 = struct.pack('!HBB', 2, 1, 16) + bytes.fromhex('20010db8000000000000000000000001') + b'\x00' + b'\x40' + bytes.fromhex('20010db800010000')
    fs = struct.pack('!HBB', 1, 133, 0) + b'\x00' + b'\x05\x01\x18\x0a\x00\x01'
    base = attr(0x40, 1, b'\x00') + attr(0x40, 2, struct.pack('!BBI', 2, 1, 65002))
    return [
        ('KA', wire.keepalive()),
        ('UPD-ipv4', simple_update(65002)),
        ('UPD-ipv6', wire.frame(wire.UPDATE, update_body(b'', base + attr(0x80, 14, v6), b''))),
        ('UPD-flowspec', wire.frame(wire.UPDATE, update_body(b'', base + attr(0x80, 14, fs), b''))),
        ('RR', wire.route_refresh(1, 1)),
    ]


SUITE = good_suite()


def reports(obs):
    # (on_connection_lost / on_established tell the application about the session, not about a message)
    return [(e[1], e[2]) for e in obs if e[0] == 'cb' and e[1] not in ('on_connection_lost', 'on_established')]


_pristine = {}


def pristine(state):
    if state not in _pristine:
        w = W.replay(CFG.get(state, {}), STATES[state], M)
        out = []
        for name, data in SUITE:
            if not w.readable():
                out.append((name, None))
                continue
            out.append((name, reports(w.step(('RX', 0, data)))))
        _pristine[state] = out
    return _pristine[state]


def frames_for(seed, mode):
    """hostile frames built from one seed: as the body of every message type, and as the value of attribute types"""
    out = []
    for ty in (1, 2, 3, 5, 128):
        if len(seed) + 19 <= 4096:
            out.append(('type%d-body' % ty, wire.frame(ty, seed)))
    if mode != 'bodies':
        for t in WRAP_TYPES:
            a = struct.pack('!BBH', 0xD0, t, len(seed)) + seed
            body = b'\x00\x00' + struct.pack('!H', len(a)) + a
            if len(body) + 19 <= 4096:
                out.append(('attr%d-value' % t, wire.frame(wire.UPDATE, body)))
    return out


def _c02_harness():
    h = c02.Harness()
    h.messages = dict(h.messages)
    h.messages['OPEN_RICH'] = M['OPEN_RICH']
    h.messages['OPEN_PEER_H0'] = M['OPEN_PEER_H0']
    return h


def timers_of(w):
    return sorted((dc.name, round(dc.time - w.sim.now, 6)) for dc in w.sim.calls)


_good_timers = {}


def timers_after_good_update(state):
    if state not in _good_timers:
        w = W.replay(CFG.get(state, {}), STATES[state], M)
        w.step(('RX', 0, simple_update(65002)))
        _good_timers[state] = timers_of(w)
    return _good_timers[state]


def check_one(state, label, frame):
    """deliver one well-framed hostile message in `state`; returns violations"""
    v = []
    w = W.replay(CFG.get(state, {}), STATES[state], M)
    t = w.readable()[0].transport
    nw = len(t.writes)
    w.budget_limit = 2000 + 100 * len(frame)
    obs = w.step(('RX', 0, frame))
    ty = frame[18]
    cls = '%s|%s' % (state, label)
    excs = [e for e in obs if e[0] == 'exc']
    if excs:
        v.append(('C10|i|exception escaped dataReceived: %s|%s' % (excs[0][1], cls), {'exc': excs[0][1:]}))
    if any(e[0] == 'overrun' for e in obs):
        v.append(('C10|i|dataReceived did not finish within the work budget|%s' % cls, None))
        return v, 'overrun'
    rep = reports(obs)
    if len(rep) > 1:
        v.append(('C10|ii|one well-framed message produced %d reports to the application|%s' % (len(rep), cls), {'reports': [r[0] for r in rep]}))
    new = [m for _, d in t.writes[nw:] for m in wire.abstract_writes(d)]
    closed = t.lose_time is not None
    if state.startswith('established') and ty == wire.UPDATE and len(frame) >= 23:
        # with hold time 0 nothing is armed; otherwise let the next timer fire: a session that dies one reactor turn later is torn down too
        if not closed and w.due() and state in ('established-hold0', 'established-peer-hold0'):
            w.step(('TICK', 0))
            new = [m for _, d in t.writes[nw:] for m in wire.abstract_writes(d)]
            closed = t.lose_time is not None
        if closed or new or w.reported_state() != 'ESTABLISHED':
            v.append(('C10|iii|an UPDATE body tore down or disturbed an Established session|%s' % label,
                      {'wrote': new, 'closed': closed, 'agent_state': w.reported_state()}))
        if not closed and not new and w.reported_state() == 'ESTABLISHED' and timers_of(w) != timers_after_good_update(state):
            # a peer that sends only UPDATEs the agent cannot decode is alive: the timers must stand as after a good UPDATE
            v.append(('C10|iii|timers after this UPDATE body differ from those after a well-formed UPDATE|%s' % label,
                      {'timers': timers_of(w), 'after_good_update': timers_after_good_update(state)}))
        if rep and rep[0][0] == 'on_update_error':
            hexfield = dict(rep[0][1]).get('hex')
            if hexfield != repr(frame[19:]):
                v.append(('C10|ii|malformed-UPDATE report does not carry the raw bytes|%s' % label, {'hex': hexfield}))
    if any(m[0] == 'NOTIF' for m in new) and not closed:
        v.append(('C10|v|NOTIFICATION sent without closing|%s' % cls, None))
    outcome = 'closed' if closed else 'open'
    # (iv) the known-good suite must be handled exactly as by a pristine agent
    if not closed and w.reported_state() == {'opensent': 'OPENSENT', 'openconfirm': 'OPENCONFIRM'}.get(state, 'ESTABLISHED'):
        for (name, data), (_, want) in zip(SUITE, pristine(state)):
            if not w.readable():
                got = None
            else:
                got = reports(w.step(('RX', 0, data)))
            if got != want:
                v.append(('C10|iv|known-good %s handled differently after the hostile message|%s' % (name, cls),
                          {'want': want, 'got': got}))
                break
    if w.exceptions and not excs:
        v.append(('C10|i|exception escaped while handling the known-good suite|%s' % cls, {'exc': w.exceptions[:2]}))
    return v, outcome


def task(args):
    state, items, recover = args
    out = []
    n = 0
    classes = set()
    h = _c02_harness()
    for label, frame in items:
        n += 1
        v, outcome = check_one(state, label, frame)
        classes.add((state, label, outcome, tuple(sorted(k.split('|')[1] for k, _ in v))))
        for k, det in v:
            d = {'state': state, 'label': label, 'frame': frame.hex()}
            d.update(det or {})
            out.append((k, d))
        if recover and outcome == 'closed':
            # (v) closed cleanly with its reconnect scheduled; nothing of the hostile message survives
            hist = STATES[state] + [('RX', 0, frame)]
            for k, det in c02.continuation(CFG.get(state, {}), hist, h, 0):
                out.append((k.replace('C02|', 'C10|v|'), {'state': state, 'label': label, 'frame': frame.hex(), 'detail': det}))
    return n, out, classes


def _dispatch(t):
    if t[0] == '@deferred':
        from .. import deferred
        n, viol, cl = deferred.task(t[1])
        return n, [(k, dict(det, deferred=True)) for k, det in viol], set(('deferred',) + c for c in cl)
    return task(t)


def run(tier, seed):
    tm = report.Timer()
    col = report.Collector(PROP)
    corpus = seeds.unit_test_bytes()
    ref_msgs = [M[k][19:] for k in ('OPEN_OK', 'UPD', 'NOTIF_CEASE', 'RR', 'OPEN_NOOPT')] + [d[19:] for _, d in SUITE]
    if tier == 'quick':
        mut_seeds = [s for s in corpus if len(s) <= 64] + ref_msgs
        plain = corpus
    else:
        mut_seeds = [s for s in corpus if len(s) <= 120] + ref_msgs
        plain = corpus
    items = []
    seen = set()
    for s in plain + ref_msgs:
        for lab, f in frames_for(s, 'all'):
            if f not in seen:
                seen.add(f)
                items.append((lab, f))
    for s in mut_seeds:
        for m in seeds.mutations(s):
            for lab, f in frames_for(m, 'all' if len(s) <= 24 or tier == 'thorough' else 'bodies'):
                if f not in seen:
                    seen.add(f)
                    items.append((lab + '-mutated', f))
    # the largest messages the framing admits: well-formed and malformed UPDATEs of 4095 and 4096 octets, a 4096-octet
    # NOTIFICATION / ROUTE-REFRESH body / OPEN
    for total in (4095, 4096):
        for origin, lab in ((b'\x00', 'max-size-update'), (b'\x07', 'max-size-update-bad-origin')):
            fixed = attr(0x40, 1, origin) + attr(0x40, 2, struct.pack('!BBI', 2, 1, 65002)) + attr(0x40, 3, b'\x0a\x00\x00\x02')
            padlen = total - 19 - 4 - len(fixed) - 4 - 4
            pad = struct.pack('!BBH', 0xD0, 99, padlen) + bytes((i * 7) & 255 for i in range(padlen))
            f = wire.frame(wire.UPDATE, update_body(b'', fixed + pad, b'\x18\x0a\x01\x01'))
            assert len(f) == total, len(f)
            items.append(('%s-%d' % (lab, total), f))
        for ty in (1, 3, 5):
            items.append(('type%d-max-size-%d' % (ty, total), wire.frame(ty, bytes((i * 11) & 255 for i in range(total - 19)))))
    # ROUTE-REFRESH subtypes (RFC 7313 BoRR / EoRR and unassigned ones), which only mean something after the capability exchange
    for st_ in (0, 1, 2, 3, 255):
        items.append(('route-refresh-subtype-%d' % st_, wire.route_refresh(1, 1, st_)))
        items.append(('route-refresh-128-subtype-%d' % st_, wire.route_refresh(1, 1, st_, 128)))
    # well-framed messages of types nobody assigned (and KEEPALIVEs with a body): rejected by the header check, in every state
    for ty in (0, 4, 6, 7, 127, 129, 255):
        for body in (b'', b'\x00', bytes(range(23)), bytes((i * 13) & 255 for i in range(4096 - 19))):
            if ty == 4 and not body:
                continue
            items.append(('type%d-len%d' % (ty, 19 + len(body)), wire.frame(ty, body)))
    tasks = []
    for state in STATES:
        sub = items if state in ('established', 'opensent', 'established-hold0') or tier == 'thorough' else items[::4]
        for i in range(0, len(sub), 300):
            # recovery continuation on a rotating tenth (all of them in thorough) - it is 20x the cost of the delivery
            tasks.append((state, sub[i:i + 300], tier == 'thorough' or (i // 300) % 10 == seed % 10))
    # every message of the session alphabet (OPENs with hold time 1 / 2 / 0, other AS, other version, bad identifier, NOTIFICATIONs,
    # header errors ...) in every state, each followed by the recovery continuation: what a refused message leaves behind shows in the
    # NEXT session (its OPEN must be that of a freshly booted agent)
    from ..alphabet import session_messages
    named = [('alphabet:' + k, f) for k, f in sorted(session_messages(full=True, holds=(90, 3)).items()) if not k.startswith('@') and isinstance(f, bytes)]
    for state in STATES:
        for i in range(0, len(named), 12):
            tasks.append((state, named[i:i + 12], True))
    # hostile input between a REST send's answer and the run of its reactor.callFromThread call (vf/deferred.py): afterwards the agent is
    # in session or has closed cleanly with its reconnect scheduled - and nothing else armed
    from .. import deferred
    dts = deferred.tasks(PROP, tier)
    tasks += [('@deferred', a) for a in dts]
    res = explore.pmap(_dispatch, tasks, chunk=1)
    explore.close_pool()
    total = 0
    classes = set()
    for t, (n, out, cl) in zip(tasks, res):
        total += n
        classes |= cl
        for k, det in out:
            col.add(k, det, det, task=t)
    n_new, n_known, summary = col.finish('c10-delivery')
    cov = {
        'states': len(STATES), 'transitions': total, 'traces_validated_against_impl': total,
        'evaluations': total, 'distinct_nontrivial': len(set((c[0], c[1], c[2]) for c in classes if len(c) > 2)),
        'samples': [{'state': report.pick(list(STATES), seed + i, 1)[0], 'frame': it[1].hex()[:160], 'kind': it[0]}
                    for i, it in enumerate(report.pick(items, seed, 3))],
        'hostile_frames': len(items), 'seeds': len(corpus), 'mutated_seeds': len(mut_seeds), 'session_states': list(STATES),
        'explanation': 'hostile pool = every byte string of the unit tests and the reference messages, plus all single-octet mutations '
                       '(0x00, 0xFF, ^0x80, +1, -1) and all truncations of %d seeds, each framed correctly as the body of message types '
                       '1, 2, 3, 5, 128 and as the value of attribute types %s inside an UPDATE, plus well-formed / malformed messages of 4095 and 4096 octets; delivered in %d session states on the real '
                       'objects under a step budget; followed by a known-good suite (KEEPALIVE, IPv4 / IPv6 / flowspec UPDATE, ROUTE-REFRESH) '
                       'compared with a pristine agent; closed sessions run the C02 recovery continuation. States that cannot receive bytes '
                       '(stopped, closing) are outside the environment model (DESIGN 3.3).' % (len(mut_seeds), list(WRAP_TYPES), len(STATES)),
        'violation_keys': summary,
    }
    report.write_evidence(PROP, tier, seed, 'model_checking', cov, report.ASSUMPTIONS_E1, tm.wall(), n_new)
    return 1 if n_new else 0


def replay(path):
    import json
    d = json.load(open(path))
    w = d['witness']
    if w.get('deferred'):
        from .. import deferred
        a, b = report.fresh(deferred.replay, PROP, w), report.fresh(deferred.replay, PROP, w)
        if repr(a) != repr(b):
            print('HARNESS-ERROR: replay is not deterministic')
            return 2
        print('events after Established:', w['history'])
        for k, det in a:
            print(k, det)
        return 1 if any(d['key'].startswith(k + '|') for k, _ in a) else 0
    frame = bytes.fromhex(w['frame'])
    a, b = report.twice(check_one, w['state'], w['label'], frame)
    if repr(a) != repr(b):
        print('HARNESS-ERROR: replay is not deterministic')
        return 2
    print('state', w['state'], 'frame', w['frame'])
    for k, det in a[0]:
        print(k, det)
    keys = [k for k, _ in a[0]]
    if d['key'].startswith('C10|v|P'):
        h = _c02_harness()
        keys += [k.replace('C02|', 'C10|v|') for k, _ in c02.continuation(CFG.get(w['state'], {}), STATES[w['state']] + [('RX', 0, frame)], h, 0)]
        print(keys)
    if d['key'] in keys:
        return 1
    return report.replay_in_task(d, _dispatch)
