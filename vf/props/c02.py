"""C02 - the session self-heals: never stuck, nothing in the past blocks re-establishment (DESIGN 7, C02)."""
from .. import explore, report, world as W
from ..ref import wire
from ..alphabet import session_messages
from .c12 import generic_replay

PROP = 'C02'
PEER_HOLD = 90


def session_open(t):
    """first OPEN frame the agent wrote on transport t (bytes) or None"""
    for _, d in t.writes:
        fr, err, rest = wire.deframe(d)
        for ty, body in fr:
            if ty == wire.OPEN:
                return body
    return None


_fresh_open = {}


def fresh_open(cfg, harness):
    k = repr(sorted(cfg.items()))
    if k not in _fresh_open:
        w = W.AgentWorld(cfg)
        sc = explore.Script(cfg, peer_hold=PEER_HOLD)
        explore.run_script(w, harness, sc, max_steps=10, until=lambda ww, t: ww.reported_state() == 'OPENSENT')
        _fresh_open[k] = session_open(w.readable()[-1].transport)
    return _fresh_open[k]


def continuation(cfg, history, harness, j, latency=0.0, silent=0):
    """Pj: refuse the next j connects, then cooperate. Returns list of (key, detail)."""
    v = []
    w, mon = explore.build(cfg, history, harness)
    c = w.cfg
    start_state = w.reported_state()
    start = 'from %s%s' % (start_state, '+attempt' if w.connecting() else '+conn' if w.readable() else '+closing' if w.disconnecting() else '')
    sc = explore.Script(cfg, peer_hold=PEER_HOLD, refuse_first=j, connect_latency=latency, silent_first=silent)
    H = min(c['hold'], PEER_HOLD)
    if w.readable() and start_state in ('OPENCONFIRM', 'ESTABLISHED'):
        H = min(c['hold'], sc.session_peer_hold(w.readable()[-1].transport))
    slack = 1.0
    bound = (j + 1) * (c['idle_hold'] + max(c['retry'], 30) + slack + latency) + silent * (c['idle_hold'] + max(c['retry'], 30) + slack)
    t0 = w.sim.now
    last_refusal = [None]
    notifs = []
    est_at = [None]
    est_tid = [None]
    if start_state == 'ESTABLISHED':
        est_at[0] = t0

    def on_step(ww, rec):
        ev, aobs, st, now, obs, _ = rec
        for e in aobs:
            if e[0] == 'write' and e[2] == 'NOTIF':
                notifs.append((now - t0, e[3], e[4]))
        if ev[0] == 'CONN_REFUSED':
            last_refusal[0] = now
        if any(e[0] == 'connect' for e in obs):
            if last_refusal[0] is not None and now - last_refusal[0] > c['idle_hold'] + slack:
                v.append(('C02|P%d|reconnect later than idle-hold after a refused connect|%s' % (j, start),
                          {'after_s': now - last_refusal[0]}))
            last_refusal[0] = None
        if st == 'ESTABLISHED' and est_at[0] is None:
            est_at[0] = now
            rd = ww.readable()
            est_tid[0] = rd[-1].cid if rd else None

    def until(ww, tr):
        if est_at[0] is None:
            return ww.sim.now - t0 > bound
        return ww.sim.now - est_at[0] >= 3 * (H or 180)

    tr = explore.run_script(w, harness, sc, max_steps=400 + 6 * j, until=until, on_step=on_step)
    tail = [(x[0], x[2], round(x[3] - t0, 3)) for x in tr][-14:]
    if any(x[4] and any(e[0] in ('exc', 'overrun') for e in x[4]) for x in tr):
        v.append(('C02|P%d|exception or overrun during recovery|%s' % (j, start), {'trace': tail}))
    if est_at[0] is None:
        sym = 'never reconnects' if not any(any(e[0] == 'connect' for e in x[4]) for x in tr) and not w.connecting() and not w.readable() and j == 0 \
            else 'not Established within idle_hold+connect cycle'
        v.append(('C02|P%d|%s|%s' % (j, sym, start), {'bound_s': bound, 'trace': tail, 'notifs': notifs}))
        return v
    if est_at[0] - t0 > bound:
        v.append(('C02|P%d|Established later than the bound|%s' % (j, start), {'bound_s': bound, 'took_s': est_at[0] - t0}))
    if w.reported_state() != 'ESTABLISHED':
        v.append(('C02|P%d|session does not stay up for 3 hold times|%s' % (j, start), {'trace': tail, 'notifs': notifs}))
    post = [n for n in notifs if n[0] >= est_at[0] - t0]
    if post:
        v.append(('C02|P%d|NOTIFICATION sent after re-establishment|%s' % (j, start), {'notifs': post}))
    # (iv) the OPEN of the recovery session equals the OPEN of a freshly booted agent
    if est_tid[0] is not None and start_state not in ('OPENSENT', 'OPENCONFIRM', 'ESTABLISHED'):
        t = w.sim.connectors[est_tid[0]].transport
        got = session_open(t)
        want = fresh_open(cfg, harness)
        if got != want:
            try:
                g, f = wire.parse_open(got), wire.parse_open(want)
                diff = [k for k in g if g[k] != f[k]]
            except Exception as e:   # noqa
                diff = ['unparsable: %s' % e]
            v.append(('C02|P%d|recovery OPEN differs from a fresh agent\'s OPEN: %s' % (j, ','.join(diff)),
                      {'got': got.hex() if got else None, 'fresh': want.hex() if want else None, 'start': start}))
    return v


class Monitor(explore.BaseMonitor):
    def __init__(self, cfg, w):
        self.dead = False

    def post(self, w, ev, obs, aobs):
        if w.live() > 1:
            self.dead = True
        return []


class Harness(explore.BaseHarness):
    prop = PROP
    Monitor = Monitor
    ops = ('OP_START',)
    messages = session_messages(full=True, holds=(90, 0, 3))
    policies = (0, 1, 2, 3)

    def extend(self, w, mon):
        return w.live() <= 1

    def menu(self, w, mon):
        if w.live() > 1:
            return []
        return explore.BaseHarness.menu(self, w, mon)

    def state_checks(self, cfg, history, w, mon):
        v = []
        for j in self.policies:
            v += continuation(cfg, history, self, j)
        return v


CONFIGS = {
    'quick': [{'retry': 30, 'hold': 180, 'idle_hold': 30}, {'retry': 40, 'hold': 9, 'idle_hold': 30},
              {'retry': 30, 'hold': 0, 'idle_hold': 30}],
    'thorough': [{'retry': 30, 'hold': 180, 'idle_hold': 30}, {'retry': 10, 'hold': 90, 'idle_hold': 5},
                 {'retry': 40, 'hold': 9, 'idle_hold': 30}, {'retry': 30, 'hold': 0, 'idle_hold': 30}],
}
FROM_EST = {'quick': 4, 'thorough': 6}
LONG_RUNS = ((130, 0.1), (40, 0.0))
# a peer whose SYN-ACK takes longer than the idle-hold time (but less than ConnectRetry): timers expire while an attempt is pending
# (cfg, refused attempts, latency, attempts that get no answer at all)
SLOW_RUNS = (({'idle_hold': 5, 'retry': 20}, 0, 8.0, 0), ({'idle_hold': 5, 'retry': 20}, 2, 8.0, 0), ({'idle_hold': 10, 'retry': 15}, 1, 12.0, 0),
             ({'idle_hold': 5, 'retry': 20, 'hold': 9}, 1, 19.0, 0), ({'idle_hold': 5, 'retry': 20}, 0, 8.0, 1), ({'idle_hold': 5, 'retry': 20}, 1, 8.0, 2),
             ({'idle_hold': 30, 'retry': 30}, 0, 0.0, 1),
             # "reconnect at once": an idle-hold time of 0 is a timer of 0 seconds, not no timer
             ({'idle_hold': 0, 'retry': 10}, 2, 0.0, 0), ({'idle_hold': 0, 'retry': 10}, 0, 0.0, 1))
DEPTH = {'quick': 6, 'thorough': 8}


def run(tier, seed):
    tm = report.Timer()
    h = Harness()
    if tier == 'quick':
        h.policies = (0, 1)
    col = report.Collector(PROP)
    res = explore.BFSResult()
    for cfg in CONFIGS[tier]:
        explore.bfs(h, cfg, DEPTH[tier], col, seed=seed, result=res, merge_all=(tier == 'thorough'),
                    run_state_checks=True)
        explore.bfs(h, cfg, FROM_EST[tier], col, seed=seed, result=res, merge_all=(tier == 'thorough'),
                    run_state_checks=True, start=(('TICK', 0), ('CONN_OK', 0), ('RX', 0, 'OPEN_OK'), ('RX', 0, 'KA')))
    # long runs: 130 refused attempts in a row (each answered 100 ms after connectTCP), then a peer that accepts after 100 ms -
    # what accumulates over many cycles (a shrinking timer, a growing list) shows only here
    long_runs = 0
    for cfg in CONFIGS[tier]:
        for j, lat in LONG_RUNS:
            for k, det in continuation(cfg, (), h, j, latency=lat):
                col.add(k, {'cfg': cfg, 'history': [], 'long_run': [j, lat]}, det)
            long_runs += 1
    for cfg, j, lat, silent in SLOW_RUNS:
        for k, det in continuation(cfg, (), h, j, latency=lat, silent=silent):
            col.add(k + '|slow peer', {'cfg': cfg, 'history': [], 'long_run': [j, lat, silent]}, det)
        long_runs += 1
    explore.close_pool()
    n_new, n_known, summary = col.finish('e1-state+continuation')
    cov = {
        'states': res.states, 'transitions': res.transitions,
        'traces_validated_against_impl': res.transitions + res.state_checks * len(h.policies),
        'samples': res.samples, 'max_depth': res.max_depth, 'closed': res.closed,
        'depth_cap_hit': res.depth_cap_hit, 'distinct_observation_classes': len(res.obs_classes),
        'merges': res.merges, 'merges_checked': res.merges_checked, 'merges_refuted_and_undone': res.refinements[:5], 'n_merges_refuted': len(res.refinements), 'diverged_transitions': res.diverged,
        'continuations_run': res.state_checks * len(h.policies), 'long_runs': long_runs, 'long_run_shapes': [list(x) for x in LONG_RUNS], 'policies': ['P%d' % j for j in h.policies],
        'configs': CONFIGS[tier], 'alphabet': list(h.messages), 'violation_keys': summary,
        'explanation': 'from every state reached by the adversarial BFS (depth %d, operator never stops) the environment '
                       'switches to a deterministic cooperative continuation Pj (refuse j connects, then cooperate); '
                       'required: reconnect within idle-hold after each refusal, Established within the bound, still '
                       'Established 3 hold times later with no NOTIFICATION, recovery OPEN byte-identical to a fresh agent\'s'
                       % DEPTH[tier],
    }
    report.write_evidence(PROP, tier, seed, 'model_checking', cov, report.ASSUMPTIONS_E1, tm.wall(), n_new)
    return 1 if n_new else 0


def replay(path):
    import json
    d = json.load(open(path))
    h = Harness()
    cfg = d['witness']['cfg']
    hist = [tuple(e) for e in d['witness']['history']]
    if d['witness'].get('long_run'):
        lr = list(d['witness']['long_run']) + [0]
        j, lat, silent = lr[:3]
        a, b = report.twice(continuation, cfg, tuple(hist), h, j, lat, silent)
        if d['key'].endswith('|slow peer'):
            a = [(k + '|slow peer', det) for k, det in a]
            b = [(k + '|slow peer', det) for k, det in b]
    else:
        a, b = report.twice(h.state_checks, cfg, hist, None, None)
    if repr(a) != repr(b):
        print('HARNESS-ERROR: replay is not deterministic')
        return 2
    print('prefix:', hist)
    for k, det in a:
        print(k, det)
    return 1 if d['key'] in [k for k, _ in a] else 0
