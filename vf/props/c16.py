"""C16 - the REST control surface is authenticated and state-gated; sends are faithful (DESIGN 7, C16).
Every rule of the URL map under /v1/peer/ x every method x every credential class x every session
state, through the Flask test client against the real objects in the virtual world; for successful
sends the bytes on the simulated transport are decoded by the reference decoder."""
import itertools
import struct

from .. import explore, report, world as W
from ..ref import wire
from ..alphabet import session_messages, simple_update

PROP = 'C16'
METHODS = ('GET', 'HEAD', 'POST', 'PUT', 'DELETE', 'PATCH', 'OPTIONS')
CREDS = {'none': None, 'wrong-user': 'root:admin', 'wrong-password': 'admin:nimda', 'empty-password': 'admin:',
         'unknown-user-empty-password': 'nobody:', 'empty-user-empty-password': ':', 'empty-user-right-password': ':admin',
         'case-changed-user': 'Admin:admin', 'case-changed-password': 'admin:Admin', 'password-prefix': 'admin:admi',
         'password-with-suffix': 'admin:admin ', 'password-plus-nul': 'admin:admin\x00', 'password-plus-nuls': 'admin:admin\x00\x00\x00\x00',
         'password-prefix-plus-nul': 'admin:admi\x00',
         # characters outside ASCII around / inside the right password (what a lossy normalisation would strip)
         'password-plus-non-ascii': 'admin:admin\u00e9', 'non-ascii-plus-password': 'admin:\u20acadmin', 'password-interleaved-non-ascii': 'admin:ad\u00fcmin',
         'right': 'admin:admin'}
M = session_messages()
STATES = {
    'no-protocol': [],
    'connect': [('TICK', 0)],
    'opensent': [('TICK', 0), ('CONN_OK', 0)],
    'openconfirm': [('TICK', 0), ('CONN_OK', 0), ('RX', 0, 'OPEN_OK')],
    'established': [('TICK', 0), ('CONN_OK', 0), ('RX', 0, 'OPEN_OK'), ('RX', 0, 'KA')],
    'idle-after-error': [('TICK', 0), ('CONN_OK', 0), ('RX', 0, 'OPEN_OK'), ('RX', 0, 'KA'), ('RX', 0, 'BAD_MARKER')],
    'idle-after-error-closed': [('TICK', 0), ('CONN_OK', 0), ('RX', 0, 'OPEN_OK'), ('RX', 0, 'KA'), ('RX', 0, 'BAD_MARKER'), ('CLOSE_DONE', 0)],
    # the operator stopped the session and the close is still in flight (Cease written, loseConnection requested)
    'stopped-closing': [('TICK', 0), ('CONN_OK', 0), ('RX', 0, 'OPEN_OK'), ('RX', 0, 'KA'), ('OP_STOP',)],
    # the peer sent a NOTIFICATION, the agent asked for the close, connectionLost has not come yet
    'notified-closing': [('TICK', 0), ('CONN_OK', 0), ('RX', 0, 'OPEN_OK'), ('RX', 0, 'KA'), ('RX', 0, 'NOTIF_CEASE')],
    # a restart in flight: stopped, started again, new attempt pending while the old close is still in flight
    'restarting': [('TICK', 0), ('CONN_OK', 0), ('RX', 0, 'OPEN_OK'), ('RX', 0, 'KA'), ('OP_STOP',), ('OP_START',)],
    'stopped': [('TICK', 0), ('CONN_OK', 0), ('RX', 0, 'OPEN_OK'), ('RX', 0, 'KA'), ('OP_STOP',), ('CLOSE_DONE', 0)],
    'peer-closed': [('TICK', 0), ('CONN_OK', 0), ('RX', 0, 'OPEN_OK'), ('RX', 0, 'KA'), ('PEER_CLOSE', 0)],
}
SENDING = ('send/route-refresh', 'send/update', 'send/bin_update')
GATED = SENDING + ('json_to_bin', 'adj-rib-in', 'adj-rib-out')
STATE_WORDS = ('IDLE', 'CONNECT', 'ACTIVE', 'OPENSENT', 'OPENCONFIRM', 'ESTABLISHED', 'remote_as', 'local_as', 'remote_addr',
               'Keepalives', 'Notifications', 'capability', 'four_bytes_as', 'uptime')
UPD = simple_update(65001)


def body_for(rule):
    r = rule.rule
    if r.endswith('send/route-refresh'):
        return {'afi': 1, 'safi': 1}
    if r.endswith('send/update') or r.endswith('json_to_bin'):
        return {'attr': {'1': 0, '2': [[2, [65001]]], '3': '10.0.0.1'}, 'nlri': ['10.9.0.0/16']}
    if r.endswith('send/bin_update'):
        return {'binary_data': UPD.hex()}
    if r.endswith('adj-rib-in') or r.endswith('adj-rib-out'):
        return {'data': ['10.9.0.0/16']}
    return {}


def rules():
    from yabgp.api.app import app
    out = []
    for rule in app.url_map.iter_rules():
        if rule.rule.startswith('/v1/peer/'):
            out.append(rule)
    return sorted(out, key=lambda r: r.rule)


def paths_of(rule):
    p = rule.rule.replace('<peer_ip>', '10.0.0.2')
    if '<action>' in p:
        return [p.replace('<action>', a) for a in ('send', 'received', 'bogus')]
    if '<' in p:
        import re
        return [re.sub(r'<[^>]+>', 'x', p)]
    return [p]


def request(w, method, path, cred, body):
    s = w.sim
    s.effects = []
    kb = w.key()
    try:
        st, js, raw = w.rest(method, path, json=body if method in ('POST', 'PUT', 'PATCH', 'DELETE') else None,
                             auth=CREDS[cred], raw=True)
        exc = None
    except Exception as e:    # noqa   (Flask test client propagates view exceptions)
        st, js, raw, exc = 500, None, b'', '%s: %s' % (type(e).__name__, e)
    s.drain_threads()
    obs = s.effects
    s.effects = None
    return st, js, raw, obs, kb, w.key(), exc


def task_auth(args):
    state_name, = args
    rl = rules()
    viol = []
    n = 0
    classes = set()
    for rule in rl:
        served = set(rule.methods or ())
        short = rule.rule.split('<peer_ip>/')[-1]
        for path in paths_of(rule):
            for method, cred in itertools.product(METHODS, CREDS):
                # state-changing requests with right credentials need a fresh world each time
                w = W.replay({}, STATES[state_name], M)
                st, js, raw, obs, kb, ka, exc = request(w, method, path, cred, body_for(rule))
                n += 1
                classes.add((state_name, short, method in served, cred == 'right', st))
                eff = [e for e in obs if e[0] in ('write', 'lose', 'connect', 'abort', 'write-dropped')]
                where = '%s %s' % (method if method in served else 'unserved-method', short)
                if method not in served:
                    # Flask answers before any view code runs
                    if st not in (405, 200) or (st == 200 and method != 'OPTIONS') or eff or kb != ka:
                        viol.append(('C16|i|unserved method reached the application|%s' % where, {'state': state_name, 'method': method, 'status': st}))
                    continue
                if method == 'OPTIONS':
                    if eff or kb != ka:
                        viol.append(('C16|i|OPTIONS had an effect|%s' % where, {'state': state_name}))
                    continue
                if cred != 'right':
                    txt = raw.decode('utf-8', 'replace')
                    leaks = [x for x in STATE_WORDS if x in txt]
                    if st != 401:
                        viol.append(('C16|i|request without valid credentials (%s) answered %s instead of 401|%s' % (cred, st, where),
                                     {'state': state_name, 'path': path, 'body': txt[:200]}))
                    elif leaks:
                        viol.append(('C16|i|401 body reveals peer state|%s' % where, {'state': state_name, 'body': txt[:200]}))
                    if eff or kb != ka:
                        viol.append(('C16|i|request without valid credentials (%s) had an effect|%s' % (cred, where),
                                     {'state': state_name, 'effects': eff[:5]}))
                    continue
                # valid credentials
                if any(short.endswith(x) for x in SENDING) and state_name != 'established':
                    status = dict(js).get('status') if isinstance(js, (dict, list, tuple)) and js else None
                    ok_fail = (st == 200 and isinstance(js, dict) and js.get('status') is False)
                    if not ok_fail:
                        viol.append(('C16|ii|send endpoint outside Established did not report failure|%s|%s' % (short, state_name),
                                     {'status': st, 'json': js, 'exc': exc}))
                    if eff or kb != ka:
                        viol.append(('C16|ii|send endpoint outside Established had an effect|%s|%s' % (short, state_name),
                                     {'effects': eff[:5]}))
                if exc is not None and state_name not in ('no-protocol', 'connect'):
                    viol.append(('C16|view raised an exception|%s|%s' % (short, state_name), {'exc': exc}))
    return n, viol, classes


# ------------------------------------------------------------------------------- faithful sends
def attr_tlvs(attrs):
    return [(c, f & 0xE0, v) for f, c, v in attrs]


def ref_attr(code, value, as4):
    """reference encoding (code, category flags, value octets) of the attribute values used in the send pool"""
    if code == 1:
        return (1, 0x40, bytes([value]))
    if code == 2:
        out = b''
        for seg_type, asns in value:
            out += struct.pack('!BB', seg_type, len(asns)) + b''.join(struct.pack('!I' if as4 else '!H', a) for a in asns)
        return (2, 0x40, out)
    if code == 3:
        return (3, 0x40, bytes(int(x) for x in value.split('.')))
    if code == 4:
        return (4, 0x80, struct.pack('!I', value))
    if code == 5:
        return (5, 0x40, struct.pack('!I', value))
    if code == 8:
        out = b''
        for c in value:
            hi, lo = c.split(':')
            out += struct.pack('!HH', int(hi), int(lo))
        return (8, 0xC0, out)
    raise KeyError(code)


def ref_prefix(p):
    addr, ln = p.split('/')
    ln = int(ln)
    raw = bytes(int(x) for x in addr.split('.'))[:(ln + 7) // 8]
    return (ln, raw)


def send_pool():
    A = {'origin': [0, 2], 'aspath': [[[2, [65001]]], [[2, [65001, 64512]], [1, [1, 2]]], []],
         'nh': ['10.0.0.1', '255.255.255.255'], 'med': [None, 0, 4294967295], 'lp': [None, 0, 200],
         'comm': [None, ['65001:1', '0:0']]}
    N = [[], ['10.9.0.0/16'], ['0.0.0.0/0', '10.1.2.3/32', '192.168.4.0/22']]
    Wd = [[], ['10.8.0.0/15'], ['0.0.0.0/0', '172.16.0.128/25']]
    out = []
    for o, ap, nh, med, lp, cm in itertools.product(A['origin'], A['aspath'], A['nh'], A['med'], A['lp'], A['comm']):
        attr = {'1': o, '2': ap, '3': nh}
        if med is not None:
            attr['4'] = med
        if lp is not None:
            attr['5'] = lp
        if cm is not None:
            attr['8'] = cm
        out.append(attr)
    # pairwise-ish thinning: every attribute dict with one nlri/withdraw shape, every shape with three dicts
    cases = []
    for i, attr in enumerate(out):
        cases.append((attr, N[1 + i % 2], Wd[i % 3]))
    for n, wd in itertools.product(N, Wd):
        for attr in (out[0], out[-1], {}):
            if n and not attr:
                continue      # NLRI without path attributes is not a message BGP can express: out of range
            cases.append((attr, n, wd))
    # the same type codes in other spellings a JSON client may use (the view reads them with int()): LOCAL_PREF given / absent / 0
    for lp in (None, 0, 200):
        for sp in (' %d', '0%d', '+%d', '%d '):
            attr = {sp % 1: 0, sp % 2: [[2, [65001, 65002]]], sp % 3: '10.0.0.1', sp % 4: 7}
            if lp is not None:
                attr[sp % 5] = lp
            cases.append((attr, N[1], Wd[0]))
    return cases


def task_send(args):
    ibgp, chunk = args
    viol = []
    n = 0
    classes = set()
    cfg = {'local_as': 65001, 'remote_as': 65001 if ibgp else 65002}
    msgs = session_messages(remote_as=cfg['remote_as'])
    for idx, case in enumerate(chunk):
        attr, nlri, wd = case[:3]
        # every third case after a session flap: "the current connection" is then the second one
        flap = case[3] if len(case) > 3 else not idx % 3
        hist = STATES['established'] if not flap else STATES['established'] + [
            ('REST', 'warmup'), ('PEER_CLOSE', 0), ('TICK', 0), ('CONN_OK', 0), ('RX', 0, 'OPEN_OK'), ('RX', 0, 'KA')]
        msgs = dict(msgs)
        msgs['@warmup'] = ('POST', '/v1/peer/<ip>/send/update', {'attr': {'1': 0, '2': [], '3': '10.0.0.1'}, 'nlri': ['10.99.0.0/16']})
        w = W.replay(cfg, hist, msgs)
        t = w.readable()[0].transport
        before = len(t.writes)
        body = {'attr': attr, 'nlri': nlri, 'withdraw': wd}
        st, js, raw, obs, kb, ka, exc = request(w, 'POST', '/v1/peer/10.0.0.2/send/update', 'right', body)
        n += 1
        new = [d for _, d in t.writes[before:]]
        other = [e for e in obs if e[0] in ('lose', 'connect', 'abort') or (e[0] == 'write' and e[1] != t.tid)]
        cls = ('attrs' if attr else 'no-attrs', 'nlri' if nlri else 'no-nlri', 'withdraw' if wd else 'no-withdraw', 'ibgp' if ibgp else 'ebgp')
        cls = cls + ('after-session-flap' if flap else 'first-session',)
        classes.add(cls + (isinstance(js, dict) and js.get('status'),))
        label = '/'.join(cls)
        ok = st == 200 and isinstance(js, dict) and js.get('status') is True
        if exc is not None:
            viol.append(('C16|iii|send/update raised|%s' % label, {'exc': exc, 'request': body}))
            continue
        if other:
            viol.append(('C16|iii|send had a side effect besides the write|%s' % label, {'effects': other, 'request': body}))
        if not ok:
            if new:
                viol.append(('C16|iii|send reported failure but wrote to the peer|%s' % label, {'request': body, 'json': js}))
            continue
        if len(new) != 1:
            viol.append(('C16|iii|send reported success but wrote %d messages|%s' % (len(new), label), {'request': body}))
            continue
        frames, err, rest = wire.deframe(new[0])
        if err is not None or rest or len(frames) != 1 or frames[0][0] != wire.UPDATE:
            viol.append(('C16|iii|bytes written are not exactly one UPDATE|%s' % label, {'request': body, 'hex': new[0].hex()}))
            continue
        try:
            gw, ga, gn = wire.parse_update(frames[0][1])
        except ValueError as e:
            viol.append(('C16|iii|UPDATE on the wire does not parse: %s|%s' % (e, label), {'request': body, 'hex': new[0].hex()}))
            continue
        want_attr = dict((str(int(k)), v) for k, v in attr.items())        # (a type code may be written "05", " 5", "+5": int() reads them all)
        if attr and '5' not in want_attr and ibgp:
            want_attr['5'] = 100
        want_a = sorted(ref_attr(int(k), v, True) for k, v in want_attr.items())
        got_a = sorted(attr_tlvs(ga))
        want_n = [ref_prefix(p) for p in nlri]
        want_w = [ref_prefix(p) for p in wd]
        diffs = []
        if got_a != want_a:
            diffs.append('attributes')
        if gn != want_n:
            diffs.append('nlri')
        if gw != want_w:
            diffs.append('withdrawn')
        if diffs:
            viol.append(('C16|iii|message on the wire differs from the request in %s|%s' % (','.join(diffs), label),
                         {'request': body, 'hex': new[0].hex(), 'want': {'attrs': want_a, 'nlri': want_n, 'withdrawn': want_w},
                          'got': {'attrs': got_a, 'nlri': gn, 'withdrawn': gw}}))
    return n, viol, classes


def task_rr_bin(args):
    viol = []
    n = 0
    classes = set()
    # route refresh for every AFI/SAFI x peer capability set
    capsets = {'rr+mp11': [wire.cap_mp(1, 1), wire.cap(2)], 'ciscorr+mp11+mp21': [wire.cap_mp(1, 1), wire.cap_mp(2, 1), wire.cap(128)],
               'none': [wire.cap_mp(1, 1)], 'rr-nomp': [wire.cap(2)]}
    for cname, caps in capsets.items():
        msgs = dict(M)
        msgs['OPEN_OK'] = wire.open_msg(65002, 90, 0x0A000002, caps)
        for afi, safi in ((1, 1), (2, 1), (1, 128), (1, 133), (25, 70), (0, 0), (65535, 255)):
            w = W.replay({}, STATES['established'], msgs)
            t = w.readable()[0].transport
            before = len(t.writes)
            st, js, raw, obs, kb, ka, exc = request(w, 'POST', '/v1/peer/10.0.0.2/send/route-refresh', 'right', {'afi': afi, 'safi': safi, 'res': 0})
            n += 1
            new = [d for _, d in t.writes[before:]]
            ok = st == 200 and isinstance(js, dict) and js.get('status') is True
            classes.add(('rr', cname, (afi, safi), ok))
            if not ok:
                if new:
                    viol.append(('C16|iii|route-refresh reported failure but wrote|%s' % cname, {'afi': afi, 'safi': safi}))
                continue
            want_type = 128 if 'ciscorr' in cname else 5
            want = wire.frame(want_type, struct.pack('!HBB', afi, 0, safi))
            if new != [want]:
                viol.append(('C16|iii|route-refresh on the wire differs from the request|%s' % cname,
                             {'afi': afi, 'safi': safi, 'wrote': [x.hex() for x in new], 'want': want.hex()}))
    u1, u2 = simple_update(65001), simple_update(65001, prefix=b'\x10\x0a\x09')
    eor = wire.frame(wire.UPDATE, b'\x00\x00\x00\x00')
    for name, data in (('one', u1), ('two', u1 + u2), ('update+end-of-rib', u1 + eor), ('end-of-rib', eor),
                       ('update+cut-header', u1 + u2[:10]), ('update+2-octets', u1 + b'\xff\xff'), ('2-octets', b'\xff\xff')):
        for fmt in (None, 'human'):
            w = W.replay({}, STATES['established'], M)
            t = w.readable()[0].transport
            before = len(t.writes)
            hexs = data.hex()
            if fmt == 'human':
                body = {'binary_data': [' '.join(hexs[i:i + 2] for i in range(0, len(hexs), 2))]}
                path = '/v1/peer/10.0.0.2/send/bin_update?format=human'
            else:
                body = {'binary_data': hexs}
                path = '/v1/peer/10.0.0.2/send/bin_update'
            st, js, raw, obs, kb, ka, exc = request(w, 'POST', path, 'right', body)
            n += 1
            new = b''.join(d for _, d in t.writes[before:])
            ok = st == 200 and isinstance(js, dict) and js.get('status') is True
            classes.add(('bin', name, fmt, ok))
            if ok and new != data:
                viol.append(('C16|iii|bin_update on the wire differs from the request|%s' % name, {'wrote': new.hex(), 'want': data.hex()}))
            if not ok and new:
                viol.append(('C16|iii|bin_update reported failure but wrote|%s' % name, None))
    return n, viol, classes


def _dispatch(t):
    from .. import deferred
    from .. import concurrent
    return {'auth': task_auth, 'send': task_send, 'rrbin': task_rr_bin, 'deferred': deferred.task, 'threads': concurrent.task3}[t[0]](t[1])


def run(tier, seed):
    tm = report.Timer()
    col = report.Collector(PROP)
    tasks = [('auth', (s,)) for s in STATES]
    pool = send_pool()
    if tier == 'quick':
        pool = pool[::3] + pool[-27:]
    for ibgp in (False, True):
        for i in range(0, len(pool), 40):
            tasks.append(('send', (ibgp, pool[i:i + 40])))
    tasks.append(('rrbin', ()))
    # the worker thread of a send is held between its answer and its reactor.callFromThread: every window of events (vf/deferred.py)
    from .. import deferred
    tasks += [('deferred', a) for a in deferred.tasks(PROP, tier)]
    # two sends served by two worker threads at once: every schedule with one preemption (vf/threads.py, vf/concurrent.py)
    from .. import concurrent
    tasks += [('threads', a) for a in concurrent.tasks(PROP, tier)]
    results = explore.pmap(_dispatch, tasks, chunk=1)
    explore.close_pool()
    total = 0
    classes = set()
    for t, (n, viol, cl) in zip(tasks, results):
        total += n
        classes |= cl
        for k, det in viol:
            col.add(k, det, det, task=t)
    n_new, n_known, summary = col.finish('c16-request')
    nrules = len(rules())
    classes, interleavings = concurrent.coverage(classes)
    cov = {
        'thread_interleavings': interleavings,
        'states': len(STATES), 'transitions': total, 'traces_validated_against_impl': total,
        'evaluations': total, 'distinct_nontrivial': len(classes),
        'samples': [{'state': report.pick(list(STATES), seed + i, 1)[0], 'rule': r.rule, 'method': report.pick(METHODS, seed + i, 1)[0],
                     'credentials': report.pick(list(CREDS), seed + i, 1)[0]} for i, r in enumerate(report.pick(rules(), seed, 2))]
        + [{'state': 'established', 'request': 'POST send/update', 'body': {'attr': c[0], 'nlri': c[1], 'withdraw': c[2]}} for c in report.pick(pool, seed, 1)],
        'rules_under_v1_peer': [r.rule for r in rules()], 'methods': list(METHODS), 'credential_classes': list(CREDS),
        'session_states': list(STATES), 'send_pool': len(pool) * 2,
        'explanation': '%d URL rules (enumerated from app.url_map at run time) x %d methods x %d credential classes x %d session states, '
                       'each request issued through the Flask test client against a fresh replay of the state on the real objects; '
                       'plus %d send/update requests (eBGP and iBGP), route-refresh for 7 AFI/SAFI x 4 peer capability sets and bin_update '
                       'with 1-2 messages, whose bytes on the simulated transport are decoded by the reference decoder; plus every window of up to %d events '
                       'between a send answered by its worker thread and the run of its reactor.callFromThread call (3 requests x 3 queue contents)'
                       % (nrules, len(METHODS), len(CREDS), len(STATES), len(pool) * 2, deferred.WINDOW[tier]),
        'exhaustive': True, 'violation_keys': summary,
    }
    report.write_evidence(PROP, tier, seed, 'model_checking', cov, report.ASSUMPTIONS_E1, tm.wall(), n_new)
    return 1 if n_new else 0


def replay(path):
    import json
    d = json.load(open(path))
    w = d['witness'] or {}
    key = d['key']
    if key.startswith('C16|threads|'):
        from .. import concurrent
        return concurrent.cli_replay(PROP, d)
    if key.startswith('C16|deferred|'):
        from .. import deferred
        runs = [(0, [(key if key.startswith(k + '|') else k, det) for k, det in report.fresh(deferred.replay, PROP, w)]) for _ in (0, 1)]
    elif key.startswith(('C16|i|', 'C16|ii|', 'C16|view')):
        state = w.get('state') or key.split('|')[-1]
        runs = report.twice(task_auth, (state,))
    elif 'request' in w and 'attr' in (w.get('request') or {}):
        r = w['request']
        ibgp = '/ibgp/' in key
        runs = report.twice(task_send, (ibgp, [(r['attr'], r['nlri'], r['withdraw'], key.endswith('after-session-flap'))]))
    else:
        runs = report.twice(task_rr_bin, ())
    if repr(runs[0][1]) != repr(runs[1][1]):
        print('HARNESS-ERROR: replay is not deterministic')
        return 2
    keys = [k for k, _ in runs[0][1]]
    for k, det in runs[0][1]:
        if k == key:
            print(k)
            print('  ', json.dumps(det, default=str)[:1500])
            break
    print('violation keys on replay:', sorted(set(keys))[:20])
    if key in keys:
        return 1
    return report.replay_in_task(d, _dispatch)
