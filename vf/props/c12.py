"""C12 - at most one TCP connection or connection attempt at any time (DESIGN 7, C12)."""
from .. import explore, report, world as W
from ..alphabet import session_messages

PROP = 'C12'


class Monitor(explore.BaseMonitor):
    def __init__(self, cfg, w):
        self.dead = False

    def pre(self, w, ev):
        self.fsm_tid_before = self._fsm_tid(w)

    @staticmethod
    def _fsm_tid(w):
        p = w.fsm.protocol
        if p is not None and p.transport is not None:
            return p.transport.tid
        return None

    def post(self, w, ev, obs, aobs):
        v = []
        st = w.reported_state()
        # (i) at the moment connectTCP is called the previous one must be ended or aborted
        for i, e in enumerate(obs):
            if e[0] == 'connect':
                others = [c for c in w.sim.connectors
                          if c.cid != e[1] and (c.state == 'connecting' or
                                                (c.state == 'connected' and c.transport.connected
                                                 and not c.transport.disconnecting))]
                # connectors closed later inside the same event do not count as ended *before*
                if others:
                    kinds = sorted('attempt' if c.state == 'connecting' else 'connection' for c in others)
                    v.append(('C12|second-connect|%s|prev=%s' % (ev[0] + (':' + str(w.last_info.get('callee')) if ev[0] == 'TICK' else ''),
                                                                  '+'.join(kinds)),
                              {'live_after': w.live()}))
        if w.live() > 1 and not v:
            v.append(('C12|live>1|%s' % ev[0], {'live_after': w.live()}))
        # (ii) every write goes to the transport the FSM tracks, which is live
        ftid = self._fsm_tid(w)
        for e in obs:
            if e[0] == 'write' and e[1] not in (self.fsm_tid_before, ftid):
                v.append(('C12|write-to-untracked-transport|%s' % ev[0], {'tid': e[1], 'fsm_tid': ftid}))
            if e[0] == 'write-dropped':
                pass
        # (iii) no orphan at quiescent states
        for c in w.readable():
            if c.transport.protocol is not w.fsm.protocol:
                v.append(('C12|orphan-open-transport|%s' % ev[0], {'state': st}))
        return v

    def key(self):
        return ()


class Harness(explore.BaseHarness):
    prop = PROP
    Monitor = Monitor
    messages = session_messages(full=False, holds=(90,))

    def rx_alphabet(self, w, mon):
        return ['OPEN_OK', 'KA', 'UPD']

    def extend(self, w, mon):
        # beyond a violation state the property has nothing more to say
        return w.live() <= 1

    def make_script(self, cfg, **kw):
        return explore.Script(cfg, **kw)

    def final_checks(self, cfg, w, mon, hist):
        v = []
        # every transport ever opened must be closed by the horizon, except the tracked one
        for c in w.sim.connectors:
            if c.state == 'connected' and c.transport.connected and c.transport.protocol is not w.fsm.protocol:
                v.append(('C12|orphan-at-horizon', {'cid': c.cid}))
        return v


CONFIGS = {
    # the last configuration of each tier: TCP-MD5 configured and the kernel refusing the socket option (setsockopt raises
    # inside connect(), after connectTCP has already started the attempt)
    'quick': [{'retry': 30, 'idle_hold': 30}, {'retry': 10, 'idle_hold': 5}, {'retry': 10, 'idle_hold': 5, 'md5': 'secret', 'setsockopt_fails': True}],
    'thorough': [{'retry': r, 'idle_hold': i} for r in (10, 30, 40) for i in (5, 30)] + [
        {'retry': 10, 'idle_hold': 5, 'md5': 'secret', 'setsockopt_fails': True}, {'retry': 30, 'idle_hold': 30, 'md5': 'secret', 'setsockopt_fails': True},
        {'retry': 10, 'idle_hold': 5, 'md5': 'secret'}],
}
FROM_EST = {'quick': 6, 'thorough': 8}
DEPTH = {'quick': 8, 'thorough': 10}
DEVK = {'quick': 1, 'thorough': 2}


def run(tier, seed):
    tm = report.Timer()
    h = Harness()
    col = report.Collector(PROP)
    res = explore.BFSResult()
    dev = []
    for cfg in CONFIGS[tier]:
        explore.bfs(h, cfg, DEPTH[tier], col, seed=seed, result=res, merge_all=(tier == 'thorough'), merge_lookahead=2)
        # from a non-initial state: everything within FROM_EST events of a freshly Established session
        explore.bfs(h, cfg, FROM_EST[tier], col, seed=seed, result=res, merge_all=(tier == 'thorough'), merge_lookahead=2,
                    start=(('TICK', 0), ('CONN_OK', 0), ('RX', 0, 'OPEN_OK'), ('RX', 0, 'KA')))
        for kind in ('coop', 'lateclose', 'silent', 'refuse'):
            kk, win = (2, 10) if tier == 'quick' else (DEVK[tier], 24)
            st = explore.deviations(h, cfg, kk, 50, col, script_kw={'kind': kind}, window=win)
            dev.append({'cfg': cfg, 'script': kind, 'executions': st['executions'], 'events': st['events'],
                        'k': st['k'], 'outcomes': sorted(map(repr, st['outcomes']))})
    explore.close_pool()
    n_new, n_known, summary = col.finish('e1-history')
    cov = {
        'states': res.states, 'transitions': res.transitions,
        'traces_validated_against_impl': res.transitions + sum(d['executions'] for d in dev),
        'samples': res.samples, 'max_depth': res.max_depth, 'closed': res.closed,
        'depth_cap_hit': res.depth_cap_hit, 'distinct_observation_classes': len(res.obs_classes),
        'merges': res.merges, 'merges_checked': res.merges_checked, 'merges_refuted_and_undone': res.refinements[:5], 'n_merges_refuted': len(res.refinements), 'diverged_transitions': res.diverged,
        'cut_transitions': res.cut, 'configs': CONFIGS[tier], 'per_level': res.per_level[-DEPTH[tier]:],
        'deviation_bounded': dev, 'violation_keys': summary,
        'explanation': 'all event sequences to depth %d over the full menu (no scheduling restriction) on the real '
                       'BGPPeering/FSM/BGP objects, plus all executions with <= %d deviations from the cooperative '
                       'script to 50 steps; every transition executed on the implementation' % (DEPTH[tier], DEVK[tier]),
    }
    report.write_evidence(PROP, tier, seed, 'model_checking', cov, report.ASSUMPTIONS_E1, tm.wall(), n_new)
    return 1 if n_new else 0


def replay(path):
    return generic_replay(path, Harness())


def generic_replay(path, h):
    import json
    d = json.load(open(path))
    cfg = d['witness']['cfg']
    hist = [tuple(e) for e in d['witness']['history']]
    def one(warm=False):
        explore.HARNESS = h
        if warm:
            one(False)          # another agent instance lives and dies in this process first
        w = W.AgentWorld(cfg)
        mon = h.Monitor(cfg, w)
        log = []
        found = []
        for ev in hist:
            mon.pre(w, ev)
            obs = w.step(ev, h.messages)
            aobs = W.abstract_obs(obs, w)
            vs = mon.post(w, ev, obs, aobs)
            log.append((ev, aobs, w.reported_state(), round(w.sim.now - w.sim.t0, 6)))
            found += [v[0] for v in vs]
        # violations evaluated once per state (nested continuations) rather than per transition
        found += [k for k, _ in h.state_checks(cfg, tuple(hist), w, mon)]
        return (log, found)
    outs = report.twice(one)
    if outs[0] != outs[1]:
        print('HARNESS-ERROR: replay is not deterministic')
        return 2
    for ev, aobs, st, t in outs[0][0]:
        print('t=%-10s %-28s -> %-12s %s' % (t, ev, st, list(aobs)))
    print('violation keys along the replay:', outs[0][1])
    print('expected key:', d['key'])
    if d['key'] in outs[0][1]:
        return 1
    cold = set(outs[0][1])
    outs = report.twice(one, True)
    if outs[0] != outs[1]:
        print('HARNESS-ERROR: replay is not deterministic')
        return 2
    if d['key'] not in outs[0][1] and set(outs[0][1]) - cold:
        # the recorded key came out of a worker that had run other histories before this one; which key comes out depends on
        # what ran before, that one does is the point
        print('violation keys after a warm-up instance:', sorted(set(outs[0][1]) - cold)[:6])
        print('the history is clean in a fresh process and violates the property once another agent instance has run in the same '
              'process (state kept outside the instance: module / class level, caches)')
        return 1
    if d['key'] in outs[0][1]:
        print('the history alone does not reproduce the violation; it does when another agent instance has run the same history in '
              'the same process before (state kept outside the instance: module / class level, caches)')
        return 1
    return 0
