"""Bootstrap shared by every check: pins hash seed, puts the stubs and /repo on sys.path,
imports yabgp from /repo's *working tree*, installs the time seam. No source is cached."""
import os
import sys

VERIF = os.path.dirname(os.path.dirname(os.path.abspath(__file__)))
REPO = os.environ.get('YABGP_REPO', '/repo')
STUBS = os.path.join(VERIF, 'vf', 'stubs')


def reexec_with_fixed_hashseed():
    """Checks re-exec themselves with PYTHONHASHSEED=0 (DESIGN section 4)."""
    want = os.environ.get('VERIF_HASHSEED', '0')
    if os.environ.get('PYTHONHASHSEED') != want:
        env = dict(os.environ)
        env['PYTHONHASHSEED'] = want
        env['PYTHONDONTWRITEBYTECODE'] = '1'
        os.execve(sys.executable, [sys.executable] + sys.argv, env)


_done = False


def setup():
    global _done
    if _done:
        return
    _done = True
    sys.dont_write_bytecode = True
    for p in (REPO, STUBS):
        while p in sys.path:
            sys.path.remove(p)
    sys.path[0:0] = [STUBS, REPO]
    if VERIF not in sys.path:
        sys.path.append(VERIF)
    import logging
    logging.disable(logging.CRITICAL)
    import yabgp
    real = os.path.realpath(yabgp.__file__)
    if not real.startswith(os.path.realpath(REPO) + os.sep):
        raise SystemExit('HARNESS-ERROR: yabgp imported from %s, not from %s' % (real, REPO))
    import twisted
    if not os.path.realpath(twisted.__file__).startswith(os.path.realpath(STUBS)):
        raise SystemExit('HARNESS-ERROR: real twisted on path; the stub world was designed for its absence')
    from oslo_config import cfg
    # option registration happens at import of these modules
    import yabgp.config  # noqa
    import yabgp.handler.default_handler  # noqa
    import yabgp.api.app  # noqa
    import yabgp.agent  # noqa  (registers log options; adds a stderr handler we silence)
    root = logging.getLogger()
    for h in list(root.handlers):
        root.removeHandler(h)
    cfg.CONF(args=[], project='yabgp', default_config_files=[])
