"""Known findings (DESIGN section 8): /verif/known_findings.json is read, never written at run time."""
import fnmatch
import hashlib
import json
import os

from . import boot

PATH = os.path.join(boot.VERIF, 'known_findings.json')


def load():
    if not os.path.exists(PATH):
        return []
    with open(PATH) as f:
        return json.load(f)['findings']


_cache = None


def match(prop, vkey):
    """Return the open known-finding entry that lists this violation key, else None.
    'fixed' entries never match: they suppress nothing."""
    global _cache
    if _cache is None:
        _cache = load()
    for e in _cache:
        if e.get('property') != prop or e.get('status') != 'open':
            continue
        for pat in e.get('keys', [e.get('key')]):
            if pat is not None and (pat == vkey or fnmatch.fnmatchcase(vkey, pat)):
                return e
    return None


def key_hash(vkey):
    return hashlib.sha1(vkey.encode()).hexdigest()[:12]
