"""Deterministic work meter (DESIGN section 2): counts PY_START + JUMP events of code objects
under /repo via sys.monitoring. On overrun raises BudgetExceeded (a BaseException) on every
further event until the harness regains control, and latches `overrun`."""
import sys
import os
from . import boot

import signal
import threading

mon = sys.monitoring
WALL_LIMIT = float(os.environ.get('VERIF_WALL_LIMIT', '30'))


def _on_alarm(signum, frame):
    M.overrun = True
    raise BudgetExceeded('wall clock')


TOOL = 4
_PREFIX = os.path.realpath(boot.REPO) + os.sep


class BudgetExceeded(BaseException):
    pass


class _Meter(object):
    def __init__(self):
        self.count = 0
        self.limit = None
        self.overrun = False
        self.installed = False


M = _Meter()
_file_ok = {}


def _is_repo(code):
    fn = code.co_filename
    r = _file_ok.get(fn)
    if r is None:
        r = os.path.realpath(fn).startswith(_PREFIX)
        _file_ok[fn] = r
    return r


def _tick():
    M.count += 1
    if M.limit is not None and M.count > M.limit:
        M.overrun = True
        raise BudgetExceeded(M.count)


def _on_start(code, offset):
    if not _is_repo(code):
        return mon.DISABLE
    _tick()


def _on_jump(code, src, dst):
    if not _is_repo(code):
        return mon.DISABLE
    _tick()


def install():
    if M.installed:
        return
    mon.use_tool_id(TOOL, 'vf-budget')
    mon.register_callback(TOOL, mon.events.PY_START, _on_start)
    mon.register_callback(TOOL, mon.events.JUMP, _on_jump)
    mon.set_events(TOOL, mon.events.PY_START | mon.events.JUMP)
    M.installed = True


def uninstall():
    if not M.installed:
        return
    mon.set_events(TOOL, 0)
    mon.free_tool_id(TOOL)
    M.installed = False


def run(limit, func, *args, **kw):
    """Run func under a step limit. Returns (status, value, steps):
    status 'ok' -> value is the return value; 'raise' -> value is the exception;
    'overrun' -> value None."""
    install()
    M.count = 0
    M.limit = limit
    M.overrun = False
    # backstop for work the step meter cannot see (a regular expression backtracking inside the C library, a huge integer
    # conversion): a wall-clock alarm, generous enough (WALL_LIMIT seconds for calls that take micro- to milliseconds) never to
    # fire on a loaded machine; it turns a hang of the check into an 'overrun' verdict
    alarm = threading.current_thread() is threading.main_thread()
    if alarm:
        old = signal.signal(signal.SIGALRM, _on_alarm)
        signal.setitimer(signal.ITIMER_REAL, WALL_LIMIT)
    try:
        try:
            v = func(*args, **kw)
            st = 'ok'
        except BudgetExceeded:
            v, st = None, 'overrun'
        except Exception as e:      # noqa
            v, st = e, 'raise'
        except SystemExit as e:
            v, st = e, 'raise'
    finally:
        M.limit = None
        if alarm:
            signal.setitimer(signal.ITIMER_REAL, 0)
            signal.signal(signal.SIGALRM, old)
    steps = M.count
    if M.overrun:
        return 'overrun', None, steps
    return st, v, steps
