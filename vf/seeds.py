"""Seed corpus: every byte string embedded in yabgp's unit tests (collected with ast, no test is run)."""
import ast
import os

from . import boot

_cache = None


def unit_test_bytes(min_len=3):
    global _cache
    if _cache is not None:
        return _cache
    root = os.path.join(boot.REPO, 'yabgp', 'tests')
    out = set()
    for dp, dn, fn in os.walk(root):
        for f in sorted(fn):
            if not f.endswith('.py'):
                continue
            try:
                tree = ast.parse(open(os.path.join(dp, f), 'rb').read())
            except SyntaxError:
                continue
            for node in ast.walk(tree):
                if isinstance(node, ast.Constant) and isinstance(node.value, bytes) and len(node.value) >= min_len:
                    out.add(node.value)
    _cache = sorted(out, key=lambda b: (len(b), b))
    return _cache


def mutations(seed, kinds=('byte', 'trunc')):
    """all single-field mutations of the fixed menu (DESIGN C10): each octet x {0x00, 0xFF, ^0x80, +1},
    truncation at every octet"""
    out = []
    if 'byte' in kinds:
        for i in range(len(seed)):
            b = seed[i]
            for nb in {0x00, 0xFF, b ^ 0x80, (b + 1) & 0xFF, (b - 1) & 0xFF}:
                if nb != b:
                    out.append(seed[:i] + bytes([nb]) + seed[i + 1:])
    if 'trunc' in kinds:
        for i in range(len(seed)):
            out.append(seed[:i])
    return out
