"""Reference FSM: RFC 4271 section 8 as profiled for an active-only speaker (DESIGN Appendix A).
For every (reference state, abstract event) it yields the set of allowed outcomes; the
implementation's observed outcome must be a member. Imports nothing from yabgp."""

IDLE, CONNECT, OPENSENT, OPENCONFIRM, ESTABLISHED = 'Idle', 'Connect', 'OpenSent', 'OpenConfirm', 'Established'

REPORTED = {IDLE: ('IDLE',), CONNECT: ('CONNECT', 'ACTIVE'), OPENSENT: ('OPENSENT',),
            OPENCONFIRM: ('OPENCONFIRM',), ESTABLISHED: ('ESTABLISHED',)}

TIMER_EVENT = {'automatic_start': 'START', 'idle_hold_time_event': 'T_IDLE',
               'connect_retry_time_event': 'T_CR', 'hold_time_event': 'T_HOLD',
               'keep_alive_time_event': 'T_KA', 'connect_timeout': 'CONN_FAIL',
               'delay_open_time_event': 'T_DELAYOPEN'}


def N(code, sub=None):
    return ('NOTIF', code, sub)


class Outcome(object):
    __slots__ = ('writes', 'close', 'connect', 'next', 'stopped', 'name')

    def __init__(self, writes, close, connect, nxt, stopped=None, name=''):
        self.writes = tuple(writes)
        self.close = close          # True / False / None (either)
        self.connect = connect
        self.next = nxt
        self.stopped = stopped      # None = unchanged
        self.name = name

    def matches(self, obs_writes, obs_close, obs_connect, reported):
        if len(obs_writes) != len(self.writes):
            return False
        for o, p in zip(obs_writes, self.writes):
            if o[0] != p[0]:
                return False
            if p[0] == 'NOTIF':
                if o[1] != p[1]:
                    return False
                if p[2] is not None and o[2] != p[2]:
                    return False
        if self.close is not None and bool(obs_close) != self.close:
            return False
        if self.connect is not None and bool(obs_connect) != self.connect:
            return False
        return reported in REPORTED[self.next]

    def show(self):
        w = ','.join('%s%s' % (x[0], ('(%s,%s)' % (x[1], '*' if x[2] is None else x[2])) if x[0] == 'NOTIF' else '')
                     for x in self.writes) or '-'
        return '%s close=%s connect=%s ->%s' % (w, {True: 1, False: 0, None: '?'}[self.close],
                                                 {True: 1, False: 0, None: '?'}[self.connect], self.next)


def ERR(code, sub=None):
    return Outcome([N(code, sub)], True, False, IDLE, name='ERR(%s,%s)' % (code, sub))


def DROP():
    return Outcome([], True, False, IDLE, name='DROP')


def NOP(st):
    return Outcome([], False, False, st, name='NOP')


class RefFSM(object):
    def __init__(self, cfg_hold):
        self.st = IDLE
        self.stopped = False
        self.cfg_hold = cfg_hold
        self.H = None

    def key(self):
        return (self.st, self.stopped, self.H)

    def label(self):
        return self.st + ('0' if (self.st == IDLE and self.stopped) else '')

    def allowed(self, ev):
        """ev: tuple, first item the abstract event name. Returns a list of Outcome."""
        st = self.st
        e = ev[0]
        if e in ('WAIT',):
            return [NOP(st)]
        if st == IDLE:
            if e in ('START', 'T_IDLE'):
                if self.stopped:
                    return [NOP(IDLE)]
                return [Outcome([], False, True, CONNECT, name='start')]
            if e == 'OP_START':
                return [Outcome([], False, True, CONNECT, stopped=False, name='manual-start')]
            if e == 'OP_STOP':
                return [Outcome([], False, False, IDLE, stopped=True, name='stop')]
            if e == 'CONN_OK':
                # only reachable when an attempt survived a stop: it may only be closed, never used
                return [Outcome([], None, False, IDLE, name='late-connect')]
            return [NOP(IDLE)]
        if st == CONNECT:
            if e == 'OP_STOP':
                return [Outcome([], None, False, IDLE, stopped=True, name='stop')]
            if e == 'CONN_OK':
                return [Outcome([('OPEN',)], False, False, OPENSENT, name='tcp-up')]
            if e == 'CONN_FAIL':
                return [Outcome([], False, False, IDLE, name='tcp-fail')]
            if e == 'T_CR':
                return [Outcome([], None, True, CONNECT, name='retry')]
            return [NOP(CONNECT)]
        # states with a connection
        if e in ('START', 'T_IDLE', 'OP_START', 'CONN_FAIL', 'CLOSE_DONE'):
            return [NOP(st)]
        if e == 'OP_STOP':
            if st == ESTABLISHED:
                return [Outcome([N(6)], True, False, IDLE, stopped=True, name='stop')]
            return [Outcome([], True, False, IDLE, stopped=True, name='stop'),
                    Outcome([N(6)], True, False, IDLE, stopped=True, name='stop+cease')]
        if e in ('T_CR', 'T_DELAYOPEN'):
            # the RFC stops ConnectRetryTimer (and DelayOpen is off) once the connection is up: an
            # expiry in these states can only be a stale timer, which must be unobservable
            return [NOP(st)]
        if e == 'T_HOLD':
            if st != OPENSENT and self.H == 0:
                return [NOP(st)]           # hold time 0: the timer is not running
            return [ERR(4)]
        if e == 'T_KA':
            if st == OPENSENT or self.H == 0:
                return [NOP(st)]           # not running in OpenSent / with hold time 0
            return [Outcome([('KA',)], False, False, st, name='keepalive')]
        if e == 'PEER_CLOSE':
            if st == OPENSENT:
                return [Outcome([], False, False, IDLE, name='peer-close'),
                        Outcome([], False, False, CONNECT, name='peer-close->active')]
            return [Outcome([], False, False, IDLE, name='peer-close')]
        if e == 'HDR':
            k = ev[1]
            if st == ESTABLISHED:
                return [ERR(1, k), ERR(5)]
            return [ERR(1, k)]
        if st == OPENSENT:
            if e == 'OPEN':
                return [Outcome([('KA',)], False, False, OPENCONFIRM, name='open-ok')]
            if e == 'OPEN_VER':
                return [ERR(2, 1)]
            if e == 'OPEN_AS':
                return [ERR(2, 2)]
            if e == 'OPEN_HOLD':
                return [ERR(2, 6)]
            if e == 'OPEN_ID':
                return [ERR(2, 3)]
            if e == 'OPEN_OPTPARAM':
                return [ERR(2, 4)]
            if e == 'OPEN_MALFORMED':
                return [ERR(2)]          # RFC 4271 6.2: a recognized but malformed optional parameter, subcode 0 (any accepted)
            if e in ('KA', 'UPD', 'UPD_MALFORMED'):
                return [ERR(5)]
            if e == 'NOTIF_VER':
                return [DROP()]
            if e == 'NOTIF':
                return [DROP(), ERR(5)]
            if e == 'RR':
                return [NOP(st), ERR(5)]
        if st == OPENCONFIRM:
            if e == 'OPEN':
                return [NOP(st), ERR(6, 7), ERR(5)]
            if e in ('OPEN_VER', 'OPEN_AS', 'OPEN_HOLD', 'OPEN_ID', 'OPEN_OPTPARAM', 'OPEN_MALFORMED'):
                sub = {'OPEN_VER': 1, 'OPEN_AS': 2, 'OPEN_HOLD': 6, 'OPEN_ID': 3, 'OPEN_OPTPARAM': 4, 'OPEN_MALFORMED': None}[e]
                return [NOP(st), ERR(2, sub), ERR(5), ERR(6, 7)]
            if e == 'KA':
                return [Outcome([], False, False, ESTABLISHED, name='established')]
            if e in ('UPD', 'UPD_MALFORMED'):
                return [ERR(5)]
            if e in ('NOTIF_VER', 'NOTIF'):
                return [DROP()]
            if e == 'RR':
                return [NOP(st), ERR(5)]
        if st == ESTABLISHED:
            if e == 'OPEN':
                return [ERR(5)]
            if e in ('OPEN_VER', 'OPEN_AS', 'OPEN_HOLD', 'OPEN_ID', 'OPEN_OPTPARAM', 'OPEN_MALFORMED'):
                sub = {'OPEN_VER': 1, 'OPEN_AS': 2, 'OPEN_HOLD': 6, 'OPEN_ID': 3, 'OPEN_OPTPARAM': 4, 'OPEN_MALFORMED': None}[e]
                return [ERR(5), ERR(2, sub)]
            if e in ('KA', 'UPD', 'RR'):
                return [NOP(st)]
            if e == 'UPD_MALFORMED':
                return [NOP(st), ERR(3)]
            if e in ('NOTIF_VER', 'NOTIF'):
                return [DROP()]
        raise KeyError('reference FSM has no row for state %s event %r' % (st, ev))

    def take(self, outcome, ev):
        self.st = outcome.next
        if outcome.stopped is not None:
            self.stopped = outcome.stopped
        if ev[0] == 'OPEN' and outcome.name == 'open-ok':
            self.H = min(self.cfg_hold, ev[1])
        if self.st in (IDLE, CONNECT):
            self.H = None
