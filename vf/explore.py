"""Engine E1: explicit-state exploration of the real session objects.
(a) level-synchronous BFS over the full event menu, de-duplicated on the canonical key, with a
    dynamic merge-soundness check; (b) deviation-bounded exploration around a cooperative script.
A state is the event history that reaches it; successors are produced by replaying
history + [event] in a fresh world (DESIGN sections 4, 5)."""
import multiprocessing as mp
import os
import random
import sys

from . import world as W
from .ref import wire

HARNESS = None       # set before the pool forks


class HarnessError(Exception):
    """exit 2: divergent replay, unsound abstraction, nondeterminism"""


class BaseMonitor(object):
    dead = False

    def __init__(self, cfg, w):
        pass

    def pre(self, w, ev):
        pass

    def post(self, w, ev, obs, aobs):
        return []

    def key(self):
        return ()


class BaseHarness(object):
    prop = None
    messages = {}
    Monitor = BaseMonitor
    merge_checks_per_key = 3
    ops = ('OP_STOP', 'OP_START')
    refuse = True
    peer_reset = True

    def rx_alphabet(self, w, mon):
        return list(self.messages)

    def menu(self, w, mon):
        return w.enabled(self.rx_alphabet(w, mon), ops=self.ops, refuse=self.refuse,
                         peer_reset=self.peer_reset)

    def extend(self, w, mon):
        return True

    def state_checks(self, cfg, history, w, mon):
        """violations evaluated once per new state (e.g. nested continuations)"""
        return []


def build(cfg, history, harness=None):
    h = harness or HARNESS
    w = W.AgentWorld(cfg)
    mon = h.Monitor(cfg, w)
    for ev in history:
        ev = tuple(ev)
        mon.pre(w, ev)
        obs = w.step(ev, h.messages)
        mon.post(w, ev, obs, W.abstract_obs(obs, w))
    return w, mon


def _succ(cfg, history, ev):
    h = HARNESS
    w, mon = build(cfg, history)
    mon.pre(w, ev)
    obs = w.step(ev, h.messages)
    aobs = W.abstract_obs(obs, w)
    viol = mon.post(w, ev, obs, aobs)
    overrun = any(e[0] == 'overrun' for e in obs)
    rec = {'ev': ev, 'aobs': aobs, 'viol': viol, 'cut': bool(mon.dead or overrun),
           'overrun': overrun, 'key': None, 'extend': False, 'state_viol': [], 'info': w.last_info.get('callee')}
    if not rec['cut']:
        rec['key'] = w.key(mon.key())
        rec['extend'] = bool(h.extend(w, mon))
    return rec, w, mon


def expand(task):
    """Worker: all successors of one state. task = (cfg, history, want_state_checks)"""
    cfg, history, full = task
    try:
        w, mon = build(cfg, history)
        events = HARNESS.menu(w, mon)
        out = []
        for ev in events:
            rec, w2, mon2 = _succ(cfg, history, ev)
            out.append(rec)
        return {'succ': out}
    except W.ReplayDivergence as e:
        return {'error': 'replay divergence at %r: %s' % (history, e)}


def expand_deep(task):
    """two-step successor signature of one state (merge check with lookahead 2)"""
    cfg, history, _ = task
    r = expand((cfg, history, False))
    if 'error' in r:
        return r
    out = []
    for rec in r['succ']:
        sub = None
        if not rec['cut']:
            r2 = expand((cfg, tuple(history) + (rec['ev'],), False))
            if 'error' in r2:
                return r2
            sub = _sig(r2['succ'])
        out.append((rec['ev'], rec['aobs'], rec['key'], tuple(v[0] for v in rec['viol']), sub))
    return {'sig2': out}


def state_check(task):
    cfg, history = task
    w, mon = build(cfg, history)
    return HARNESS.state_checks(cfg, history, w, mon)


_pool = None


def pool():
    global _pool
    if _pool is None:
        n = int(os.environ.get('VERIF_WORKERS', '0')) or min(16, os.cpu_count() or 1)
        ctx = mp.get_context('fork')
        _pool = ctx.Pool(n)
    return _pool


class WorkerDied(RuntimeError):
    pass


class TaskTimedOut(object):
    """stands for the result of a task that was killed at its wall-clock limit"""
    def __init__(self, seconds):
        self.seconds = seconds


def iso_map(fn, tasks, task_limit=None):
    """one fresh forked process per task: whatever the code under test leaves behind in a worker (class attributes, module
    globals, caches) cannot reach the next task, so a violation is a function of its task alone and --replay can re-run it.
    Forked from the main thread with no other pool alive; a worker that dies without a result is an error, never a hang.
    task_limit: seconds of wall clock after which a task is killed and its result is a TaskTimedOut (only the property that owns
    termination uses it: machine-dependent, a backstop for work the step meter does not see)."""
    import pickle
    import time as _time
    import select
    import traceback
    close_pool()
    n = int(os.environ.get('VERIF_WORKERS', '0')) or min(16, os.cpu_count() or 1)
    results = [None] * len(tasks)
    pending = list(enumerate(tasks))[::-1]
    running = {}
    try:
        while pending or running:
            while pending and len(running) < n:
                idx, t = pending.pop()
                r, w = os.pipe()
                sys.stdout.flush()
                sys.stderr.flush()
                pid = os.fork()
                if pid == 0:
                    code = 0
                    try:
                        os.close(r)
                        for fd in running:
                            os.close(fd)
                        try:
                            data = pickle.dumps(('ok', fn(t)), 2)
                        except BaseException:     # noqa
                            data = pickle.dumps(('err', traceback.format_exc()), 2)
                        with os.fdopen(w, 'wb') as f:
                            f.write(data)
                    except BaseException:     # noqa
                        code = 1
                    os._exit(code)
                os.close(w)
                running[r] = (idx, pid, [], _time.time())
            ready, _, _ = select.select(list(running), [], [], 10.0)
            if task_limit:
                for fd, rec in list(running.items()):
                    if _time.time() - rec[3] > task_limit:
                        running.pop(fd)
                        os.kill(rec[1], 9)
                        os.waitpid(rec[1], 0)
                        os.close(fd)
                        results[rec[0]] = TaskTimedOut(task_limit)
                ready = [fd for fd in ready if fd in running]
            for fd in ready:
                piece = os.read(fd, 1 << 20)
                if piece:
                    running[fd][2].append(piece)
                    continue
                idx, pid, buf, _t0 = running.pop(fd)
                os.close(fd)
                _, status = os.waitpid(pid, 0)
                data = b''.join(buf)
                if not data:
                    raise WorkerDied('the worker of task %d ended without a result (wait status %d)' % (idx, status))
                st, val = pickle.loads(data)
                if st == 'err':
                    raise RuntimeError('task %d raised in its worker:\n%s' % (idx, val))
                results[idx] = val
    finally:
        for fd, (idx, pid, buf, _t0) in list(running.items()):
            try:
                os.kill(pid, 9)
                os.waitpid(pid, 0)
                os.close(fd)
            except OSError:
                pass
    return results


def close_pool():
    global _pool
    if _pool is not None:
        _pool.close()
        _pool.join()
    _pool = None


def pmap(fn, tasks, chunk=None, task_limit=None):
    if chunk == 1 and tasks:
        # case-pool tasks (hundreds of cases each): isolated from one another
        return iso_map(fn, tasks, task_limit)
    if len(tasks) < 8 or os.environ.get('VERIF_WORKERS') == '1':
        return [fn(t) for t in tasks]
    p = pool()
    if chunk is None:
        chunk = max(1, min(64, len(tasks) // (4 * p._processes) or 1))
    return p.map(fn, tasks, chunk)


class BFSResult(object):
    def __init__(self):
        self.states = 0
        self.transitions = 0
        self.max_depth = 0
        self.closed = False
        self.depth_cap_hit = False
        self.obs_classes = set()
        self.merges = 0
        self.merges_checked = 0
        self.diverged = 0
        self.cut = 0
        self.not_extended = 0
        self.per_level = []
        self.samples = []
        self.state_histories = []     # (history) of every distinct state, for nested checks
        self.state_checks = 0
        self.refinements = []         # merges the soundness check refuted and undid


def _sig(succ):
    return [(r['ev'], r['aobs'], r['key'], tuple(v[0] for v in r['viol'])) for r in succ]


def bfs(harness, cfg, depth, collector, seed=0, merge_all=False, keep_states=False, result=None,
        run_state_checks=False, merge_lookahead=1, start=()):
    """start: a history whose end state is the root of this search (exploration from a non-initial state)"""
    global HARNESS
    HARNESS = harness
    res = result or BFSResult()
    rng = random.Random(seed)
    start = tuple(tuple(e) for e in start)
    w0, m0 = build(cfg, start)
    seen = {w0.key(m0.key()): start}
    frontier = [start]
    pending_alt = {}      # key -> [alt histories] waiting for the representative's expansion
    alt_count = {}
    if keep_states:
        res.state_histories.append(())
    for d in range(depth):
        if not frontier:
            res.closed = True
            break
        # seed only permutes visiting order; merging below is done in canonical (sorted) order
        order = list(range(len(frontier)))
        rng.shuffle(order)
        tasks = [(cfg, frontier[i], False) for i in order]
        alt_tasks = []
        for i in order:
            k = None
        results_shuffled = pmap(expand, tasks)
        results = [None] * len(frontier)
        for j, i in enumerate(order):
            results[i] = results_shuffled[j]
        # merge-soundness: expand the alternates recorded for this level's representatives
        alt_jobs = []
        for i, h in enumerate(frontier):
            for alt in pending_alt.pop(h, []):
                alt_jobs.append((i, alt))
        alt_results = pmap(expand, [(cfg, a, False) for _, a in alt_jobs])
        unsound = {}
        if merge_lookahead >= 2 and alt_jobs:
            # the one-step check cannot see a hidden field whose effect shows two events later
            reps = sorted(set(i for i, _ in alt_jobs))
            deep_rep = dict(zip(reps, pmap(expand_deep, [(cfg, frontier[i], False) for i in reps])))
            deep_alt = pmap(expand_deep, [(cfg, a, False) for _, a in alt_jobs])
            for j, ((i, alt), da) in enumerate(zip(alt_jobs, deep_alt)):
                if 'error' in da or 'error' in deep_rep[i]:
                    raise HarnessError(da.get('error') or deep_rep[i].get('error'))
                if da['sig2'] != deep_rep[i]['sig2']:
                    diff = [(x, y) for x, y in zip(deep_rep[i]['sig2'], da['sig2']) if x != y][:1]
                    unsound[j] = 'two steps ahead: %r' % (diff,)
        # A merge that the check refutes is undone: the alternate history becomes a state of its own (the canonical key was too
        # coarse for this tree - hidden state); exploration stays sound, the evidence counts the refinements.
        refined = []
        for j, ((i, alt), ar) in enumerate(zip(alt_jobs, alt_results)):
            if 'error' in ar:
                raise HarnessError(ar['error'])
            res.merges_checked += 1
            if _sig(ar['succ']) != _sig(results[i]['succ']):
                a, b = _sig(results[i]['succ']), _sig(ar['succ'])
                diff = [(x, y) for x, y in zip(a, b) if x != y][:2]
                unsound[j] = repr(diff or (len(a), len(b)))
            if j in unsound:
                res.refinements.append({'representative': list(frontier[i]), 'alternate': list(alt), 'difference': unsound[j][:400]})
                seen[('refined', len(res.refinements), alt)] = alt
                refined.append((alt, ar))
        nxt = []
        for h, r in list(zip(frontier, results)) + refined:
            if 'error' in r:
                raise HarnessError(r['error'])
            for rec in r['succ']:
                res.transitions += 1
                res.obs_classes.add(rec['aobs'])
                hh = h + (rec['ev'],)
                for vkey, detail in rec['viol']:
                    collector.add(vkey, {'cfg': cfg, 'history': hh}, detail)
                if rec['overrun']:
                    res.diverged += 1
                if rec['cut']:
                    res.cut += 1
                    continue
                k = rec['key']
                if k not in seen:
                    seen[k] = hh
                    if keep_states:
                        res.state_histories.append(hh)
                    if rec['extend']:
                        nxt.append(hh)
                    else:
                        res.not_extended += 1
                else:
                    res.merges += 1
                    rep = seen[k]
                    n = alt_count.get(k, 0)
                    if rep != hh and (merge_all or n < harness.merge_checks_per_key):
                        alt_count[k] = n + 1
                        pending_alt.setdefault(rep, []).append(hh)
        res.per_level.append((len(start) + d + 1, len(nxt), res.transitions))
        res.max_depth = max(res.max_depth, len(start) + d + 1)
        frontier = nxt
    else:
        if frontier:
            res.depth_cap_hit = True
        else:
            res.closed = True
    res.states += len(seen)
    ks = sorted(seen.values(), key=lambda h: (len(h), repr(h)))
    rs = random.Random(seed)
    res.samples = [list(map(list, h)) for h in rs.sample(ks, min(3, len(ks)))]
    if run_state_checks:
        hs = sorted(seen.values(), key=lambda h: (len(h), repr(h)))
        outs = pmap(state_check, [(cfg, h) for h in hs])
        for h, viols in zip(hs, outs):
            res.state_checks += 1
            for vkey, detail in viols:
                collector.add(vkey, {'cfg': cfg, 'history': h}, detail)
    return res


# ----------------------------------------------------------------------------------------------
# cooperative peer script (DESIGN section 5) -- decided from the world only
class Script(object):
    def __init__(self, cfg, open_name='OPEN_OK', ka_name='KA', peer_hold=90, refuse_first=0, connect_latency=0.0, silent_first=0):
        self.cfg = cfg
        self.silent_first = silent_first           # the first n attempts of the world get no answer at all (SYN lost)
        self.connect_latency = connect_latency     # seconds between connectTCP and the peer's answer (accept or refuse)
        self.open_name = open_name
        self.ka_name = ka_name
        self.peer_hold = peer_hold
        self.refuse_first = refuse_first
        self.refused = 0

    def exchanged(self, t):
        """(agent wrote OPEN, agent wrote KA, peer sent OPEN, peer sent KA) on transport t"""
        aw = [m for _, d in t.writes for m in wire.abstract_writes(d)]
        pr = []
        for _, d in t.rx:
            fr, err, rest = wire.deframe(d)
            pr += [x[0] for x in fr]
        return (('OPEN',) in aw, ('KA',) in aw, wire.OPEN in pr, wire.KEEPALIVE in pr)

    def session_peer_hold(self, t):
        """hold time in the OPEN the peer actually sent on this connection"""
        for _, d in t.rx:
            fr, err, rest = wire.deframe(d)
            for ty, body in fr:
                if ty == wire.OPEN and len(body) >= 10:
                    return wire.parse_open(body[:10] + b'')['hold'] if body[9] == 0 else \
                        int.from_bytes(body[3:5], 'big')
        return self.peer_hold

    def default(self, w):
        s = w.sim
        ll = w.live_list()
        dis = w.disconnecting()
        if dis:
            return ('CLOSE_DONE', ll.index(dis[0]))
        con = w.connecting()
        if con and w.sim.connectors.index(con[0]) < self.silent_first and w.due():
            return ('TICK', 0)                   # nothing comes back: only the agent's own timers (and the TCP timeout) move things
        if con and self.connect_latency:
            ready = con[0].started_at + self.connect_latency
            if s.now < ready - 1e-9:
                due = w.due()
                if due and due[0].time <= ready:
                    return ('TICK', 0)           # whatever is due before the peer answers fires first
                return ('WAIT', ready - s.now)
        if con:
            if self.refused < self.refuse_first:
                self.refused += 1
                return ('CONN_REFUSED', ll.index(con[0]))
            return ('CONN_OK', ll.index(con[0]))
        rd = w.readable()
        due = w.due()
        if rd:
            c = rd[-1]
            i = ll.index(c)
            t = c.transport
            a_open, a_ka, p_open, p_ka = self.exchanged(t)
            if a_open and not p_open:
                return ('RX', i, self.open_name)
            if p_open and a_ka and not p_ka:
                return ('RX', i, self.ka_name)
            if p_open and p_ka:
                H = min(w.cfg['hold'], self.session_peer_hold(t))
                if H > 0:
                    last = max([t.opened_at] + [x[0] for x in t.rx])
                    peer_due = last + H / 3.0
                    nxt = due[0].time if due else None
                    if nxt is None or peer_due <= nxt:
                        if s.now < peer_due - 1e-9:
                            dt = peer_due - s.now
                            if nxt is not None:
                                dt = min(dt, nxt - s.now)
                            return ('WAIT', dt)
                        return ('RX', i, self.ka_name)
        if due:
            return ('TICK', 0)
        return None


class LateCloseScript(Script):
    """The cooperative peer, except that the completion of a close the agent asked for is delivered as
    late as the model allows (only when nothing else can happen at this instant): connect results and
    peer messages overtake it. Deviations from it reach the races between an old connection's
    connectionLost and whatever the agent started in the meantime."""
    def default(self, w):
        dis = w.disconnecting()
        if not dis:
            return Script.default(self, w)
        ll = w.live_list()
        con = w.connecting()
        if con:
            return ('CONN_OK', ll.index(con[0]))
        rd = w.readable()
        if rd:
            c = rd[-1]
            a_open, a_ka, p_open, p_ka = self.exchanged(c.transport)
            if a_open and not p_open:
                return ('RX', ll.index(c), self.open_name)
            if p_open and a_ka and not p_ka:
                return ('RX', ll.index(c), self.ka_name)
        return ('CLOSE_DONE', ll.index(dis[0]))


class SilentScript(Script):
    """A peer that never answers: pending connects run into their timeout, nothing is ever sent.
    Closes the agent asked for still complete. Deviations from it reach the long, quiet schedules
    (stale timers firing minutes later) that the cooperative script never produces."""
    def default(self, w):
        dis = w.disconnecting()
        if dis:
            return ('CLOSE_DONE', w.live_list().index(dis[0]))
        if w.due():
            return ('TICK', 0)
        return None


class RefuseScript(Script):
    """A peer whose port is closed: every attempt is refused at once."""
    def default(self, w):
        dis = w.disconnecting()
        if dis:
            return ('CLOSE_DONE', w.live_list().index(dis[0]))
        con = w.connecting()
        if con:
            return ('CONN_REFUSED', w.live_list().index(con[0]))
        if w.due():
            return ('TICK', 0)
        return None


SCRIPTS = {'coop': Script, 'lateclose': LateCloseScript, 'silent': SilentScript, 'refuse': RefuseScript}


def run_script(w, harness, script, max_steps=80, until=None, mon=None, on_step=None):
    """Run the cooperative script deterministically from world w. Returns the list of
    (event, aobs, reported_state, time)."""
    trace = []
    for _ in range(max_steps):
        if until is not None and until(w, trace):
            break
        ev = script.default(w)
        if ev is None:
            break
        if mon is not None:
            mon.pre(w, ev)
        obs = w.step(ev, harness.messages)
        aobs = W.abstract_obs(obs, w)
        if mon is not None:
            v = mon.post(w, ev, obs, aobs)
        else:
            v = []
        trace.append((ev, aobs, w.reported_state(), w.sim.now, obs, v))
        if on_step is not None:
            on_step(w, trace[-1])
    return trace


# ----------------------------------------------------------------------------------------------
# deviation-bounded exploration
def _dev_exec(task):
    """Execute one run: follow `choices` (index into [default] + alternatives) then defaults to the
    horizon. Returns per-step alternative counts, violations."""
    cfg, choices, horizon, script_kw = task
    h = HARNESS
    w = W.AgentWorld(cfg)
    mon = h.Monitor(cfg, w)
    script_kw = dict(script_kw or {})
    script = SCRIPTS[script_kw.pop('kind', 'coop')](cfg, **script_kw)
    nalts = []
    viols = []
    hist = []
    taken = []
    for i in range(horizon):
        d = script.default(w)
        menu = [e for e in h.menu(w, mon) if e != d]
        opts = ([d] if d is not None else []) + menu
        if not opts:
            break
        c = choices[i] if i < len(choices) else 0
        if c >= len(opts):
            return {'error': 'deviation replay divergence: choice %d of %d at step %d of %r' % (c, len(opts), i, choices)}
        ev = opts[c]
        nalts.append(len(opts))
        taken.append(c)
        mon.pre(w, ev)
        obs = w.step(ev, h.messages)
        aobs = W.abstract_obs(obs, w)
        hist.append(ev)
        for v in mon.post(w, ev, obs, aobs):
            viols.append((v, tuple(hist)))
        if mon.dead or any(e[0] == 'overrun' for e in obs):
            break
    fin = h.final_checks(cfg, w, mon, hist) if hasattr(h, 'final_checks') else []
    for v in fin:
        viols.append((v, tuple(hist)))
    return {'nalts': nalts, 'taken': taken, 'viols': viols, 'len': len(hist),
            'end': (w.reported_state(), w.live())}


def deviations(harness, cfg, k, horizon, collector, script_kw=None, window=None):
    """All executions departing at most k times from the script (guidance idiom)."""
    global HARNESS
    HARNESS = harness
    stats = {'executions': 0, 'events': 0, 'k': k, 'horizon': horizon, 'window': window, 'outcomes': set()}
    level = [()]
    done = 0
    for devs in range(k + 1):
        results = pmap(_dev_exec, [(cfg, c, horizon, script_kw) for c in level])
        nxt = []
        for c, r in zip(level, results):
            if 'error' in r:
                raise HarnessError(r['error'])
            stats['executions'] += 1
            stats['events'] += r['len']
            stats['outcomes'].add(r['end'])
            for (vkey, detail), hist in r['viols']:
                collector.add(vkey, {'cfg': cfg, 'history': hist}, detail)
            if devs < k:
                for i in range(len(c), min(len(r['nalts']), window if window is not None else 10 ** 9)):
                    for alt in range(1, r['nalts'][i]):
                        nxt.append(tuple(r['taken'][:i]) + (alt,))
        level = nxt
        if not level:
            break
    return stats
