"""The closed system of engine E1: a real yabgp agent (BGPPeering/FSM/BGP objects from /repo)
inside the virtual world, the complete event menu, observations and the canonical key
(DESIGN sections 3-5)."""
import logging
import copy
import struct

from oslo_config import cfg
from twisted.internet import error

from . import sim, budget
from .ref import wire

CONF = cfg.CONF

DEFAULT_CFG = {
    'local_as': 65001, 'remote_as': 65002,
    'local_addr': '10.0.0.1', 'remote_addr': '10.0.0.2',
    'retry': 30, 'hold': 180, 'idle_hold': 30, 'call_later': 15, 'keep_alive_time': 60,
    'four_bytes_as': True, 'route_refresh': True, 'cisco_route_refresh': True,
    'enhanced_route_refresh': True, 'graceful_restart': True, 'cisco_multi_session': True,
    'add_path': None, 'afi_safi': ['ipv4'], 'rib': False, 'md5': None, 'setsockopt_fails': False,
    'peer_id': 0x0A000002, 'debug_log': False, 'gethost_fails': 0, 'handler_fault': None,
    'username': 'admin', 'password': 'admin',
}

EVENT_BUDGET = 200000   # interpreter steps of yabgp code per event (C04/C10/C11 use tighter ones)


class _SinkHandler(logging.Handler):
    """formats every record and throws it away (a standard handler never lets a formatting error reach the caller: nor does this)"""
    def emit(self, record):
        try:
            self.format(record)
        except Exception:      # noqa
            pass


_SINK = _SinkHandler()


def set_debug_logging(on):
    """the operator's log level is part of the environment: with it at DEBUG, code behind LOG.isEnabledFor / LOG.debug arguments runs"""
    lg = logging.getLogger()        # (some yabgp modules log to the root logger)
    if on:
        logging.disable(logging.NOTSET)
        lg.setLevel(logging.DEBUG)
        if _SINK not in lg.handlers:
            lg.addHandler(_SINK)
    else:
        logging.disable(logging.CRITICAL)
        lg.setLevel(logging.WARNING)
        if _SINK in lg.handlers:
            lg.removeHandler(_SINK)


class _Clock(object):
    """Replaces the `time` module attribute inside yabgp modules (DESIGN section 4)."""
    def __init__(self):
        self.world = None

    def time(self):
        return self.world.now

    def __getattr__(self, name):
        import time as _t
        return getattr(_t, name)


CLOCK = _Clock()
_seam_done = False


def install_time_seam():
    global _seam_done
    if _seam_done:
        return
    import yabgp.core.fsm, yabgp.core.protocol, yabgp.api.utils, yabgp.api.v1  # noqa
    import yabgp.handler.default_handler
    for m in (yabgp.core.fsm, yabgp.core.protocol, yabgp.api.utils, yabgp.api.v1,
              yabgp.handler.default_handler):
        if getattr(m, 'time', None) is not None:
            m.time = CLOCK
    _seam_done = True


def _summ(x):
    """Stable, hashable summary of a handler payload."""
    if isinstance(x, dict):
        return tuple(sorted((str(k), _summ(v)) for k, v in x.items()))
    if isinstance(x, (list, tuple)):
        return tuple(_summ(v) for v in x)
    if isinstance(x, (bytes, bytearray)):
        return bytes(x).hex()
    if isinstance(x, float):
        return round(x, 6)
    if isinstance(x, (int, str, bool)) or x is None:
        return x
    return repr(x)


_HANDLER_CLS = None


def make_handler(world):
    global _HANDLER_CLS
    if _HANDLER_CLS is None:
        _HANDLER_CLS = _make_handler_cls()
    h = _HANDLER_CLS()
    h.world = world
    return h


def _make_handler_cls():
    from yabgp.handler import BaseHandler

    class RecordingHandler(BaseHandler):
        world = None

        def init(self):
            pass

        def _rec(self, name, payload=None):
            self.world.sim.effect(('cb', name, _summ(payload)))
            # the application's handler does I/O (the default one writes and fsyncs a log record per message): one call may fail
            f = self.world.cfg.get('handler_fault')
            if f and f[0] == name:
                n = self.world.handler_calls.get(name, 0) + 1
                self.world.handler_calls[name] = n
                if n == f[1]:
                    raise OSError(28, 'No space left on device')

        def on_update_error(self, peer, timestamp, msg):
            self._rec('on_update_error', msg)

        def update_received(self, peer, timestamp, msg):
            self._rec('update_received', msg)

        def keepalive_received(self, peer, timestamp):
            self._rec('keepalive_received')

        def open_received(self, peer, timestamp, result):
            self._rec('open_received', result)

        def send_open(self, peer, timestamp, result):
            self._rec('send_open', copy.deepcopy(result))

        def route_refresh_received(self, peer, msg, msg_type):
            self._rec('route_refresh_received', (msg, msg_type))

        def notification_received(self, peer, msg):
            self._rec('notification_received', msg)

        def on_connection_lost(self, peer):
            self._rec('on_connection_lost')

        def on_connection_failed(self, peer, msg):
            self._rec('on_connection_failed', msg)

        def on_established(self, peer, msg):
            self._rec('on_established')

    return RecordingHandler


_last_overrides = [None]


class AgentWorld(object):
    """One execution = one AgentWorld; a state is the event history that reaches it."""

    def __init__(self, cfgd=None, handler_factory=None, budget_limit=EVENT_BUDGET):
        c = dict(DEFAULT_CFG)
        if cfgd:
            c.update(cfgd)
        self.cfg = c
        self.budget_limit = budget_limit
        import random
        set_debug_logging(c['debug_log'])
        random.seed(0)          # the agent does not use randomness today; a change that starts to must not make runs differ
        self.sim = sim.World(local_host=c['local_addr'])
        self.sim.gethost_failures = c['gethost_fails']
        CLOCK.world = self.sim
        install_time_seam()
        self.history = []
        self.obs_log = []
        self.exceptions = []
        self.overruns = 0
        self.handler_calls = {}
        self.held = []          # reactor.callFromThread calls of a REST worker thread that has not been scheduled again yet
        self._boot(handler_factory)

    # ------------------------------------------------------------------ boot
    def _boot(self, handler_factory):
        c = self.cfg
        import yabgp.config
        import yabgp.agent
        sig = repr(sorted((k, repr(v)) for k, v in c.items()))
        if _last_overrides[0] == sig:
            ov = lambda *a, **k: None    # noqa  (same overrides already in force)
        else:
            ov = CONF.set_override
        _last_overrides[0] = sig
        ov('connect_retry_time', c['retry'], group='time')
        ov('hold_time', c['hold'], group='time')
        ov('keep_alive_time', c['keep_alive_time'], group='time')
        ov('idle_hold_time', c['idle_hold'], group='time')
        ov('bgp_peer_call_later_time', c['call_later'], group='time')
        ov('local_as', c['local_as'], group='bgp')
        ov('remote_as', c['remote_as'], group='bgp')
        ov('local_addr', c['local_addr'], group='bgp')
        ov('remote_addr', c['remote_addr'], group='bgp')
        ov('afi_safi', list(c['afi_safi']), group='bgp')
        ov('rib', c['rib'], group='bgp')
        ov('md5', c['md5'], group='bgp')
        self.sim.setsockopt_fails = bool(c['setsockopt_fails'])
        for k in ('four_bytes_as', 'route_refresh', 'cisco_route_refresh', 'enhanced_route_refresh',
                  'graceful_restart', 'cisco_multi_session', 'add_path'):
            ov(k, c[k], group='bgp')
        ov('write_disk', c.get('write_disk', False), group='message')
        ov('username', c['username'], group='rest')
        ov('password', c['password'], group='rest')
        # from here on no set_override: it would drop the attribute assigned by get_bgp_config
        yabgp.config.get_bgp_config()
        self.handler = (handler_factory or make_handler)(self)
        self.sim.effects = []
        yabgp.agent.prepare_twisted_service(self.handler)
        self.sim.effects = None
        self.peering = CONF.bgp.running_config['factory']
        self.fsm = self.peering.fsm

    # ------------------------------------------------------------------ events
    def live_list(self):
        """Connectors that are not finished, in creation order; events address them by index here
        so that histories do not depend on how many dead connectors came before."""
        return [c for c in self.sim.connectors if c.state != 'disconnected']

    def due(self):
        return sorted(self.sim.due_calls(), key=lambda d: (d.name, d.seq))

    def tidmap(self):
        return {c.cid: i for i, c in enumerate(self.live_list())}

    def readable(self):
        return [c for c in self.sim.connectors
                if c.state == 'connected' and c.transport.connected and not c.transport.disconnecting]

    def disconnecting(self):
        return [c for c in self.sim.connectors
                if c.state == 'connected' and c.transport.connected and c.transport.disconnecting]

    def connecting(self):
        return [c for c in self.sim.connectors if c.state == 'connecting']

    def enabled(self, rx_alphabet=(), ops=('OP_STOP', 'OP_START'), peer_close=True, peer_reset=True,
                refuse=True):
        """The complete event menu, computed from the world, never from yabgp's state."""
        ev = []
        ll = self.live_list()
        dis, con, rd = self.disconnecting(), self.connecting(), self.readable()
        for i, c in enumerate(ll):
            if c in dis:
                ev.append(('CLOSE_DONE', i))
        for i, c in enumerate(ll):
            if c in con:
                ev.append(('CONN_OK', i))
                if refuse:
                    ev.append(('CONN_REFUSED', i))
        if not dis:
            for i, dc in enumerate(self.due()):
                ev.append(('TICK', i))
        for i, c in enumerate(ll):
            if c in rd:
                for name in rx_alphabet:
                    ev.append(('RX', i, name))
                if peer_close:
                    ev.append(('PEER_CLOSE', i))
                if peer_reset:
                    ev.append(('PEER_RESET', i))
        for o in ops:
            ev.append((o,))
        return ev

    def step(self, ev, messages=None):
        """Execute one event on the real objects; returns the observation (list of effects)."""
        s = self.sim
        s.effects = []
        kind = ev[0]
        info = {}
        self.pre_tidmap = self.tidmap()
        self.pre_nconn = len(s.connectors)
        if kind == 'TICK':
            due = self.due()
            if self.disconnecting() or ev[1] >= len(due):
                raise ReplayDivergence('event %r not enabled' % (ev,))
            dc = due[ev[1]]
            info['callee'] = dc.name
            info['dt'] = max(0.0, dc.time - s.now)
            fn = lambda: s.run_call(dc)     # noqa
        elif kind == 'CONN_OK':
            c = self._need(ev, 'connecting')
            fn = lambda: s.succeed_connect(c)   # noqa
        elif kind == 'CONN_REFUSED':
            c = self._need(ev, 'connecting')
            fn = lambda: s.fail_connect(c, error.ConnectionRefusedError())   # noqa
        elif kind == 'RX':
            c = self._need(ev, 'readable')
            data = messages[ev[2]] if messages is not None and not isinstance(ev[2], bytes) else ev[2]
            if isinstance(data, str):
                data = bytes.fromhex(data)
            fn = lambda: s.deliver(c, data)   # noqa
        elif kind == 'PEER_CLOSE':
            c = self._need(ev, 'readable')
            fn = lambda: s.close_delivered(c, error.ConnectionDone())   # noqa
        elif kind == 'PEER_RESET':
            c = self._need(ev, 'readable')
            fn = lambda: s.close_delivered(c, error.ConnectionLost())   # noqa
        elif kind == 'CLOSE_DONE':
            c = self._need(ev, 'disconnecting')
            fn = lambda: s.close_delivered(c, error.ConnectionDone())   # noqa
        elif kind == 'OP_STOP':
            from yabgp.api import utils
            fn = lambda: s.effect(('rest', _summ(utils.manual_stop(self.cfg['remote_addr']))))  # noqa
        elif kind == 'OP_START':
            from yabgp.api import utils
            fn = lambda: s.effect(('rest', _summ(utils.manual_start(self.cfg['remote_addr']))))  # noqa
        elif kind == 'REST':
            req = messages['@' + ev[1]]
            fn = lambda: s.effect(('rest',) + self.rest(*req))   # noqa
        elif kind == 'REST_HOLD':
            # the request is answered by its worker thread, but what it handed to reactor.callFromThread has not run yet: the
            # reactor thread goes on with other events first (('DRAIN',) runs the calls)
            req = messages['@' + ev[1]]

            def fn():
                s.effect(('rest',) + self.rest(*req))
                self.held.extend(s.thread_q)
                del s.thread_q[:]
        elif kind == 'DRAIN':
            if not self.held:
                raise ReplayDivergence('event %r not enabled (nothing is held)' % (ev,))

            def fn():
                s.thread_q.extend(self.held)
                del self.held[:]
        elif kind == 'MQ':
            item = messages['@mq:' + ev[1]]
            fn = lambda: self.handler.inter_mq.put(copy.deepcopy(item))   # noqa  (application queues a message; sent on the next KEEPALIVE)
        elif kind == 'WAIT':
            due = s.due_calls()
            if self.disconnecting() or (due and s.now + ev[1] > due[0].time + 1e-9):
                raise ReplayDivergence('event %r not enabled' % (ev,))
            fn = lambda: setattr(s, 'now', s.now + ev[1])   # noqa
        elif kind == 'CALL':
            fn = ev[1]
        else:
            raise ReplayDivergence('unknown event %r' % (ev,))

        def run():
            fn()
            s.drain_threads()

        st, val, steps = budget.run(self.budget_limit, run)
        if st == 'raise':
            s.effects.append(('exc', type(val).__name__, str(val)[:200]))
            self.exceptions.append((len(self.history), type(val).__name__, str(val)[:200]))
        elif st == 'overrun':
            s.effects.append(('overrun', steps))
            self.overruns += 1
        obs = s.effects
        s.effects = None
        self.history.append(ev)
        info['steps'] = steps
        info['state'] = self.reported_state()
        info['t'] = s.now
        self.last_info = info
        return obs

    def _need(self, ev, what):
        ll = self.live_list()
        if ev[1] >= len(ll):
            raise ReplayDivergence('event %r: no live connector %d' % (ev, ev[1]))
        c = ll[ev[1]]
        ok = {'connecting': c in self.connecting(), 'readable': c in self.readable(),
              'disconnecting': c in self.disconnecting()}[what]
        if not ok:
            raise ReplayDivergence('event %r not enabled (connector is not %s)' % (ev, what))
        return c

    # ------------------------------------------------------------------ REST (Flask test client)
    _client = None

    def rest(self, method, path, json=None, auth='admin:admin', raw=False):
        """One REST request as one atomic event; returns (status, summarised JSON body)."""
        import base64
        from yabgp.api.app import app
        if AgentWorld._client is None:
            AgentWorld._client = app.test_client()
        headers = {}
        if auth is not None:
            headers['Authorization'] = 'Basic ' + base64.b64encode(auth.encode()).decode()
        path = path.replace('<ip>', self.cfg['remote_addr'])
        kw = {'headers': headers}
        if json is not None:
            # the body exactly as a client would write it: Flask's test client would sort the members of every object
            import json as _json
            kw['data'] = _json.dumps(json)
            kw['content_type'] = 'application/json'
        r = AgentWorld._client.open(path, method=method, **kw)
        body = r.get_json(silent=True)
        if raw:
            return r.status_code, body, r.get_data()
        return r.status_code, _summ(body)

    # ------------------------------------------------------------------ queries
    def reported_state(self):
        from yabgp.common import constants as k
        return k.stateDescr[self.fsm.state]

    def live(self):
        """connectors still connecting + transports connected and not being closed by the agent"""
        return len(self.connecting()) + len(self.readable())

    def key(self, extra=()):
        """Canonical state (DESIGN section 5)."""
        s = self.sim
        f = self.fsm
        calls = tuple(sorted((dc.name, round(dc.time - s.now, 6)) for dc in s.calls))
        conns = []
        for c in s.connectors:
            if c.state == 'connecting':
                conns.append(('connecting',))
            elif c.state == 'connected' and c.transport.connected:
                p = c.transport.protocol
                conns.append(('disconnecting' if c.transport.disconnecting else 'open',
                              p is f.protocol, p is self.peering.estab_protocol, p.disconnected,
                              p.fourbytesas, p.add_path_ipv4_receive, p.add_path_ipv4_send,
                              bytes(p._receive_buffer)))
        rc = CONF.bgp.running_config
        fp = f.protocol
        # which connector the peering remembers (attribute introduced by the connector fix; absent on older trees)
        pc = getattr(self.peering, 'connector', 'n/a')
        if pc is None or pc == 'n/a':
            conn_ref = pc
        else:
            conn_ref = pc.state if pc.state != 'connected' else ('connected' if pc.transport.connected else 'closed')
        return (self.reported_state(), f.allow_automatic_start, f.hold_time, round(f.keep_alive_time, 6),
                calls, tuple(conns), fp is None, self.peering.estab_protocol is None,
                bool(fp is not None and fp.transport is not None and fp.transport.connected),
                repr(_summ(rc['capability']['local'])), repr(_summ(rc['capability']['remote'])),
                self.peering.peer_id, self.peering.bgp_id, tuple(_summ(x) for x in list(self.handler.inter_mq.queue)), conn_ref,
                tuple(getattr(f_, '__name__', '?') for f_, _a, _k in self.held), tuple(extra))


class ReplayDivergence(Exception):
    pass


def abstract_obs(obs, w=None):
    """Observation with written bytes replaced by abstract message tuples (reference deframer) and
    transport / connector ids replaced by their live index before the event ('new<k>' for
    connectors created by the event itself, 'dead' for finished ones)."""
    def tid(t):
        if w is None:
            return t
        if t in w.pre_tidmap:
            return w.pre_tidmap[t]
        if t >= w.pre_nconn:
            return 'new%d' % (t - w.pre_nconn)
        return 'dead'
    out = []
    for e in obs:
        if e[0] == 'write':
            for m in wire.abstract_writes(e[2]):
                out.append(('write', tid(e[1])) + m)
        elif e[0] in ('lose', 'connect', 'abort', 'write-dropped'):
            out.append((e[0], tid(e[1])))
        elif e[0] == 'cb':
            out.append(('cb', e[1]))
        elif e[0] == 'exc':
            out.append(('exc', e[1]))
        elif e[0] == 'overrun':
            out.append(('overrun',))
        else:
            out.append(e)
    return tuple(out)


def replay(cfgd, history, messages=None, **kw):
    w = AgentWorld(cfgd, **kw)
    for ev in history:
        w.step(tuple(ev) if not isinstance(ev, tuple) else ev, messages)
    return w
