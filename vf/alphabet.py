"""Message alphabets of E1/E2 (DESIGN section 6); built by the reference encoder only."""
import struct
from .ref import wire

PEER_ID = 0x0A000002


def peer_caps():
    return [wire.cap_mp(1, 1), wire.cap(wire.CAP_RR), wire.cap(wire.CAP_RR_OLD)]


def attr(flags, code, value):
    if len(value) > 255 or flags & 0x10:
        return struct.pack('!BBH', flags | 0x10, code, len(value)) + value
    return struct.pack('!BBB', flags, code, len(value)) + value


def update_body(withdrawn=b'', attrs=b'', nlri=b''):
    return struct.pack('!H', len(withdrawn)) + withdrawn + struct.pack('!H', len(attrs)) + attrs + nlri


def simple_update(asn=65002, as4=True, origin=0, prefix=b'\x08\x0a', nexthop=b'\x0a\x00\x00\x02'):
    aspath = struct.pack('!BB', 2, 1) + (struct.pack('!I', asn) if as4 else struct.pack('!H', asn))
    attrs = attr(0x40, 1, bytes([origin])) + attr(0x40, 2, aspath) + attr(0x40, 3, nexthop)
    return wire.frame(wire.UPDATE, update_body(b'', attrs, prefix))


def session_messages(remote_as=65002, local_as=65001, holds=(90,), full=True):
    """name -> bytes, ordered simplest first."""
    m = {}
    caps = peer_caps()
    m['OPEN_OK'] = wire.open_msg(remote_as, holds[0], PEER_ID, caps)
    m['KA'] = wire.keepalive()
    m['UPD'] = simple_update(remote_as)
    for h in holds[1:]:
        m['OPEN_OK_H%d' % h] = wire.open_msg(remote_as, h, PEER_ID, caps)
    if full:
        m['NOTIF_CEASE'] = wire.notification(6, 2)
        m['NOTIF_VER'] = wire.notification(2, 1, b'\x00\x04')
        m['RR'] = wire.route_refresh(1, 1)
        m['OPEN_BADVER'] = wire.open_msg(remote_as, 90, PEER_ID, caps, version=3)
        m['OPEN_BADAS'] = wire.open_msg(remote_as + 1, 90, PEER_ID, caps)
        m['OPEN_H1'] = wire.open_msg(remote_as, 1, PEER_ID, caps)
        m['OPEN_H2'] = wire.open_msg(remote_as, 2, PEER_ID, caps)
        m['OPEN_NOOPT'] = wire.open_msg(remote_as, 90, PEER_ID, [], as4=False)
        m['UPD_MALFORMED'] = simple_update(remote_as, origin=3)
        m['BAD_MARKER'] = wire.frame(wire.KEEPALIVE, marker=b'\xff' * 15 + b'\xfe')
        m['BAD_LEN18'] = wire.frame(wire.KEEPALIVE, length=18)
        m['BAD_LEN4097'] = wire.frame(wire.KEEPALIVE, length=4097)
        m['BAD_TYPE'] = wire.frame(9)
        # well-framed headers whose length is impossible for their type (RFC 4271 6.1: bad message length)
        m['OPEN_SHORT'] = wire.frame(wire.OPEN, b'\x04\xfd\xea\x00\x5a\x0a')
        m['KA_LONG'] = wire.frame(wire.KEEPALIVE, b'\x00')
        m['UPD_SHORT'] = wire.frame(wire.UPDATE, b'\x00\x00')
        m['NOTIF_SHORT'] = wire.frame(wire.NOTIFICATION, b'\x06')
        # OPEN errors beyond version / AS / hold time
        m['OPEN_BADID'] = wire.open_msg(remote_as, 90, 0, caps)
        m['OPEN_BADCAP'] = wire.open_msg(remote_as, 90, PEER_ID, [wire.cap(wire.CAP_MP, b''), wire.cap(wire.CAP_RR)])
        # NOTIFICATIONs outside the RFC 4271 code table (7 = RFC 7313 ROUTE-REFRESH Message Error; 9/200 unassigned):
        # whatever the codes, event 25 NotifMsg ends the session
        m['NOTIF_CODE7'] = wire.notification(7, 1)
        m['NOTIF_UNASSIGNED'] = wire.notification(9, 200, b'\x01')
        m['OPEN_AUTHPARAM'] = wire.frame(wire.OPEN, wire.open_body(remote_as if remote_as < 65536 else 23456, 90, PEER_ID,
                                                                  b'\x01\x02\x00\x00'))
    return m


def classify(name):
    """abstract event class of an RX message name (Appendix A vocabulary)"""
    if name.startswith('OPEN_OK_H'):
        return ('OPEN', int(name[len('OPEN_OK_H'):]))
    table = {'OPEN_OK': ('OPEN', 90), 'OPEN_NOOPT': ('OPEN', 90), 'KA': ('KA',), 'UPD': ('UPD',),
             'UPD_MALFORMED': ('UPD_MALFORMED',), 'NOTIF_CEASE': ('NOTIF',), 'NOTIF_VER': ('NOTIF_VER',), 'NOTIF_CODE7': ('NOTIF',), 'NOTIF_UNASSIGNED': ('NOTIF',),
             'RR': ('RR',), 'OPEN_BADVER': ('OPEN_VER',), 'OPEN_BADAS': ('OPEN_AS',),
             'OPEN_H1': ('OPEN_HOLD',), 'OPEN_H2': ('OPEN_HOLD',), 'BAD_MARKER': ('HDR', 1),
             'BAD_LEN18': ('HDR', 2), 'BAD_LEN4097': ('HDR', 2), 'BAD_LEN0': ('HDR', 2),
             'BAD_TYPE': ('HDR', 3), 'OPEN_SHORT': ('HDR', 2), 'KA_LONG': ('HDR', 2), 'UPD_SHORT': ('HDR', 2),
             'NOTIF_SHORT': ('HDR', 2), 'OPEN_BADID': ('OPEN_ID',), 'OPEN_AUTHPARAM': ('OPEN_OPTPARAM',), 'OPEN_BADCAP': ('OPEN_MALFORMED',)}
    return table[name]
