#!/venv/bin/python
"""mkseeded_light.py <seed-id> <property> <patch.diff> <demo.py> <needs-to-manifest text> <check=rc,check=rc...>
Like mkseeded.py, but the named checks are NOT run again: their results were observed beforehand on a patched copy of /repo's HEAD
(YABGP_REPO=<copy> ./check ...) and are recorded as given.  Still verifies on /repo itself that the patch applies, the 221 tests pass
with it, and the demonstration fails with it and passes without it.  Always reverts."""
import json
import os
import shutil
import subprocess
import sys

sid, prop, patch, demo, needs, results = sys.argv[1:7]


def sh(cmd, **kw):
    return subprocess.run(cmd, shell=True, capture_output=True, text=True, **kw)


if sh('git -C /repo status --porcelain --untracked-files=no').stdout.strip():
    sys.exit('refusing: /repo has uncommitted changes')
meta = {'seed': sid, 'property': prop, 'needs_to_manifest': needs, 'repo_head': sh('git -C /repo log --format=%h -1').stdout.strip(), 'ran': []}
r0 = sh('/venv/bin/python %s /repo' % demo)
meta['demo_without_patch_rc'] = r0.returncode
meta['ran'].append('/venv/bin/python demo.py /repo   (unchanged tree) -> rc %d' % r0.returncode)
try:
    r = sh('git -C /repo apply %s' % patch)
    if r.returncode != 0:
        sys.exit('%s: patch does not apply: %s' % (sid, r.stderr[-200:]))
    t = sh('cd /repo && /venv/bin/python -m pytest -q -p no:cacheprovider yabgp 2>&1 | tail -1')
    meta['tests_with_patch'] = t.stdout.strip()
    meta['ran'].append('cd /repo && /venv/bin/python -m pytest -q -p no:cacheprovider yabgp -> ' + t.stdout.strip())
    r1 = sh('/venv/bin/python %s /repo' % demo)
    meta['demo_with_patch_rc'] = r1.returncode
    meta['demo_with_patch_last_line'] = (r1.stdout.strip().splitlines() or [''])[-1][:300]
    meta['ran'].append('/venv/bin/python demo.py /repo   (patch applied) -> rc %d' % r1.returncode)
finally:
    sh('git -C /repo checkout -- .')
meta['checks'] = {}
for item in results.split(','):
    c, rc = item.split('=')
    meta['checks'][c] = {'rc': int(rc), 'observed_on': 'a patched copy of HEAD (YABGP_REPO=<copy> ./check %s --tier quick), not re-run when the seed was stored' % c}
    meta['ran'].append('YABGP_REPO=<patched copy of HEAD> ./check %s --tier quick -> rc %s' % (c, rc))
ok = ('221 passed' in meta.get('tests_with_patch', '')) and meta['demo_with_patch_rc'] != 0 and meta['demo_without_patch_rc'] == 0
meta['confirmed'] = ok
meta['caught_by'] = [c for c, v in meta['checks'].items() if v['rc'] == 1]
print(sid, 'confirmed' if ok else 'NOT CONFIRMED (demo without %s, with %s, tests %s)' % (meta['demo_without_patch_rc'], meta.get('demo_with_patch_rc'), meta.get('tests_with_patch')),
      'caught by', meta['caught_by'] or 'NOTHING')
if ok:
    d = '/verif/seeded/' + sid
    os.makedirs(d, exist_ok=True)
    shutil.copy(patch, d + '/patch.diff')
    shutil.copy(demo, d + '/demo.py')
    json.dump(meta, open(d + '/meta.json', 'w'), indent=1)
