#!/bin/bash
# usage: tools/sweep.sh <tier> [seed]  - every check once, one line per property (run from the /verif copy at hand)
cd "$(dirname "$0")/.."
tier=${1:-quick}
for p in ${PROPS:-C01 C02 C03 C04 C05 C06 C07 C08 C09 C10 C11 C12 C13 C14 C15 C16 C17 C18 C19 C20}; do
  s=$(date +%s)
  VERIF_SEED=${2:-0} ./check $p --tier $tier > /tmp/sweep_$p.out 2>&1
  rc=$?
  echo "$p rc=$rc viol=$(grep -c '^VIOLATION' /tmp/sweep_$p.out) known=$(grep -c '^KNOWN-FINDING' /tmp/sweep_$p.out) t=$(( $(date +%s) - s ))s"
  [ $rc -ne 0 ] && grep -A3 '^VIOLATION\|HARNESS\|Traceback' /tmp/sweep_$p.out | head -20 | cut -c1-400
done
