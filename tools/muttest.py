#!/venv/bin/python
"""Apply a textual mutation (or a patch file) to /repo, run checks, always revert.
usage: muttest.py --file yabgp/core/fsm.py --old '...' --new '...' C13 [C01 ...]
       muttest.py --patch /path/to/x.diff C13 ...
Refuses to run if /repo has uncommitted changes."""
import argparse
import subprocess
import sys

import os as _os
_os.environ.setdefault('VERIF_EVIDENCE_DIR', '/tmp/verif_evidence_scratch')      # these tools run checks against a CHANGED tree: /verif/evidence is not theirs to write

ap = argparse.ArgumentParser()
ap.add_argument('--file')
ap.add_argument('--old')
ap.add_argument('--new')
ap.add_argument('--patch')
ap.add_argument('--tier', default='quick')
ap.add_argument('--tests', action='store_true', help='also run the repo test suite with the mutation')
ap.add_argument('props', nargs='+')
a = ap.parse_args()

if subprocess.run(['git', '-C', '/repo', 'status', '--porcelain', '--untracked-files=no'], capture_output=True, text=True).stdout.strip():
    sys.exit('refusing: /repo has uncommitted changes')
try:
    if a.patch:
        subprocess.run(['git', '-C', '/repo', 'apply', a.patch], check=True)
    else:
        p = '/repo/' + a.file
        s = open(p).read()
        if s.count(a.old) != 1:
            sys.exit('old text occurs %d times' % s.count(a.old))
        open(p, 'w').write(s.replace(a.old, a.new))
    if a.tests:
        r = subprocess.run('cd /repo && /venv/bin/python -m pytest -q -p no:cacheprovider yabgp 2>&1 | tail -1', shell=True, capture_output=True, text=True)
        print('TESTS:', r.stdout.strip())
    for prop in a.props:
        r = subprocess.run(['/verif/check', prop, '--tier', a.tier], capture_output=True, text=True, cwd='/verif')
        lines = [l for l in r.stdout.splitlines() if l.startswith(('VIOLATION', '  key:', 'HARNESS'))]
        print('%s rc=%d  %d VIOLATION lines' % (prop, r.returncode, sum(l.startswith('VIOLATION') for l in lines)))
        for l in lines[:12]:
            if not l.startswith('VIOLATION'):
                print('   ', l.strip()[:200])
        if r.returncode == 2:
            print(r.stdout[-1500:], r.stderr[-1500:])
finally:
    subprocess.run(['git', '-C', '/repo', 'checkout', '--', '.'], check=True)
    subprocess.run('rm -rf /verif/replays/*', shell=True)
