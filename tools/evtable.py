#!/venv/bin/python
"""evtable.py - a markdown table of what the evidence files of the last run say (property, tier, cases / states, thread schedules, wall)."""
import glob
import json
import os

HERE = os.path.dirname(os.path.dirname(os.path.abspath(__file__)))
print('| | level | states | transitions / executions | evaluations | thread schedules (E5) | wall |')
print('|---|---|---|---|---|---|---|')
for f in sorted(glob.glob(os.path.join(HERE, 'evidence', 'C*.json'))):
    d = json.load(open(f))
    c = d.get('coverage', {})
    ti = c.get('thread_interleavings') or []
    sched = sum(t.get('schedules_executed', 0) for t in ti)
    tr = c.get('traces_validated_against_impl', c.get('transitions', ''))
    print('| %s (%s) | %s | %s | %s | %s | %s | %.0f s |' % (d['property_id'], d['tier'], d['level'], c.get('states', ''), tr, c.get('evaluations', ''),
                                                      ('%d in %d pairs' % (sched, len(ti))) if ti else '', d.get('wall_s', 0)))
