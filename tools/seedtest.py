#!/venv/bin/python
"""seedtest.py <patch.diff> [--demo demo.py] [--tier quick] PROP...  : apply a seeded change to /repo, run the
demo (optional), the repo tests and the named checks; always revert."""
import argparse
import subprocess
import sys

import os as _os
_os.environ.setdefault('VERIF_EVIDENCE_DIR', '/tmp/verif_evidence_scratch')      # these tools run checks against a CHANGED tree: /verif/evidence is not theirs to write

ap = argparse.ArgumentParser()
ap.add_argument('patch')
ap.add_argument('--demo')
ap.add_argument('--tier', default='quick')
ap.add_argument('--notests', action='store_true')
ap.add_argument('props', nargs='*')
a = ap.parse_args()


def sh(cmd, **kw):
    return subprocess.run(cmd, shell=True, capture_output=True, text=True, **kw)


if sh('git -C /repo status --porcelain --untracked-files=no').stdout.strip():
    sys.exit('refusing: /repo has uncommitted changes')
try:
    r = sh('git -C /repo apply %s' % a.patch)
    if r.returncode != 0:
        r = sh('cd /repo && patch -p1 --fuzz=3 --no-backup-if-mismatch < %s' % a.patch)
        print('git apply failed; patch(1):', 'ok' if r.returncode == 0 else 'FAILED ' + r.stdout[-300:])
        if r.returncode != 0:
            sys.exit(3)
    if a.demo:
        r = sh('/venv/bin/python %s /repo' % a.demo)
        print('DEMO with patch: rc=%d %s' % (r.returncode, (r.stdout.strip().splitlines() or [''])[-1][:200]))
    if not a.notests:
        r = sh('cd /repo && /venv/bin/python -m pytest -q -p no:cacheprovider yabgp 2>&1 | tail -1')
        print('TESTS:', r.stdout.strip())
    for prop in a.props:
        r = subprocess.run(['/verif/check', prop, '--tier', a.tier], capture_output=True, text=True, cwd='/verif')
        lines = [l for l in r.stdout.splitlines() if l.startswith(('VIOLATION', '  key:', 'HARNESS'))]
        print('%s rc=%d  %d VIOLATION lines' % (prop, r.returncode, sum(l.startswith('VIOLATION') for l in lines)))
        for l in [x for x in lines if not x.startswith('VIOLATION')][:5]:
            print('   ', l.strip()[:220])
        if r.returncode == 2:
            print(r.stdout[-1200:], r.stderr[-1200:])
finally:
    sh('git -C /repo checkout -- . && git -C /repo clean -fdq -e "*.orig" yabgp')
    sh('find /repo -name "*.orig" -o -name "*.rej" | xargs rm -f')
    sh('rm -rf /verif/replays/*')
    if a.demo:
        r = sh('/venv/bin/python %s /repo' % a.demo)
        print('DEMO without patch: rc=%d' % r.returncode)
