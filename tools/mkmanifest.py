#!/venv/bin/python
"""Regenerates MANIFEST.json from the table below (kept valid at all times)."""
import json
import os

HERE = os.path.dirname(os.path.dirname(os.path.abspath(__file__)))
E1_NOTE = ('Trusted base: the hand-written stub of the Twisted 20.3 API surface yabgp uses (Twisted is absent from the '
           'image; assumptions listed in DESIGN.md section 3 and in the evidence file), the reference deframer/decoder '
           'in vf/ref, and the canonical-key abstraction (dynamically cross-checked by the merge check). Bounds: depth / '
           'deviation bound / alphabets / configurations as reported in the evidence.')
E3_NOTE = ('Trusted base: the reference codec and structural walker in vf/ref (written from the RFCs, imports nothing '
           'from yabgp) and the per-field boundary alphabets. Small-scope exhaustive: shapes x boundary values, '
           'pairs/triples of elements; not all values.')

CHECKS = {
    'C12': dict(level='model_checking', engine='E1',
                technique='explicit-state BFS + deviation-bounded exploration of the real session objects under a virtual reactor',
                text='Every event sequence to the stated depth over the full, unrestricted event menu, plus every execution '
                     'with <= k deviations from a cooperative-peer script, is executed on the real BGPPeering/FSM/BGP objects; '
                     'after every event the number of live connections/attempts, the destination of every write and the '
                     'absence of orphan transports are checked.',
                ref='7 C12', note=E1_NOTE),
    'C13': dict(level='model_checking', engine='E1',
                technique='explicit-state BFS + deviation-bounded exploration of the real session objects under a virtual reactor',
                text='Manual stop is issued in every state reached within the depth and followed by every continuation up to '
                     'the depth (peer bytes, connect results, close completion, every pending timer, manual start); a monitor '
                     'requires Cease iff Established, close, then no write and no connectTCP until manual start; manual start '
                     'from stopped must connect at once and a nested cooperative continuation (first connect refused) must recover.',
                ref='7 C13', note=E1_NOTE),
    'C01': dict(level='model_checking', engine='E1',
                technique='explicit-state BFS + deviation-bounded exploration with a reference RFC 4271 FSM stepped in lock-step',
                text='A reference FSM (RFC 4271 section 8 profile, vf/spec_fsm.py, independent of yabgp) yields for every '
                     '(state, event) the set of allowed outcomes (messages written, close, connect, next state); on every '
                     'transition of the exhaustive exploration the outcome observed on the real objects must be a member; '
                     'plus trace monitors (Established only after OPEN+KEEPALIVE both ways, NOTIFICATION => close + Idle, '
                     'ignored events change nothing).',
                ref='7 C01 + Appendix A', note=E1_NOTE),
    'C18': dict(level='model_checking', engine='E1',
                technique='explicit-state BFS + deviation-bounded exploration with a wire-count monitor',
                text='On every transition of the exploration (C01 alphabet plus short/long frames and REST send events) the '
                     'counters returned by GET /v1/peer/<ip>/statistic are compared with the messages the reference deframer '
                     'finds in the transport write log and in the delivered stream; the deltas are part of the canonical key. Plus: every '
                     'window of <= 3 (thorough 4) events between a REST send\'s answer and the run of its reactor.callFromThread call '
                     '(vf/deferred.py), and every 1-preemption interleaving of a REST send in its worker thread with one reactor event (E5).',
                ref='7 C18', note=E1_NOTE),
    'C02': dict(level='model_checking', engine='E1',
                technique='explicit-state BFS over adversarial prefixes with a nested deterministic continuation from every state',
                text='From every state reached by the adversarial exploration (operator never stops) the environment switches '
                     'to a cooperative peer (policies: refuse the next j connects, then cooperate) and the run must reconnect '
                     'within idle-hold after each refusal, reach Established within idle_hold + one connection cycle, stay '
                     'Established for 3 hold times with no NOTIFICATION, and offer an OPEN byte-identical to a freshly booted agent. Plus long runs against peers that refuse 130 times, answer slowly (SYN-ACK later than the idle-hold time) or lose the first SYN.',
                ref='7 C02', note=E1_NOTE),
    'C03': dict(level='model_checking', engine='E1',
                technique='exhaustive schedule enumeration (arrival gaps at the deadlines, all same-instant tie orders) on the real timers under a virtual clock',
                text='For all 64 (configured, proposed) hold pairs and every arrival schedule up to the step bound over gaps just '
                     'below / at / just above H/3 and H, both orders of an arrival that coincides with an expiry and every '
                     'order of same-instant timer expiries are executed on the real objects; timestamped monitors check the '
                     'H/3 keepalive bound, no early close, expiry exactly at last arrival + H with NOTIFICATION(4), H=0 '
                     'silence, and the 240 s OpenSent limit. Plus the same schedules with RIB maintenance on, and against a capability-rich peer whose arrivals include End-of-RIB markers.',
                ref='7 C03', note=E1_NOTE),
    'C05': dict(level='model_checking', engine='E1',
                technique='exhaustive enumeration of configurations x session histories x peer OPEN variants executed on the real session objects',
                text='For every configuration of the stated product, every history of <= 2 earlier sessions (accepted, rejected, '
                     'poorer capabilities, hold 0, second OPEN, operator stop/start, version NOTIFICATION) and every peer OPEN '
                     'variant, the run is executed on the real objects; the agent OPEN is decoded by the reference decoder and '
                     'compared with the configuration and with the first session, the accept/reject reply with the stated policy, '
                     'the armed timers with min(configured, proposed), and the AS_PATH delivered to the handler with the '
                     'capability-65 intersection of this session.',
                ref='7 C05', note=E1_NOTE),
    'C04': dict(level='exploration', engine='E2',
                technique='exhaustive segmentation enumeration (whole, byte-at-a-time, every 1-cut, every 2-cut) of a finite stream set against a reference deframer, with a deterministic work meter',
                text='Every stream of <= 3 frames over a pool of valid and framing-hostile frames, every length-field value and every '
                     'type octet is delivered to a freshly established real session under every segmentation of the stated families; '
                     'all segmentations must give the same callbacks/payloads, bytes written, close decision and buffer, and that '
                     'outcome must equal the reference deframer\'s; every dataReceived call runs under a step budget linear in the chunk.',
                ref='7 C04', note=E1_NOTE),
    'C20': dict(level='fault_enumeration', engine='E4',
                technique='exhaustive crash-point enumeration: every event history x rotation threshold x restart after the history with the last record torn at every byte offset x every continuation, on an in-memory file system bound to a real directory',
                text='The real DefaultHandler runs over an in-memory file system (os/open seams of its module) that is compared '
                     'byte-for-byte with a real temporary directory on every short history; for every history up to the bound, every '
                     'rotation threshold, a restart clean or with the last record cut at every byte offset (a following rotation undone), '
                     'every continuation and an optional second restart, all files are audited: every line a complete JSON record with '
                     'keys t/seq/type/msg (at most the torn fragment excepted), sequence numbers 1..N without gap or reuse, init() never exits.',
                ref='7 C20', note='Trusted base: the in-memory file system shim (vf/fakefs.py, cross-checked against a real directory), the crash model '
                     '(any prefix of the last event\'s bytes may be durable; earlier records are durable because every record is flushed and fsynced), '
                     'the stdlib-json stand-in for simplejson with JSON-native payloads only.'),
    'C16': dict(level='model_checking', engine='E1',
                technique='exhaustive enumeration of URL rules x methods x credential classes x session states through the Flask test client on the real objects',
                text='Every rule of the URL map under /v1/peer/ (read from app.url_map at run time) x 7 methods x 5 credential classes x 9 '
                     'session states is issued against a fresh replay of the state: without valid credentials 401, no state in the body, '
                     'empty observation and unchanged canonical key; sending endpoints outside Established report failure with no effect; '
                     'in Established every successful send (message pool, eBGP and iBGP, route-refresh x capability sets, bin_update) must '
                     'put exactly one message on the tracked transport whose reference decoding equals the request (+LOCAL_PREF 100 iff iBGP). '
                     'Plus: every window of <= 3 (thorough 4) events between a send\'s answer and the run of its reactor.callFromThread call '
                     '(the message reaches the connection it was accepted on exactly once, or is dropped with it), and every 1-preemption '
                     'interleaving of two sends in two worker threads / of a send with one reactor event (E5, linearizability).',
                ref='7 C16', note=E1_NOTE),
    'C19': dict(level='model_checking', engine='E1',
                technique='explicit-state exploration of operation sequences on the real session objects against a dictionary reference model',
                text='All sequences of received / REST-sent announce, withdraw, re-announce (same and different attributes) and session-drop '
                     'operations over a small prefix / flowspec / VPNv4 pool up to the stated depth, de-duplicated on (model state, last '
                     'operation), executed on the real BGP object with rib=True; after every operation Adj-RIB-In/Out and the per-family '
                     'received/sent version increments read back through the REST endpoints must equal the dictionary model\'s. Plus a request the table can take only in part, and two sends in two worker threads / a send and a received UPDATE with RIB maintenance on (E5).',
                ref='7 C19', note=E1_NOTE),
    'C14': dict(level='exploration', engine='E3',
                technique='small-scope exhaustive input-shape enumeration against a reference OPEN/NOTIFICATION/ROUTE-REFRESH codec',
                text='Round trip through the agent\'s own encoder and decoder over every capability subset the encoder supports x AS / hold '
                     '/ identifier boundaries (every hold value), and decoding of an independent encoder\'s OPEN for every subset of 12 '
                     'capability kinds, permutations, rotations, unknown codes and 3 packagings; all 65536 NOTIFICATION code/subcode '
                     'pairs x data lengths; ROUTE-REFRESH for all AFI/SAFI x both types; KEEPALIVE. Plus: the AS-number width of the session must follow from the two OPENs and survive an ignored second OPEN; capability sets over 255 octets; E5 pairs of the message constructors.',
                ref='7 C14', note=E3_NOTE),
    'C11': dict(level='exploration', engine='E3',
                technique='exhaustive short-input and TLV-shape enumeration per decoder entry point under a deterministic interpreter-step budget',
                text='Every decoder entry point is run on all byte strings of length 0..2, on exhaustive type x length x fill x single-octet-'
                     'override sweeps of every registered link-state TLV, BGP-LS NLRI descriptors, Prefix-SID TLVs, attribute headers '
                     'and OPEN optional parameters, on all single-octet mutations / truncations of the unit-test corpus and on inputs '
                     'padded to 4096 octets; each call must finish within 300 + 60*len interpreter steps of yabgp code, and Update.parse '
                     'must return a result object whenever its two length fields are in range. Plus nested TLVs with a malformed sibling at every level, PMSI tunnel identifiers built as mLDP FEC elements, the work for the same octets at the 5th and the 150th decode (all interpreter steps), and a wall-clock limit per task.',
                ref='7 C11', note='Trusted base: the sys.monitoring step meter (function entries + backward jumps of code under /repo; library code not metered), '
                     'the enumerated input menus. No random inputs.'),
    'C17': dict(level='exploration', engine='E3',
                technique='small-scope exhaustive enumeration from bytes: decode -> REST json_to_bin -> reference reading of the produced octets -> decode',
                text='Starting from the octets of every extended-community kind the decoder names x field boundary values, every '
                     'community class (all well-known values) and large-community field boundaries: the agent\'s decoded text is '
                     'posted to POST /v1/peer/<ip>/json_to_bin in an Established session, the produced attribute must denote the same '
                     'value under an independent reading and render the identical text again; all ordered pairs of kinds in one request; the '
                     'same through POST send/update (bytes read from the wire); the comma-list spelling; two such requests in two worker '
                     'threads under every schedule with one preemption (E5).',
                ref='7 C17', note=E3_NOTE),
    'C10': dict(level='model_checking', engine='E1',
                technique='exhaustive single-mutation hostile pool x session states delivered to the real session objects, differential against a pristine agent, with the C02 recovery continuation',
                text='Every byte string of the unit tests and the reference messages, plus all single-octet mutations and truncations of the '
                     'seeds, framed correctly as every message type and as the value of 10 attribute types, is delivered in every session '
                     'state that can receive bytes (incl. a hold-time-0 and a second session): no escaping exception, no step-budget overrun, '
                     'at most one report per message, an UPDATE body never disturbs an Established session, the known-good suite behind it is '
                     'handled as by a pristine agent, and a closed session recovers under the cooperative continuation. Plus every message of the session alphabet in every state followed by the recovery continuation, a state with debug logging on, frames of unassigned types, and hostile input inside the window of a held REST write (afterwards only reconnect timers may be armed).',
                ref='7 C10', note=E1_NOTE),
    'C06': dict(level='exploration', engine='E3',
                technique='small-scope exhaustive input-shape enumeration: construct -> parse round trip against the reference\'s expected decoded form',
                text='Every prefix length x address pool, short / long prefix lists, every attribute alone over its boundary pool (AS_PATH across '
                     'the 255-octet boundary in both AS widths), all 2^12 attribute subsets and all value pairs of attribute pairs, in 2- and '
                     '4-octet mode: Update.construct -> Update.parse must report no error and exactly the expected values; a constructor '
                     'error is accepted only for inputs the reference\'s own range table rejects. Plus: a message re-sent after an in-place edit '
                     'of one of its lists must equal a fresh send; two encoders / an encoder and the decoder in two real threads under every '
                     'schedule with one preemption (thorough: two) must each give their sequential result (E5).',
                ref='7 C06', note=E3_NOTE),
    'C07': dict(level='exploration', engine='E3',
                technique='small-scope exhaustive input-shape enumeration per address family: construct -> parse round trip against the reference\'s expected decoded form',
                text='Per family (IPv6 unicast, IPv4/IPv6 labeled unicast, VPNv4/VPNv6, EVPN, IPv4 flowspec): every prefix length x address '
                     'pool, label / RD / ESI / MAC / IP / next-hop pools, flowspec components x operators x value widths, 1-3 routes, MP_REACH '
                     'and MP_UNREACH; Update.construct -> Update.parse must return exactly the expected value. Plus the resend-after-in-place-edit cases and, per family, encoder x encoder / encoder x decoder in two real threads under every schedule with one preemption (E5).',
                ref='7 C07', note=E3_NOTE),
    'C08': dict(level='exploration', engine='E3',
                technique='small-scope exhaustive enumeration of constructor inputs with an independent structural walker over the produced bytes',
                text='Every input of the C06 / C07 pools and of the construct-only pools (SR-TE policy NLRI, tunnel encapsulation, PMSI tunnel, '
                     'IPv6 flowspec, NOTIFICATION, ROUTE-REFRESH, KEEPALIVE, OPEN) is handed to the agent\'s constructors; whatever bytes come '
                     'back, and every message written by real sessions, is walked by a decoder-independent structural walker (lengths nest '
                     'exactly, flag categories, extended-length bit, ceil(len/8) prefixes, <= 4096 octets). Plus: every family representative, OPEN, NOTIFICATION, ROUTE-REFRESH and a rich REST request with ONE value replaced by a value of the wrong shape - what is built after all must pass the walker.',
                ref='7 C08', note=E3_NOTE),
    'C09': dict(level='exploration', engine='E3',
                technique='small-scope exhaustive enumeration: an independent RFC encoder with every legal encoding variant switched on, decoded by the agent; single-field corruptions for the error half',
                text='Every case of the C06 / C07 pools is encoded by the reference encoder plain and with each variant alone (extended-length '
                     'flag, trailing prefix bits, attribute order, split AS_PATH, other AS width, add-path identifiers, AS4_PATH / '
                     'AS4_AGGREGATOR), all switch combinations x all permutations of 5 attributes on representative messages; the agent must '
                     'decode exactly the encoded values with no error. Error half: every listed single-field malformation must yield an '
                     'error and no value for the corrupted attribute, also through dataReceived. Plus the Partial bit on optional transitive attributes, trailing bits in every family, traffic-class bits in labels; the instance / session probe runs first.',
                ref='7 C09', note=E3_NOTE),
    'C15': dict(level='exploration', engine='E3',
                technique='exhaustive pair / triple enumeration over per-kind element pools with a purely differential oracle D(a||b) == D(a) ++ D(b)',
                text='For 29 list kinds (prefix lists, labeled / VPN / EVPN routes, flowspec rules, communities, cluster ids, AS_PATH segments, OPEN '
                     'capabilities in both packagings, BGP-LS NLRIs / descriptors / node sub-TLVs / attribute TLVs, Prefix-SID TLVs) all ordered '
                     'pairs of well-formed element encodings covering every element width, triples for small pools and a || unknown || b for the '
                     'TLV kinds; plus all orders of every <= 5-subset of a 13-attribute UPDATE. No reference decoder is involved. Plus: the decoders keep nothing - three passes over the unit-test UPDATEs and all their mutations, every registered link-state TLV as a container before and after malformed sub-TLVs.',
                ref='7 C15', note=E3_NOTE),
}

NOT_YET = 'check not built yet in this session (see DESIGN.md section 7 for the plan); not claimed'


def main():
    props = [json.loads(l)['id'] for l in open(os.path.join(HERE, 'properties.jsonl'))]
    checks = []
    for pid in props:
        if pid not in CHECKS:
            continue
        c = CHECKS[pid]
        checks.append({
            'property_id': pid,
            'quick_cmd': './check %s --tier quick' % pid,
            'thorough_cmd': './check %s --tier thorough' % pid,
            'evidence_file': '/verif/evidence/%s.json' % pid,
            'replay_cmd_template': './check %s --replay {path}' % pid,
            'engine': c['engine'],
            'level_claimed': {'category': c['level'], 'text': c['text'], 'design_ref': 'DESIGN.md section ' + c['ref']},
            'level_note': c['note'],
            'technique': c['technique'],
        })
    m = {
        'version': 1,
        'setup_cmd': '/venv/bin/python -m vf.selftest',
        'hooks': {
            'guard': 'YABGP_VERIF',
            'enable': 'none needed: no source hooks. Seams are applied from outside (sys.path stubs for twisted/radix/'
                      'simplejson, module-attribute replacement of `time`, `os`, `open`); checks import yabgp from /repo\'s working tree',
            'baseline_off_cmd': 'cd /repo && /venv/bin/python -m pytest -ra -q -p no:cacheprovider --timeout=900 '
                                '--continue-on-collection-errors',
            'source_commits': [],
            'add_only': True,
        },
        'engines': [
            {'name': 'E1', 'path': 'vf/explore.py', 'serves_properties': ['C01', 'C02', 'C03', 'C05', 'C10', 'C12', 'C13', 'C16', 'C18', 'C19'],
             'kind_free_text': 'explicit-state explorer of the real session objects under a virtual reactor (BFS with canonical-key de-duplication and merge check; deviation-bounded runs around a cooperative script)'},
            {'name': 'E2', 'path': 'vf/props/c04.py', 'serves_properties': ['C04'],
             'kind_free_text': 'exhaustive segmentation enumerator (whole, byte-at-a-time, every 1-cut and 2-cut) against a reference deframer'},
            {'name': 'E3', 'path': 'vf/codec.py', 'serves_properties': ['C06', 'C07', 'C08', 'C09', 'C11', 'C14', 'C15', 'C17'],
             'kind_free_text': 'small-scope exhaustive input-shape enumerator against a reference codec / structural walker'},
            {'name': 'E4', 'path': 'vf/props/c20.py', 'serves_properties': ['C20'],
             'kind_free_text': 'crash-point enumerator over an in-memory file system (every event history x restart after every event x every torn-tail offset)'},
            {'name': 'E5', 'path': 'vf/threads.py', 'serves_properties': ['C06', 'C07', 'C14', 'C16', 'C17', 'C18', 'C19'],
             'kind_free_text': 'preemption-bounded interleaving explorer for two real threads (sys.settrace line events + per-thread semaphore baton, cooperative locks): every schedule with <= 1 preemption (thorough: 2) over pairs of encoder / decoder / REST-request / reactor-event bodies, warm and from a cold start (each execution in a fresh forked process), against the bodies\' own sequential results (linearizability where the bodies do not commute)'},
        ],
        'checks': checks,
        'not_applicable': [{'property_id': p, 'reason': NOT_YET} for p in props if p not in CHECKS],
        'notes': 'Exit codes: 0 held (KNOWN-FINDING lines allowed), 1 VIOLATION, 2 harness error. known_findings.json is never written at run time.',
    }
    with open(os.path.join(HERE, 'MANIFEST.json'), 'w') as f:
        json.dump(m, f, indent=1)
    import jsonschema
    jsonschema.validate(m, json.load(open('/root/.vp/MANIFEST.schema.json')))
    print('MANIFEST.json: %d checks, %d not claimed' % (len(checks), len(m['not_applicable'])))


if __name__ == '__main__':
    main()
