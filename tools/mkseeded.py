#!/venv/bin/python
"""mkseeded.py <seed-id> <property> <patch.diff> <demo.py> <needs-to-manifest text> [extra check ids...]
Verifies a seeded change on the current /repo tree (applies it, runs the 221 tests, the demonstration with and
without it, and the named checks), then stores it under /verif/seeded/<seed-id>/ with a meta.json. Always reverts."""
import json
import os
import shutil
import subprocess
import sys

import os as _os
_os.environ.setdefault('VERIF_EVIDENCE_DIR', '/tmp/verif_evidence_scratch')      # these tools run checks against a CHANGED tree: /verif/evidence is not theirs to write

sid, prop, patch, demo, needs = sys.argv[1:6]
checks = [prop] + sys.argv[6:]


def sh(cmd, **kw):
    return subprocess.run(cmd, shell=True, capture_output=True, text=True, **kw)


if sh('git -C /repo status --porcelain --untracked-files=no').stdout.strip():
    sys.exit('refusing: /repo has uncommitted changes')
meta = {'seed': sid, 'property': prop, 'needs_to_manifest': needs, 'repo_head': sh('git -C /repo log --format=%h -1').stdout.strip(),
        'ran': []}
r0 = sh('/venv/bin/python %s /repo' % demo)
meta['demo_without_patch_rc'] = r0.returncode
meta['ran'].append('/venv/bin/python demo.py /repo   (unchanged tree) -> rc %d' % r0.returncode)
try:
    r = sh('git -C /repo apply %s' % patch)
    if r.returncode != 0:
        sys.exit('patch does not apply: ' + r.stderr[-300:])
    t = sh('cd /repo && /venv/bin/python -m pytest -q -p no:cacheprovider yabgp 2>&1 | tail -1')
    meta['tests_with_patch'] = t.stdout.strip()
    meta['ran'].append('cd /repo && /venv/bin/python -m pytest -q -p no:cacheprovider yabgp -> ' + t.stdout.strip())
    r1 = sh('/venv/bin/python %s /repo' % demo)
    meta['demo_with_patch_rc'] = r1.returncode
    meta['demo_with_patch_last_line'] = (r1.stdout.strip().splitlines() or [''])[-1][:300]
    meta['ran'].append('/venv/bin/python demo.py /repo   (patch applied) -> rc %d' % r1.returncode)
    meta['checks'] = {}
    for c in checks:
        rr = subprocess.run(['/verif/check', c, '--tier', 'quick'], capture_output=True, text=True, cwd='/verif')
        keys = [l.strip()[5:] for l in rr.stdout.splitlines() if l.startswith('  key:')]
        meta['checks'][c] = {'rc': rr.returncode, 'violation_lines': sum(l.startswith('VIOLATION') for l in rr.stdout.splitlines()),
                             'first_keys': keys[:4]}
        meta['ran'].append('./check %s --tier quick (patch applied) -> rc %d, %d VIOLATION lines' % (c, rr.returncode, meta['checks'][c]['violation_lines']))
finally:
    sh('git -C /repo checkout -- .')
    sh('rm -rf /verif/replays/*')
ok = ('221 passed' in meta.get('tests_with_patch', '')) and meta['demo_with_patch_rc'] != 0 and meta['demo_without_patch_rc'] == 0
meta['confirmed'] = ok
meta['caught_by'] = [c for c, v in meta['checks'].items() if v['rc'] == 1]
print(sid, 'confirmed' if ok else 'NOT CONFIRMED', 'caught by', meta['caught_by'] or 'NOTHING', '|', meta.get('tests_with_patch'))
if ok:
    d = '/verif/seeded/' + sid
    os.makedirs(d, exist_ok=True)
    shutil.copy(patch, d + '/patch.diff')
    shutil.copy(demo, d + '/demo.py')
    json.dump(meta, open(d + '/meta.json', 'w'), indent=1)
