#!/venv/bin/python
"""replaytest.py <patch.diff> <PROP>: with the patch applied run the check, replay up to 3 of its artefacts (expect rc 1),
revert, replay them again on the unchanged tree (expect rc 0)."""
import glob, shutil, subprocess, sys, os

import os as _os
_os.environ.setdefault('VERIF_EVIDENCE_DIR', '/tmp/verif_evidence_scratch')      # these tools run checks against a CHANGED tree: /verif/evidence is not theirs to write
patch, prop = os.path.abspath(sys.argv[1]), sys.argv[2]
def sh(c): return subprocess.run(c, shell=True, capture_output=True, text=True)
if sh('git -C /repo status --porcelain --untracked-files=no').stdout.strip():
    sys.exit('refusing: /repo dirty')
keep = '/tmp/replaytest_%s' % prop
shutil.rmtree(keep, ignore_errors=True)
try:
    assert sh('git -C /repo apply %s' % patch).returncode == 0
    r = sh('cd /verif && ./check %s --tier quick' % prop)
    files = sorted(glob.glob('/verif/replays/%s/*.json' % prop))[:3]
    os.makedirs(keep)
    res = []
    for f in files:
        g = os.path.join(keep, os.path.basename(f)); shutil.copy(f, g)
        rr = sh('cd /verif && ./check %s --replay %s' % (prop, g))
        res.append(rr.returncode)
    print(prop, 'check rc', r.returncode, 'artefacts', len(glob.glob('/verif/replays/%s/*.json' % prop)), 'replay rc with patch', res)
finally:
    sh('git -C /repo checkout -- .'); sh('rm -rf /verif/replays/*')
res2 = [sh('cd /verif && ./check %s --replay %s' % (prop, g)).returncode for g in sorted(glob.glob(keep + '/*.json'))]
print(prop, 'replay rc on the unchanged tree', res2)
shutil.rmtree(keep, ignore_errors=True)
