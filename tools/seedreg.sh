#!/bin/bash
# usage: tools/seedreg.sh [seed-id ...]   - every stored seeded change (or the named ones) against the first check that is recorded to
# catch it, on a patched COPY of /repo's HEAD (never /repo itself); one line per seed; exit 1 if a seed is no longer reported
cd "$(dirname "$0")/.."
clean=$(mktemp -d /tmp/seedreg_clean.XXXX); work=$(mktemp -d /tmp/seedreg_work.XXXX)
git -C ${YABGP_SRC:-/repo} archive HEAD | tar -x -C $clean
bad=0
for d in ${@:-$(ls seeded)}; do
  m=seeded/$d/meta.json
  [ -f $m ] || continue
  chk=$(/venv/bin/python -c "import json;m=json.load(open('$m'));print((m.get('caught_by') or [m['property']])[0])")
  rm -rf $work; cp -r $clean $work
  if ! (cd $work && patch -p1 -s < /verif/seeded/$d/patch.diff >/dev/null 2>&1); then echo "$d DOES-NOT-APPLY"; bad=1; continue; fi
  VERIF_EVIDENCE_DIR=$work/.evidence YABGP_REPO=$work timeout 1800 ./check $chk --tier quick > /tmp/seedreg_out.txt 2>&1
  rc=$?
  echo "$d $chk rc=$rc viol=$(grep -c '^VIOLATION' /tmp/seedreg_out.txt)"
  [ $rc -ne 1 ] && bad=1
done
rm -rf $clean $work
exit $bad
