#!/venv/bin/python
"""showviol.py PROP REGEX [N]: print replay artefacts of PROP whose key matches REGEX"""
import glob, json, re, sys
prop, rx = sys.argv[1], re.compile(sys.argv[2])
n = int(sys.argv[3]) if len(sys.argv) > 3 else 3
k = 0
for f in sorted(glob.glob('/verif/replays/%s/*.json' % prop)):
    d = json.load(open(f))
    if rx.search(d['key']):
        k += 1
        if k > n:
            continue
        print('KEY', d['key'])
        det = d.get('detail') or {}
        for key in ('msg', 'asn4', 'hex', 'want', 'got', 'decoded', 'error', 'problems', 'payload'):
            if key in det:
                print('   %s: %s' % (key, json.dumps(det[key])[:700]))
print('%d matching' % k)
